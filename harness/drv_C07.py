"""C07 driver — released user claims are bounded by what the token authorises."""
import base64
import copy
import json

import sess
import srv
from engine import coq_str, coq_list, coq_bool, coq_pyval, coq_opt

RULE = ("(a) unit correspondence: for generated configurations (base claims, always-add as list or dict, add_claims_by_scope, "
        "per-client add_claims by_scope/always, allowed_scopes, per-client scopes_to_claims) x scope lists x claims-request objects "
        "(null / essential / value / values) x the four release points x secondary identifier x 3 users, the real "
        "ClaimsInterface.get_claims_from_request and get_user_claims are compared with the model (restriction incl. order and specs, "
        "released claims); (b) end-to-end oracle: real flows on providers with those configurations; the attributes found in userinfo, "
        "ID Token, introspection and JWT access token must lie within the bound recomputed from configuration + token scopes + claims "
        "request; invalid / foreign-audience tokens release nothing; the same flow on a long-lived provider and on a fresh provider "
        "releases the same; (c) the token's OWN scope: the unit correspondence also calls get_claims_from_request with a scopes argument "
        "that differs from the scope of the authorization request (a subset, an unrelated list, None = fall back to the request's), and "
        "on real providers with generated release configurations access tokens whose scope is narrower than their grant's (refresh with "
        "a narrower scope, refresh of such a refresh, refresh without scope afterwards, down-scoping token exchange, exchange of an "
        "already down-scoped token) are PRESENTED to userinfo and introspection, their JWT claims and the ID Tokens minted with them "
        "are decoded: the attributes must lie within the bound recomputed from configuration + the scope of the presented token + "
        "claims request, and equal (as a set) what the model's release_tok computes for that token scope. "
        "(d) tokens minted by the AUTHORIZATION endpoint: every response type (code, id_token, code id_token, id_token token, "
        "code id_token token, token, code token; every word order) on providers with generated release configurations in which the "
        "client's userinfo and id_token entries differ (userinfo only, id_token only, different claims and opposite scope switches, "
        "partial by_scope dictionaries; a fixed matrix of such clients plus random ones), with claims requests for id_token and / or "
        "userinfo and client scope maps, as sequences of flows on one provider. The ID Token of the authorization response is decoded: "
        "its user attributes must lie within the bound of ITS release point - the id_token rules for every response type, plus the "
        "userinfo rules exactly when the response type is `id_token` alone - and equal (as a set) the model's release_authz_idt, whose "
        "release point is idt_release_point(response type); access tokens of the authorization response are presented to userinfo and "
        "introspection and decoded when JWTs; the code is redeemed and the token endpoint's ID Token / access token judged by the "
        "id_token / userinfo / introspection / access_token rules. "
        "(e) multi-valued user attributes: user records whose attributes are lists mixing permitted and non-permitted values, lists all / "
        "none of whose elements are permitted, empty and one-element lists, lists of dicts, nested lists, dicts and scalars x "
        "specifications null / essential only / value / values / essential+value(s) / value+values whose operands name one element, all "
        "elements, no element, the list as a whole, a sub-list or nothing x the source of the specification (claims parameter userinfo / "
        "id_token member, dict-form base_claims, dict-form always_add_claims, next to null specifications from scopes / list-form "
        "always-add) - at the unit level (get_claims_from_request + get_user_claims against chk_claims and chk_mv: user_claims = the "
        "shape-wise release_attr, values_within of the specification in force) and on real providers at every release point (ID Token "
        "and access token of the authorization response for every ID-Token-bearing response type, ID Token / userinfo / introspection / "
        "JWT access token after code redemption and after a refresh; release_tok / release_authz_idt as a set).  Oracle, value by value: "
        "every value that left is the user's own and is permitted by one of the specifications of the sources that permit the attribute - "
        "the released value as a whole equals a permitted value, or it is a list every element of which is permitted, or the source does "
        "not restrict values. "
        "A case is non-trivial when at least one user attribute is released.")
ASSUMPTIONS = ["the user database (users.json) is an arbitrary function user -> attributes", "JSON floats do not occur in the fixture data",
               "release point of an ID Token minted by the authorization endpoint (OIDC Core 5.4: the claims requested by scope values are "
               "returned from the UserInfo endpoint when the response type results in an access token being issued, and in the ID Token when "
               "no access token is issued, 'which is the case for the response_type value id_token'; library: Grant.payload_arguments "
               "secondary_identifier = 'claims returned are also based on rules for another release_point', handed in as as_if='userinfo' for "
               "rtype == {'id_token'} only): response type `id_token` alone -> id_token rules plus userinfo rules (what the userinfo endpoint "
               "may release for that scope, and the client's add_claims.always.userinfo / by_scope.userinfo entries when per-client claims "
               "are enabled for the ID Token handler); every other response type and every ID Token of the token endpoint -> id_token rules only",
               "a response type is the SET of its words (order and repetition do not matter)",
               "value restrictions and multi-valued attributes: a specification with a `value` / `values` member permits exactly those values "
               "(Python ==); when several sources name an attribute (base claims, always-add, scopes, claims parameter) the oracle takes the "
               "most permissive reading (a value is permitted when any of them permits it); withholding an attribute is never a violation",
               "a JWT access token omits empty-valued claims: attributes whose stored value is the empty list are left out of the model "
               "comparison at the real release points (they are kept at the unit level and in the oracle)"]

POINTS = ["userinfo", "id_token", "introspection", "access_token"]
CLAIMS = ["name", "given_name", "family_name", "nickname", "email", "email_verified", "phone_number", "address", "birthdate", "sub", "nonexistent"]
PROVIDER_MAP = None
PROTOCOL = {"sub", "iss", "aud", "exp", "iat", "auth_time", "nonce", "acr", "amr", "azp", "at_hash", "c_hash", "sid", "jti", "scope",
            "client_id", "token_class", "active", "token_type", "username", "nbf", "s_hash", "cnf"}


def module_of(server, point):
    ctx = server.context
    if point == "userinfo":
        return server.get_endpoint("userinfo")
    if point == "introspection":
        return server.get_endpoint("introspection")
    return ctx.session_manager.token_handler[point]


def coq_spec(v):
    if v is None:
        return "None"
    items = []
    for k, x in v.items():
        if k == "essential":
            items.append("(SEssential %s)" % coq_pyval(x))
        elif k == "value":
            items.append("(SValue %s)" % coq_pyval(x))
        elif k == "values":
            items.append("(SValues %s)" % coq_list([coq_pyval(y) for y in x], "pyval"))
        else:
            items.append("(SOther %s)" % coq_str(k))
    return "(Some %s)" % coq_list(items, "spec_item")


def coq_restriction(d):
    return coq_list(["(%s, %s)" % (coq_str(k), coq_spec(v)) for k, v in d.items()], "(pystr * cspec)")


def coq_scope_map(m):
    return coq_list(["(%s, %s)" % (coq_str(k), coq_list([coq_str(c) for c in v], "pystr")) for k, v in m.items()], "(pystr * list pystr)")


def gen_spec(rng, user_vals, claim):
    r = rng.random()
    if r < 0.45:
        return None
    if r < 0.6:
        return {"essential": rng.random() < 0.5}
    val = user_vals.get(claim, "x")
    if isinstance(val, (dict, list)):
        val = "x"
    if r < 0.75:
        return {"value": val if rng.random() < 0.6 else "other"}
    if r < 0.9:
        return {"values": [val, "z"] if rng.random() < 0.6 else ["q", "z"]}
    return {"essential": True, "value": val if rng.random() < 0.5 else "other"}


def unit_cases(ctx, rng, n, tok=False):
    from idpyoidc.server.scopes import SCOPE2CLAIMS
    server = srv.make_server(clients=("client_1",))
    cctx = server.context
    ci = cctx.claims_interface
    users = json.load(open(srv.USERS))
    cases = []
    for i in range(n):
        point = rng.choice(POINTS)
        sec = rng.choice(["", "", "", "userinfo", "id_token"])
        mod = module_of(server, point)
        saved = dict(mod.kwargs)
        uid = rng.choice(list(users.keys()))
        uvals = users[uid]
        try:
            base = {c: gen_spec(rng, uvals, c) for c in rng.sample(CLAIMS, rng.randint(0, 2))}
            always = rng.choice([None, [], rng.sample(CLAIMS, rng.randint(1, 2)), {c: gen_spec(rng, uvals, c) for c in rng.sample(CLAIMS, 2)}])
            by_scope = rng.random() < 0.6
            per_client = rng.random() < 0.5
            for k in ("base_claims", "always_add_claims", "add_claims_by_scope", "enable_claims_per_client"):
                mod.kwargs.pop(k, None)
            if base or rng.random() < 0.5:
                mod.kwargs["base_claims"] = base
            if always is not None:
                mod.kwargs["always_add_claims"] = always
            mod.kwargs["add_claims_by_scope"] = by_scope
            mod.kwargs["enable_claims_per_client"] = per_client
            crec = cctx.cdb["client_1"]
            for k in ("add_claims", "allowed_scopes", "scopes_to_claims"):
                crec.pop(k, None)
            c_by_scope = None
            c_always = {}
            if rng.random() < 0.6:
                c_by_scope = {p: rng.random() < 0.5 for p in rng.sample(POINTS, rng.randint(0, 3))}
                c_always = {p: rng.sample(CLAIMS, rng.randint(0, 2)) for p in rng.sample(POINTS, rng.randint(0, 3))}
                crec["add_claims"] = {"by_scope": c_by_scope, "always": c_always}
            allowed = None
            if rng.random() < 0.6:
                allowed = rng.sample(list(SCOPE2CLAIMS.keys()), rng.randint(1, 5))
                crec["allowed_scopes"] = allowed
            cmap = None
            if rng.random() < 0.25:
                cmap = {"email": ["email"], "profile": ["nickname", "birthdate"], "custom": ["address"]}
                crec["scopes_to_claims"] = cmap
            scopes = rng.sample(list(SCOPE2CLAIMS.keys()) + ["custom", "unknown"], rng.randint(0, 5))
            req = {c: gen_spec(rng, uvals, c) for c in rng.sample(CLAIMS, rng.randint(0, 3))}
            gscope, tscope = scopes, (scopes or None)
            if tok:
                # the scopes argument (the TOKEN's scope) is not the scope of the authorization request (the GRANT's)
                gscope = scopes
                r = rng.random()
                if r < 0.2:
                    tscope = None                                   # no token scope handed in: the request's scope counts
                elif r < 0.7:
                    tscope = [x for x in gscope if rng.random() < 0.5]     # a down-scoped token (possibly no scope left)
                else:
                    tscope = rng.sample(list(SCOPE2CLAIMS.keys()) + ["custom", "unknown"], rng.randint(0, 4))
                scopes = gscope if tscope is None else tscope       # what the oracle below has to go by
            auth_req = {"client_id": "client_1", "scope": gscope}
            if req or rng.random() < 0.3:
                auth_req["claims"] = {point: req}
            restriction = ci.get_claims_from_request(auth_req, point, scopes=tscope, client_id="client_1", secondary_identifier=sec)
            released = ci.get_user_claims(uid, restriction, "client_1")
            rec = {"point": point, "secondary": sec, "scopes": scopes, "request_claims": req, "restriction": restriction,
                   "grant_scope": gscope, "token_scope": tscope,
                   "released": released, "module": {"base": base, "always": always, "by_scope": by_scope, "per_client": per_client},
                   "client": {"by_scope": c_by_scope, "always": c_always, "allowed": allowed, "scope_map": bool(cmap)}, "user": uid}
            ctx.case_seen(rec, bool(released))
            ctx.count("point:" + point)
            ctx.count("released:%d" % min(len(released), 3))
            if tok:
                ctx.count("unit-token-scope:%s" % ("none" if tscope is None else "equal" if set(tscope) == set(gscope) else
                                                   "narrower" if set(tscope) < set(gscope) else "other"))
            if any(isinstance(v, float) for v in uvals.values()):
                ctx.unmodelled += 1
                continue
            # ---- oracle (from the property text): every released attribute is permitted by one of the four sources
            src = set(base) | set(req)
            if per_client:
                src |= set(c_always.get(point, [])) | (set(c_always.get(sec, [])) if sec else set())
            elif always:
                src |= set(always)
            the_map = cmap or SCOPE2CLAIMS
            for s in scopes:
                if s in (allowed if allowed is not None else list(SCOPE2CLAIMS.keys())):
                    src |= set(the_map.get(s, []))
            extra = set(released) - src
            if extra:
                ctx.violation("released-beyond-bound", "%s released %r outside the permitted sources %r" % (point, sorted(extra), sorted(src)), rec)
            for k, v in released.items():
                if v is None or uvals.get(k) != v:
                    ctx.violation("released-not-users-value", "released %s=%r, user has %r" % (k, v, uvals.get(k)), rec)
            # ---- model case
            always_t = "None" if always is None else ("(Some (AList %s))" % coq_list([coq_str(x) for x in always], "pystr") if isinstance(always, list)
                                                      else "(Some (ADict %s))" % coq_restriction(always))
            mod_t = "(mkModule %s %s %s %s)" % (coq_restriction(mod.kwargs.get("base_claims", {})), coq_bool(by_scope), always_t, coq_bool(per_client))
            cbs = "None" if c_by_scope is None else "(Some %s)" % coq_list(["(%s, %s)" % (coq_str(k), coq_bool(v)) for k, v in c_by_scope.items()], "(pystr * bool)")
            cal = coq_list(["(%s, %s)" % (coq_str(k), coq_list([coq_str(x) for x in v], "pystr")) for k, v in c_always.items()], "(pystr * list pystr)")
            cl_t = "(Some (mkClient %s %s %s %s))" % (cbs, cal, "None" if allowed is None else "(Some %s)" % coq_list([coq_str(x) for x in allowed], "pystr"),
                                                     "None" if cmap is None else "(Some %s)" % coq_scope_map(cmap))
            ui_t = coq_list(["(%s, %s)" % (coq_str(k), coq_pyval(v)) for k, v in uvals.items()], "(pystr * pyval)")
            if tok:
                sc_t = "%s, %s" % ("None" if tscope is None else "(Some %s)" % coq_list([coq_str(x) for x in tscope], "pystr"),
                                   coq_list([coq_str(x) for x in gscope], "pystr"))
            else:
                sc_t = coq_list([coq_str(x) for x in scopes], "pystr")
            term = "(%s, %s, %s, %s, %s, %s, %s, %s, %s, %s)" % (
                coq_scope_map(SCOPE2CLAIMS), mod_t, cl_t, coq_str(point), coq_str(sec), sc_t,
                coq_restriction(req), ui_t, coq_restriction(restriction),
                coq_list(["(%s, %s)" % (coq_str(k), coq_pyval(v)) for k, v in released.items()], "(pystr * pyval)"))
            cases.append((term, rec))
        finally:
            mod.kwargs.clear()
            mod.kwargs.update(saved)
    if tok:
        ctx.coq_check_cases(["Lib.Base", "Lib.PyStr", "Model.Claims"], "claims_tok_case", "chk_claims_tok", cases, shard=120, label="claims_tok",
                            diag="diag_claims_tok")
    else:
        ctx.coq_check_cases(["Lib.Base", "Lib.PyStr", "Model.Claims"], "claims_case", "chk_claims", cases, shard=120, label="claims", diag="diag_claims")


def jwt_payload(tok):
    return json.loads(base64.urlsafe_b64decode(tok.split(".")[1] + "=="))


def e2e(ctx, rng, n):
    from idpyoidc.server.scopes import SCOPE2CLAIMS
    users = json.load(open(srv.USERS))
    for i in range(n):
        jwt = i % 2 == 0
        rs = sess.RealSession(oidc=True, jwt_access=jwt)
        try:
            # configuration of the release points (before any flow)
            cfg = {}
            for point in POINTS:
                mod = module_of(rs.server, point)
                by_scope = rng.random() < 0.6
                always = rng.sample(CLAIMS[:8], rng.randint(0, 2))
                mod.kwargs["add_claims_by_scope"] = by_scope
                mod.kwargs["always_add_claims"] = always
                mod.kwargs["enable_claims_per_client"] = False
                cfg[point] = (by_scope, always, dict(mod.kwargs.get("base_claims", {})))
            seen_first = {}
            for rep in range(2):
                for (u, c, scopes, req) in [("diana", "client_1", ["openid", "email", "profile"], {"nickname": None}),
                                            ("babs", "client_2", ["openid", "address", "phone", "profile"], {"email": {"essential": True}}),
                                            ("diana", "client_12", ["openid"], {})]:
                    claims_param = {"userinfo": req, "id_token": req} if req else None
                    extra = {"claims": claims_param} if claims_param else {}
                    o = rs.run(("authz", u, c, scopes, "code", extra))
                    if o[0] != "ok":
                        ctx.notes.append("e2e authz failed %r" % (o,))
                        continue
                    code = o[1][0]
                    rs.run(("tparse", c, ("tok", code), "same"))
                    p = rs.run(("proc", len(rs.parsed) - 1, None))
                    if p[0] != "ok":
                        continue
                    allowed = rs.ctx.cdb[c].get("allowed_scopes", list(SCOPE2CLAIMS.keys()))

                    def bound(point):
                        by_scope, always, base = cfg[point]
                        b = set(base) | set(always) | (set(req) if point in ("userinfo", "id_token") else set())
                        if by_scope:
                            for s in scopes:
                                if s in allowed:
                                    b |= set(SCOPE2CLAIMS.get(s, []))
                        return b
                    at = p[1]["access_token"]
                    views = {}
                    ui = rs.ep["userinfo"]
                    pr = ui.parse_request({}, http_info={"headers": {"authorization": "Bearer " + rs.tokens[at]}})
                    r = ui.process_request(pr)
                    views["userinfo"] = dict(r["response_args"])
                    views["id_token"] = jwt_payload(rs.tokens[p[1]["id_token"]])
                    ie = rs.ep["introspection"]
                    ir = ie.process_request(ie.parse_request(rs._token_req(c, {"token": rs.tokens[at]})))["response_args"]
                    views["introspection"] = dict(ir)
                    if jwt:
                        views["access_token"] = jwt_payload(rs.tokens[at])
                    rec = {"user": u, "client": c, "scopes": scopes, "claims_request": req, "config": {k: [v[0], v[1]] for k, v in cfg.items()},
                           "released": {k: sorted(x for x in v if x in users[u]) for k, v in views.items()}}
                    ctx.case_seen(rec, any(rec["released"].values()))
                    for point, payload in views.items():
                        attrs = {k for k in payload if k in users[u] and k not in PROTOCOL}
                        extra_attrs = attrs - bound(point)
                        if extra_attrs:
                            ctx.violation("e2e-beyond-bound", "%s contains %r beyond %r" % (point, sorted(extra_attrs), sorted(bound(point))), rec)
                    key = (u, c)
                    if key in seen_first:
                        if seen_first[key] != rec["released"]:
                            ctx.violation("history-dependent", "same flow released %r first and %r later" % (seen_first[key], rec["released"]), rec)
                    else:
                        seen_first[key] = rec["released"]
                    # foreign audience and dead token release nothing
                    other = [x for x in sess.CLIENTS if x != c][0]
                    ir2 = ie.process_request(ie.parse_request(rs._token_req(other, {"token": rs.tokens[at]})))["response_args"]
                    if any(k in users[u] for k in ir2.keys()):
                        ctx.violation("released-to-foreign-audience", "introspection by %s of %s's token released %r" % (other, c, sorted(ir2.keys())), rec)
                    if rep == 1:
                        rs.sm.revoke_token(rs.grants[rs.tok_grant[at]][0], rs.tokens[at])
                        out = rs.run(("userinfo", ("tok", at)))
                        if out[0] == "ok":
                            ctx.violation("released-for-dead-token", "userinfo answered for a revoked token", rec)
        finally:
            rs.close()


def exchange_policy(ctx, rng):
    """A token obtained by cross-client token exchange is released under the policy of the client that HOLDS it (its
    add_claims, its allowed scopes), not under the policy of the client the subject token was issued to."""
    import drv_C05
    from idpyoidc.server.scopes import SCOPE2CLAIMS
    users = json.load(open(srv.USERS))
    POL = {"userinfo": ["email", "phone_number"], "introspection": ["email", "nickname"], "access_token": ["email", "address"]}
    for rich, poor in (("client_1", "client_2"), ("client_2", "client_1"), ("client_12", "client_1")):
        over = {rich: {"add_claims": {"always": copy.deepcopy(POL), "by_scope": {}}}}
        old = sess.FIXED_AUTHZ
        sess.FIXED_AUTHZ = drv_C05.EXCH_AUTHZ
        try:
            rs = sess.RealSession(oidc=True, jwt_access=True, client_over=over)
        finally:
            sess.FIXED_AUTHZ = old
        try:
            for point in ("userinfo", "introspection"):
                rs.server.get_endpoint(point).kwargs["enable_claims_per_client"] = True
                rs.server.get_endpoint(point).kwargs["add_claims_by_scope"] = True
            rs.sm.token_handler.handler["access_token"].kwargs["enable_claims_per_client"] = True
            for subject_of, holder in ((rich, poor), (poor, rich)):
                u = rng.choice(["diana", "babs"])
                scopes = ["openid", "email", "offline_access"]
                o = rs.run(("authz", u, subject_of, scopes))
                if o[0] != "ok":
                    ctx.notes.append("exchange_policy: authz failed %r" % (o,))
                    continue
                rs.run(("tparse", subject_of, ("tok", o[1][0]), "same"))
                p = rs.run(("proc", len(rs.parsed) - 1, None))
                if p[0] != "ok":
                    continue
                at = rs.tokens[p[1]["access_token"]]
                body = {"grant_type": drv_C05.TE, "subject_token": at, "subject_token_type": drv_C05.TT + "access_token", "audience": holder}
                resp, err = drv_C05.token_call(rs, holder, body)
                rec = {"exchange": True, "user": u, "subject_token_of": subject_of, "held_by": holder, "policy_client": rich, "refused": err}
                if not resp:
                    ctx.case_seen(rec, False)
                    ctx.count("exchange-policy:refused")
                    continue
                t2 = resp["access_token"]
                views = {"access_token": jwt_payload(t2)}
                ui = rs.ep["userinfo"]
                try:
                    views["userinfo"] = dict(ui.process_request(ui.parse_request({}, http_info={"headers": {"authorization": "Bearer " + t2}}))["response_args"])
                except Exception as e:
                    views["userinfo"] = {}
                ie = rs.ep["introspection"]
                views["introspection"] = dict(ie.process_request(ie.parse_request(rs._token_req(holder, {"token": t2})))["response_args"])
                allowed = rs.ctx.cdb[holder].get("allowed_scopes", list(SCOPE2CLAIMS.keys()))
                tscope = resp.get("scope") or []
                tscope = tscope.split() if isinstance(tscope, str) else list(tscope)
                rec["released"] = {k: sorted(x for x in v if x in users[u]) for k, v in views.items()}
                ctx.case_seen(rec, True)
                ctx.count("exchange-policy:%s" % ("holder-has-policy" if holder == rich else "subject-client-has-policy"))
                # ---- a token without any audience (exchange without audience / resource): it is nobody else's to inspect
                body3 = {"grant_type": drv_C05.TE, "subject_token": at, "subject_token_type": drv_C05.TT + "access_token"}
                resp3, err3 = drv_C05.token_call(rs, holder, body3)
                if resp3 and resp3.get("access_token"):
                    third = [x for x in sess.CLIENTS if x not in (holder,)][0]
                    try:
                        ir3 = dict(ie.process_request(ie.parse_request(rs._token_req(third, {"token": resp3["access_token"]})))["response_args"])
                    except Exception:
                        ir3 = {}
                    leaked = sorted(k for k in ir3 if k in users[u] and k not in PROTOCOL)
                    ctx.count("exchange-policy:no-audience-token:%s" % ("active-to-third" if ir3.get("active") else "inactive-to-third"))
                    if leaked:
                        ctx.violation("released-to-foreign-audience", "introspection by %s of a token held by %s (no audience) released %r"
                                      % (third, holder, leaked), dict(rec, third=third))
                for point, payload in views.items():
                    mod = module_of(rs.server, point)
                    b = set(mod.kwargs.get("base_claims", {})) | set(mod.kwargs.get("always_add_claims", []) or [])
                    if holder == rich:
                        b |= set(POL[point])
                    if mod.kwargs.get("add_claims_by_scope"):
                        for sc in tscope:
                            if sc in allowed:
                                b |= set(SCOPE2CLAIMS.get(sc, []))
                    attrs = {k for k in payload if k in users[u] and k not in PROTOCOL}
                    if attrs - b:
                        ctx.violation("e2e-beyond-bound", "%s of a token %s obtained by exchanging a token of %s contains %r beyond %r (the policy of %s)"
                                      % (point, holder, subject_of, sorted(attrs - b), sorted(b), holder), rec)
        finally:
            rs.close()


def release_bound(server, point, client, token_scope, claims_param):
    """The property's bound for one release point, recomputed from the provider's current configuration, the scope of the
    PRESENTED token and the claims parameter: base claims + always-add claims (the release point's, or the client's own when
    per-client claims are enabled) + - when scope-derived claims are on for this point - the claims mapped for that client
    from those scopes of the token that the client is allowed + the claims requested for this point."""
    mod = module_of(server, point)
    cctx = server.context
    crec = cctx.cdb[client]
    b = set(mod.kwargs.get("base_claims") or {})
    by_scope = bool(mod.kwargs.get("add_claims_by_scope"))
    if mod.kwargs.get("enable_claims_per_client"):
        add = crec.get("add_claims") or {}
        b |= set((add.get("always") or {}).get(point) or [])
        if (add.get("by_scope") or {}).get(point) is not None:
            by_scope = bool(add["by_scope"][point])
    else:
        b |= set(mod.kwargs.get("always_add_claims") or [])
    if by_scope:
        the_map = crec.get("scopes_to_claims") or cctx.scopes_handler._scopes_to_claims
        allowed = crec.get("allowed_scopes")
        if allowed is None:
            allowed = list(cctx.scopes_handler._scopes_to_claims.keys())
        for sc in token_scope:
            if sc in allowed:
                b |= set(the_map.get(sc, []))
    b |= set((claims_param or {}).get(point) or {})
    return b


def coq_release_config(server, point, client):
    """the release configuration of one point and one client as the model's (scope_map, module_cfg, option client_cfg)"""
    mod = module_of(server, point)
    cctx = server.context
    crec = cctx.cdb[client]
    always = mod.kwargs.get("always_add_claims")
    always_t = "None" if always is None else ("(Some (AList %s))" % coq_list([coq_str(x) for x in always], "pystr") if isinstance(always, list)
                                              else "(Some (ADict %s))" % coq_restriction(always))
    mod_t = "(mkModule %s %s %s %s)" % (coq_restriction(mod.kwargs.get("base_claims") or {}), coq_bool(bool(mod.kwargs.get("add_claims_by_scope"))),
                                        always_t, coq_bool(bool(mod.kwargs.get("enable_claims_per_client"))))
    add = crec.get("add_claims") or {}
    cbs = add.get("by_scope")
    cbs_t = "None" if cbs is None else "(Some %s)" % coq_list(["(%s, %s)" % (coq_str(k), coq_bool(v)) for k, v in cbs.items()], "(pystr * bool)")
    cal_t = coq_list(["(%s, %s)" % (coq_str(k), coq_list([coq_str(x) for x in v], "pystr")) for k, v in (add.get("always") or {}).items()],
                     "(pystr * list pystr)")
    allowed = crec.get("allowed_scopes")
    cmap = crec.get("scopes_to_claims")
    cl_t = "(Some (mkClient %s %s %s %s))" % (cbs_t, cal_t, "None" if allowed is None else "(Some %s)" % coq_list([coq_str(x) for x in allowed], "pystr"),
                                             "None" if cmap is None else "(Some %s)" % coq_scope_map(cmap))
    return "%s, %s, %s" % (coq_scope_map(cctx.scopes_handler._scopes_to_claims), mod_t, cl_t)


def downscoped_tokens(ctx, rng, n):
    """Tokens whose OWN scope is narrower than the scope of the grant they belong to, presented at every release point.
    History per grant: authorization (code flow, offline_access) -> token endpoint [T0: token scope = grant scope, the control]
    -> refresh with a narrower scope [T1] -> refresh of that refresh token with a still narrower scope [T2] -> refresh of the
    latest refresh token without a scope parameter [T3] -> token exchange of T0's access token with a narrower scope [X0] ->
    token exchange of T1's (already down-scoped) access token without / with a scope parameter [X1].
    Every access token obtained is presented to userinfo and to introspection (by its client), decoded when it is a JWT; every
    ID Token minted along with it is decoded.  Oracle: the user attributes shown lie within release_bound(configuration,
    scope of THAT token, claims request).  Correspondence: they equal, as a set, the model's release_tok for that token scope."""
    import drv_C05
    users = json.load(open(srv.USERS))
    cases = []
    for i in range(n):
        jwt = i % 2 == 0
        over = {}
        for c in sess.CLIENTS:
            o = {}
            if rng.random() < 0.4:
                o["add_claims"] = {"always": {p: rng.sample(CLAIMS[:8], rng.randint(0, 2)) for p in rng.sample(POINTS, rng.randint(0, 4))},
                                   "by_scope": ({p: rng.random() < 0.7 for p in POINTS} if rng.random() < 0.7 else {})}
            if rng.random() < 0.2:
                o["scopes_to_claims"] = {"openid": ["sub"], "email": ["email"], "profile": ["nickname", "name"], "phone": ["phone_number", "address"],
                                         "address": ["address"], "offline_access": []}
            over[c] = o
        old = sess.FIXED_AUTHZ
        sess.FIXED_AUTHZ = drv_C05.EXCH_AUTHZ      # access tokens may mint (token exchange)
        try:
            rs = sess.RealSession(oidc=True, jwt_access=jwt, client_over=copy.deepcopy(over))
        finally:
            sess.FIXED_AUTHZ = old
        try:
            cfg = {}
            for point in POINTS:
                mod = module_of(rs.server, point)
                mod.kwargs["add_claims_by_scope"] = rng.random() < 0.8
                mod.kwargs["always_add_claims"] = rng.sample(CLAIMS[:8], rng.randint(0, 1))
                mod.kwargs["enable_claims_per_client"] = rng.random() < 0.4
                if rng.random() < 0.3:
                    bc = rng.choice(CLAIMS[:8])
                    mod.kwargs["base_claims"] = {bc: gen_spec(rng, users["diana"], bc)}
                cfg[point] = {k: mod.kwargs.get(k) for k in ("add_claims_by_scope", "always_add_claims", "enable_claims_per_client", "base_claims")}
            ui_ep, ie = rs.ep["userinfo"], rs.ep["introspection"]
            for flow in range(2):
                c = rng.choice(sess.CLIENTS)
                u = rng.choice(["diana", "babs", "dian"])
                crec = rs.ctx.cdb[c]
                pool = [x for x in crec.get("allowed_scopes", sess.SCOPES_KNOWN) if x not in ("openid", "offline_access")]
                gscope = ["openid"] + rng.sample(pool, min(len(pool), rng.randint(2, 4))) + ["offline_access"]
                rng.shuffle(gscope)
                req_claims = {}
                if rng.random() < 0.5:
                    for p in rng.sample(["userinfo", "id_token"], rng.randint(1, 2)):
                        req_claims[p] = {x: gen_spec(rng, users[u], x) for x in rng.sample(CLAIMS[:8], rng.randint(1, 2))}
                o = rs.run(("authz", u, c, gscope, "code", {"claims": req_claims} if req_claims else {}))
                if o[0] != "ok" or not o[1]:
                    ctx.notes.append("downscoped_tokens: authz failed %r" % (o,))
                    continue
                gi = rs.tok_grant[o[1][0]]
                grant = rs.grants[gi][1]
                grant_scope = list(grant.scope)
                presented = []          # (how, access token index, id token index or None, scope asked for)

                def refresh(rt, scope, how):
                    r = rs.run(("rparse", c, ("tok", rt), scope))
                    if r[0] != "ok":
                        ctx.count("downscoped:%s:refused" % how)
                        return None
                    p = rs.run(("proc", len(rs.parsed) - 1, None))
                    if p[0] != "ok" or "access_token" not in p[1]:
                        ctx.count("downscoped:%s:refused" % how)
                        return None
                    presented.append((how, p[1]["access_token"], p[1].get("id_token"), scope))
                    return p[1]

                def exchange(at, scope, how):
                    body = {"grant_type": drv_C05.TE, "subject_token": rs.tokens[at], "subject_token_type": drv_C05.TT + "access_token"}
                    if scope is not None:
                        body["scope"] = " ".join(scope)
                    resp, err = drv_C05.token_call(rs, c, body)
                    rs.find_new_grants()
                    rs.harvest()
                    if not resp or resp.get("access_token") not in rs.tokens:
                        ctx.count("downscoped:%s:refused" % how)
                        return None
                    presented.append((how, rs.tokens.index(resp["access_token"]), None, scope))
                    return resp

                def narrower(sc, keep_refresh=True):
                    """a proper subset of sc that keeps openid mostly and, when asked, offline_access"""
                    rest = [x for x in sc if x not in ("openid", "offline_access")]
                    k = rng.randint(0, max(0, len(rest) - 1))
                    sub = rng.sample(rest, k)
                    if "openid" in sc and rng.random() < 0.85:
                        sub.append("openid")
                    if "offline_access" in sc and keep_refresh:
                        sub.append("offline_access")
                    rng.shuffle(sub)
                    return sub

                rs.run(("tparse", c, ("tok", o[1][0]), "same"))
                p0 = rs.run(("proc", len(rs.parsed) - 1, None))
                if p0[0] != "ok":
                    ctx.notes.append("downscoped_tokens: code exchange failed %r" % (p0,))
                    continue
                t0 = p0[1]
                presented.append(("code", t0["access_token"], t0.get("id_token"), None))
                t1 = refresh(t0["refresh_token"], narrower(grant_scope), "refresh-narrower") if "refresh_token" in t0 else None
                t2 = None
                if t1 and "refresh_token" in t1:
                    s1 = list(rs.tokobj[t1["access_token"]].scope)
                    t2 = refresh(t1["refresh_token"], narrower(s1), "refresh-of-refresh-narrower")
                last = next((t for t in (t2, t1, t0) if t and "refresh_token" in t), None)
                if last:
                    refresh(last["refresh_token"], None, "refresh-without-scope-after")
                exchange(t0["access_token"], narrower(grant_scope, keep_refresh=False), "exchange-narrower")
                if t1:
                    s1 = list(rs.tokobj[t1["access_token"]].scope)
                    exchange(t1["access_token"], None if rng.random() < 0.5 else narrower(s1, keep_refresh=False), "exchange-of-downscoped")

                for how, at, idt, asked in presented:
                    tobj = rs.tokobj[at]
                    tscope = list(tobj.scope)
                    tg = rs.grants[rs.tok_grant[at]]
                    holder = tg[3]
                    views, scopes_of = {}, {}
                    try:
                        r = ui_ep.process_request(ui_ep.parse_request({}, http_info={"headers": {"authorization": "Bearer " + rs.tokens[at]}}))
                        ra = r.get("response_args", r) if isinstance(r, dict) else r
                        if "error" not in ra:
                            views["userinfo"] = dict(ra)
                            scopes_of["userinfo"] = tscope
                    except Exception as e:
                        ctx.count("downscoped:userinfo-crash:%s" % type(e).__name__)
                    try:
                        ir = dict(ie.process_request(ie.parse_request(rs._token_req(holder, {"token": rs.tokens[at]})))["response_args"])
                        if ir.get("active"):
                            views["introspection"] = ir
                            scopes_of["introspection"] = tscope
                    except Exception as e:
                        ctx.count("downscoped:introspection-crash:%s" % type(e).__name__)
                    if jwt:
                        views["access_token"] = jwt_payload(rs.tokens[at])
                        scopes_of["access_token"] = tscope
                    if idt is not None and idt >= 0:
                        views["id_token"] = jwt_payload(rs.tokens[idt])
                        scopes_of["id_token"] = list(rs.tokobj[idt].scope)
                    rel = "equal" if set(tscope) == set(tg[1].scope) else "narrower" if set(tscope) < set(tg[1].scope) else "other"
                    rec = {"downscoped": True, "how": how, "user": u, "client": holder, "grant_scope": list(tg[1].scope), "scope_asked_for": asked,
                           "token_scope": tscope, "token_scope_vs_grant": rel, "claims_request": req_claims, "config": cfg,
                           "client_policy": {k: rs.ctx.cdb[holder].get(k) for k in ("add_claims", "allowed_scopes", "scopes_to_claims")},
                           "jwt_access_token": jwt,
                           "released": {k: sorted(x for x in v if x in users[u] and x not in PROTOCOL) for k, v in views.items()}}
                    ctx.case_seen(rec, any(rec["released"].values()))
                    ctx.count("downscoped:%s:%s" % (how, rel))
                    uvals = {k: v for k, v in users[u].items() if k not in PROTOCOL}
                    for point, payload in views.items():
                        psc = scopes_of[point]
                        attrs = {k for k in payload if k in uvals}
                        b = release_bound(rs.server, point, holder, psc, req_claims)
                        ctx.count("downscoped-view:%s:%s" % (point, rel))
                        if attrs - b:
                            ctx.violation("beyond-presented-token-scope",
                                          "%s for a token with scope %r (grant scope %r, obtained by %s) contains %r beyond the bound %r of that token's scope"
                                          % (point, psc, list(tg[1].scope), how, sorted(attrs - b), sorted(b)), dict(rec, point=point))
                        for k in attrs:
                            if payload[k] != uvals[k]:
                                ctx.violation("released-not-users-value", "%s released %s=%r, user has %r" % (point, k, payload[k], uvals[k]), dict(rec, point=point))
                        # ---- model case: release_tok with the token's scope and the grant's scope as separate arguments
                        term = "(%s, %s, %s, (Some %s), %s, %s, %s, %s)" % (
                            coq_release_config(rs.server, point, holder), coq_str(point), coq_str(""),
                            coq_list([coq_str(x) for x in psc], "pystr"), coq_list([coq_str(x) for x in tg[1].scope], "pystr"),
                            coq_restriction(req_claims.get(point) or {}),
                            coq_list(["(%s, %s)" % (coq_str(k), coq_pyval(v)) for k, v in uvals.items()], "(pystr * pyval)"),
                            coq_list(["(%s, %s)" % (coq_str(k), coq_pyval(payload[k])) for k in payload if k in uvals], "(pystr * pyval)"))
                        cases.append((term, dict(rec, point=point)))
        finally:
            rs.close()
    ctx.coq_check_cases(["Lib.Base", "Lib.PyStr", "Model.Claims"], "release_tok_case", "chk_release_tok", cases, shard=120, label="release_tok",
                        diag="diag_release_tok")


# Response types at the authorization endpoint.  The five that carry `openid` semantics of their own (OIDC Core 3) and the
# two OAuth2 ones that make the authorization endpoint mint an access token without an ID Token.
RESPONSE_TYPES = ["code", "id_token", "code id_token", "id_token token", "code id_token token", "token", "code token"]


def authz_idt_bound(server, rt_words, client, token_scope, claims_param):
    """The property's bound for the ID Token found in an AUTHORIZATION response, as a function of the response type.
    Every response type: the id_token rules (release_bound for the point id_token).  Response type `id_token` alone
    (no access token will ever exist for the flow, so the userinfo endpoint can never be asked - OIDC Core 5.4): plus
    the userinfo rules - what the userinfo endpoint would be permitted to release for a token with that scope, and the
    client's own userinfo entries (add_claims.always.userinfo / by_scope.userinfo) when per-client claims are enabled
    for the ID Token handler (the library's documented `secondary_identifier`: "claims returned are also based on rules
    for another release_point").  For every other response type nothing configured or requested for userinfo counts."""
    b = release_bound(server, "id_token", client, token_scope, claims_param)
    if set(rt_words) == {"id_token"}:
        b |= release_bound(server, "userinfo", client, token_scope, claims_param)
        b |= client_userinfo_entries(server, client, token_scope)
    return b


def client_userinfo_entries(server, client, token_scope):
    """what the client's own userinfo entries (add_claims.always.userinfo, add_claims.by_scope.userinfo) stand for when
    per-client claims are enabled for the ID Token handler"""
    b = set()
    cctx = server.context
    crec = cctx.cdb[client]
    if module_of(server, "id_token").kwargs.get("enable_claims_per_client"):
        add = crec.get("add_claims") or {}
        b |= set((add.get("always") or {}).get("userinfo") or [])
        if (add.get("by_scope") or {}).get("userinfo"):
            the_map = crec.get("scopes_to_claims") or cctx.scopes_handler._scopes_to_claims
            allowed = crec.get("allowed_scopes")
            if allowed is None:
                allowed = list(cctx.scopes_handler._scopes_to_claims.keys())
            for sc in token_scope:
                if sc in allowed:
                    b |= set(the_map.get(sc, []))
    return b


def draw_client_release(rng):
    """A client's release configuration.  `as-downscoped` is what downscoped_tokens draws; the other shapes make the
    entries of userinfo and id_token DIFFER: a client that configures only userinfo, only id_token, both with different
    claims and opposite scope switches, a by_scope dictionary that names some points only."""
    shape = rng.choice(["none", "as-downscoped", "as-downscoped", "userinfo-only", "userinfo-only", "userinfo-only", "id_token-only", "differ", "differ",
                        "partial", "partial", "others-only"])
    o = {}
    pick = lambda lo, hi: rng.sample(CLAIMS[:8], rng.randint(lo, hi))
    if shape == "as-downscoped":
        o["add_claims"] = {"always": {p: pick(0, 2) for p in rng.sample(POINTS, rng.randint(0, 4))},
                           "by_scope": ({p: rng.random() < 0.7 for p in POINTS} if rng.random() < 0.7 else {})}
    elif shape == "userinfo-only":
        o["add_claims"] = {"always": ({"userinfo": pick(1, 2)} if rng.random() < 0.8 else {}),
                           "by_scope": ({"userinfo": rng.random() < 0.8} if rng.random() < 0.8 else {})}
    elif shape == "id_token-only":
        o["add_claims"] = {"always": ({"id_token": pick(1, 2)} if rng.random() < 0.8 else {}),
                           "by_scope": ({"id_token": rng.random() < 0.6} if rng.random() < 0.8 else {})}
    elif shape == "differ":
        flag = rng.random() < 0.5
        o["add_claims"] = {"always": {"userinfo": pick(1, 2), "id_token": pick(0, 2)}, "by_scope": {"userinfo": flag, "id_token": not flag}}
    elif shape == "partial":
        o["add_claims"] = {"always": {p: pick(0, 2) for p in rng.sample(POINTS, rng.randint(1, 3))},
                           "by_scope": {p: rng.random() < 0.6 for p in rng.sample(POINTS, rng.randint(1, 3))}}
    elif shape == "others-only":
        o["add_claims"] = {"always": {"introspection": pick(1, 2), "access_token": pick(1, 2)},
                           "by_scope": {"introspection": True, "access_token": rng.random() < 0.5}}
    if rng.random() < 0.2:
        o["scopes_to_claims"] = {"openid": ["sub"], "email": ["email"], "profile": ["nickname", "name"], "phone": ["phone_number", "address"],
                                 "address": ["address"], "offline_access": []}
    return shape, o


def authz_endpoint_id_tokens(ctx, rng, n):
    """ID Tokens (and access tokens) minted by the AUTHORIZATION endpoint itself, for every response type, on providers with
    generated release configurations (module settings of the four points as downscoped_tokens draws them, per-client
    add_claims whose userinfo and id_token entries differ, claims requests for id_token and / or userinfo, client scope
    maps).  Per provider a sequence of flows of different response types, clients and users (so every flow but the first
    has a history).  Per flow: the ID Token of the authorization response is decoded -> oracle authz_idt_bound (id_token
    rules; plus userinfo rules exactly for response type `id_token` alone) and correspondence with the model's
    release_authz_idt (idt_release_point rt); an access token of the authorization response is presented to userinfo and
    introspection and decoded when a JWT; a code is redeemed and the token endpoint's ID Token / access token are judged by
    the id_token / userinfo / introspection / access_token rules as everywhere else."""
    import itertools
    users = json.load(open(srv.USERS))
    idt_cases, tok_cases = [], []
    # the fixed part: per-client claims on for the ID Token handler; client_1 configures ONLY always-add for userinfo,
    # client_2 ONLY the scope switch of userinfo, client_12 both points with different claims and opposite switches;
    # every ID-Token-bearing response type in every word order (a response type is a set), code flow as the control
    MATRIX = [
        {"jwt": False, "id_token": (False, [], True), "userinfo": (False, [], True), "claims": {},
         "over": {"client_1": {"add_claims": {"always": {"userinfo": ["email", "nickname"]}, "by_scope": {}}},
                  "client_2": {"add_claims": {"always": {}, "by_scope": {"userinfo": True}}},
                  "client_12": {"add_claims": {"always": {"userinfo": ["phone_number", "name"], "id_token": ["given_name"]},
                                               "by_scope": {"userinfo": True, "id_token": False}}}}},
        {"jwt": True, "id_token": (True, ["family_name"], True), "userinfo": (True, ["address"], False), "claims": {"userinfo": {"nickname": None, "birthdate": None}},
         "over": {"client_1": {"add_claims": {"always": {"userinfo": ["email"], "introspection": ["name"]}, "by_scope": {"userinfo": True, "id_token": False}}},
                  "client_2": {"add_claims": {"always": {"userinfo": ["phone_number"]}, "by_scope": {"userinfo": True, "introspection": False}}},
                  "client_12": {"add_claims": {"always": {"id_token": ["email"], "userinfo": ["address", "email_verified"]},
                                               "by_scope": {"id_token": False, "access_token": True}}}}},
    ]
    for i in range(len(MATRIX) + n):
        fixed = MATRIX[i] if i < len(MATRIX) else None
        if fixed:
            jwt = fixed["jwt"]
            over = copy.deepcopy(fixed["over"])
            shapes = {c: "matrix" for c in sess.CLIENTS}
        else:
            jwt = i % 2 == 0
            over, shapes = {}, {}
            for c in sess.CLIENTS:
                shapes[c], over[c] = draw_client_release(rng)
        rs = sess.RealSession(oidc=True, jwt_access=jwt, client_over=copy.deepcopy(over))
        try:
            cfg = {}
            for point in POINTS:
                mod = module_of(rs.server, point)
                if fixed:
                    bs, al, pc = fixed.get(point, (True, [], False))
                    mod.kwargs["add_claims_by_scope"], mod.kwargs["always_add_claims"], mod.kwargs["enable_claims_per_client"] = bs, list(al), pc
                else:
                    mod.kwargs["add_claims_by_scope"] = rng.random() < (0.5 if point == "id_token" else 0.8)
                    mod.kwargs["always_add_claims"] = rng.sample(CLAIMS[:8], rng.randint(0, 1))
                    mod.kwargs["enable_claims_per_client"] = rng.random() < (0.7 if point == "id_token" else 0.4)
                    if rng.random() < 0.3:
                        bc = rng.choice(CLAIMS[:8])
                        mod.kwargs["base_claims"] = {bc: gen_spec(rng, users["diana"], bc)}
                cfg[point] = {k: mod.kwargs.get(k) for k in ("add_claims_by_scope", "always_add_claims", "enable_claims_per_client", "base_claims")}
            ui_ep, ie = rs.ep["userinfo"], rs.ep["introspection"]
            plan = []       # (response type, its words in the order sent, client or None, claims request or None)
            if fixed:
                for rt in RESPONSE_TYPES[:5]:
                    for words in itertools.permutations(rt.split()):
                        for c in sess.CLIENTS:
                            plan.append((rt, list(words), c, fixed["claims"]))
                rng.shuffle(plan)
            else:
                rts = list(RESPONSE_TYPES) + [rng.choice(RESPONSE_TYPES[1:5]) for _ in range(5)]
                rng.shuffle(rts)
                for rt in rts:
                    words = rt.split()
                    rng.shuffle(words)
                    plan.append((rt, words, None, None))
            hist = []
            for rt, words, c, req_claims in plan:
                if c is None:
                    # clients whose userinfo and id_token entries differ are drawn more often
                    c = rng.choice([x for x in sess.CLIENTS for _ in range(3 if shapes[x] in ("userinfo-only", "differ", "partial", "as-downscoped") else 1)])
                u = rng.choice(["diana", "babs", "dian"])
                crec = rs.ctx.cdb[c]
                pool = [x for x in crec.get("allowed_scopes", sess.SCOPES_KNOWN) if x not in ("openid", "offline_access")]
                gscope = ["openid"] + rng.sample(pool, min(len(pool), rng.randint(2 if fixed else 1, 4)))
                if rng.random() < 0.2:
                    gscope.append("unknown")
                rng.shuffle(gscope)
                if req_claims is None:
                    req_claims = {}
                    if rng.random() < 0.5:
                        for p in rng.sample(["userinfo", "id_token"], rng.randint(1, 2)):
                            req_claims[p] = {x: gen_spec(rng, users[u], x) for x in rng.sample(CLAIMS[:8], rng.randint(1, 2))}
                o = rs.run(("authz", u, c, gscope, " ".join(words), {"claims": req_claims} if req_claims else {}))
                if o[0] != "ok" or not o[1]:
                    ctx.count("authz-rt:%s:refused" % rt)
                    ctx.notes.append("authz_endpoint_id_tokens: authorization refused %r (%s)" % (o, rt))
                    continue
                slots = {}
                for t in o[1]:
                    slots[rs.tokobj[t].token_class] = t
                uvals = {k: v for k, v in users[u].items() if k not in PROTOCOL}
                base_rec = {"authz_endpoint": True, "response_type": " ".join(words), "user": u, "client": c, "scope_asked_for": gscope,
                            "claims_request": req_claims, "config": cfg, "client_shape": shapes[c], "jwt_access_token": jwt,
                            "client_policy": {k: crec.get(k) for k in ("add_claims", "allowed_scopes", "scopes_to_claims")},
                            "flows_before": list(hist)}
                hist.append([" ".join(words), c, u])
                want = {"authorization_code": "code" in words, "access_token": "token" in words, "id_token": "id_token" in words}
                for cls_, w in want.items():
                    if w != (cls_ in slots):
                        ctx.count("authz-rt:%s:unexpected-%s-%s" % (rt, "missing" if w else "extra", cls_))

                def access_token_views(at, how):
                    """present one access token at userinfo / introspection, decode it: the usual per-point bound + release_tok"""
                    tscope = list(rs.tokobj[at].scope)
                    gs = list(rs.grants[rs.tok_grant[at]][1].scope)
                    views = {}
                    try:
                        r = ui_ep.process_request(ui_ep.parse_request({}, http_info={"headers": {"authorization": "Bearer " + rs.tokens[at]}}))
                        ra = r.get("response_args", r) if isinstance(r, dict) else r
                        if "error" not in ra:
                            views["userinfo"] = dict(ra)
                    except Exception as e:
                        ctx.count("authz-rt:userinfo-crash:%s" % type(e).__name__)
                    try:
                        ir = dict(ie.process_request(ie.parse_request(rs._token_req(c, {"token": rs.tokens[at]})))["response_args"])
                        if ir.get("active"):
                            views["introspection"] = ir
                    except Exception as e:
                        ctx.count("authz-rt:introspection-crash:%s" % type(e).__name__)
                    if jwt:
                        views["access_token"] = jwt_payload(rs.tokens[at])
                    rec = dict(base_rec, how=how, token_scope=tscope, grant_scope=gs,
                               released={k: sorted(x for x in v if x in uvals) for k, v in views.items()})
                    ctx.case_seen(rec, any(rec["released"].values()))
                    for point, payload in views.items():
                        attrs = {k for k in payload if k in uvals}
                        b = release_bound(rs.server, point, c, tscope, req_claims)
                        ctx.count("authz-rt-view:%s:%s:%s" % (rt, how, point))
                        if attrs - b:
                            ctx.violation("beyond-presented-token-scope", "%s for the access token of a %s flow (%s, scope %r) contains %r beyond the bound %r"
                                          % (point, rt, how, tscope, sorted(attrs - b), sorted(b)), dict(rec, point=point))
                        for k in attrs:
                            if payload[k] != uvals[k]:
                                ctx.violation("released-not-users-value", "%s released %s=%r, user has %r" % (point, k, payload[k], uvals[k]), dict(rec, point=point))
                        term = "(%s, %s, %s, (Some %s), %s, %s, %s, %s)" % (
                            coq_release_config(rs.server, point, c), coq_str(point), coq_str(""),
                            coq_list([coq_str(x) for x in tscope], "pystr"), coq_list([coq_str(x) for x in gs], "pystr"),
                            coq_restriction(req_claims.get(point) or {}),
                            coq_list(["(%s, %s)" % (coq_str(k), coq_pyval(v)) for k, v in uvals.items()], "(pystr * pyval)"),
                            coq_list(["(%s, %s)" % (coq_str(k), coq_pyval(payload[k])) for k in payload if k in uvals], "(pystr * pyval)"))
                        tok_cases.append((term, dict(rec, point=point)))

                def id_token_view(idt, how, rt_words):
                    """decode one ID Token.  rt_words: the response type when the AUTHORIZATION endpoint minted it, None for the token endpoint's"""
                    payload = jwt_payload(rs.tokens[idt])
                    tscope = list(rs.tokobj[idt].scope)
                    gs = list(rs.grants[rs.tok_grant[idt]][1].scope)
                    attrs = {k for k in payload if k in uvals}
                    alone = rt_words is not None and set(rt_words) == {"id_token"}
                    rec = dict(base_rec, how=how, point="id_token", token_scope=tscope, grant_scope=gs, released={"id_token": sorted(attrs)},
                               id_token_minted_by="authorization endpoint" if rt_words is not None else "token endpoint",
                               release_point=["id_token", "userinfo"] if alone else ["id_token"])
                    ctx.case_seen(rec, bool(attrs))
                    ctx.count("authz-rt-view:%s:%s:id_token" % (rt, how))
                    b = authz_idt_bound(rs.server, rt_words if rt_words is not None else ["code"], c, tscope, req_claims)
                    if attrs - b:
                        if rt_words is None:
                            ctx.violation("beyond-presented-token-scope", "the token endpoint's ID Token of a %s flow (scope %r) contains %r beyond the id_token bound %r"
                                          % (rt, tscope, sorted(attrs - b), sorted(b)), rec)
                        else:
                            only_ui = (attrs - b) & authz_idt_bound(rs.server, ["id_token"], c, tscope, req_claims)
                            ctx.violation("authz-id-token-beyond-release-point",
                                          "the ID Token in the authorization response for response type %r (scope %r) contains %r beyond the bound %r of its release point %s%s"
                                          % (" ".join(rt_words), tscope, sorted(attrs - b), sorted(b), "id_token + userinfo" if alone else "id_token",
                                             "; %r are permitted for userinfo only" % sorted(only_ui) if only_ui and not alone else ""), rec)
                    if attrs:
                        ctx.count("authz-idt-nonempty:%s" % (rt if rt_words is not None else "token-endpoint"))
                    if not alone:
                        # coverage: flows in which the userinfo rules WOULD add something this user has (the ID Token must not show it)
                        more = {k for k in client_userinfo_entries(rs.server, c, tscope) - b if uvals.get(k) is not None}
                        ctx.count("authz-idt-userinfo-rules-would-add-%s:%s" % ("something" if more else "nothing", rt if rt_words is not None else "token-endpoint"))
                    for k in attrs:
                        if payload[k] != uvals[k]:
                            ctx.violation("released-not-users-value", "ID Token released %s=%r, user has %r" % (k, payload[k], uvals[k]), rec)
                    term = "(%s, %s, (Some %s), %s, %s, %s, %s)" % (
                        coq_release_config(rs.server, "id_token", c),
                        coq_list([coq_str(x) for x in (rt_words if rt_words is not None else ["code"])], "pystr"),
                        coq_list([coq_str(x) for x in tscope], "pystr"), coq_list([coq_str(x) for x in gs], "pystr"),
                        coq_restriction(req_claims.get("id_token") or {}),
                        coq_list(["(%s, %s)" % (coq_str(k), coq_pyval(v)) for k, v in uvals.items()], "(pystr * pyval)"),
                        coq_list(["(%s, %s)" % (coq_str(k), coq_pyval(payload[k])) for k in payload if k in uvals], "(pystr * pyval)"))
                    idt_cases.append((term, rec))

                ctx.count("authz-rt:%s" % rt)
                if "id_token" in slots:
                    id_token_view(slots["id_token"], "authorization-response", words)
                if "access_token" in slots:
                    access_token_views(slots["access_token"], "authorization-response")
                if "authorization_code" in slots:
                    rs.run(("tparse", c, ("tok", slots["authorization_code"]), "same"))
                    p0 = rs.run(("proc", len(rs.parsed) - 1, None))
                    if p0[0] != "ok":
                        ctx.count("authz-rt:%s:code-refused" % rt)
                        continue
                    if p0[1].get("id_token") is not None and p0[1]["id_token"] >= 0:
                        id_token_view(p0[1]["id_token"], "code-redeemed", None)
                    if "access_token" in p0[1]:
                        access_token_views(p0[1]["access_token"], "code-redeemed")
        finally:
            rs.close()
    ctx.coq_check_cases(["Lib.Base", "Lib.PyStr", "Model.Claims"], "authz_idt_case", "chk_authz_idt", idt_cases, shard=120, label="authz_idt",
                        diag="diag_authz_idt")
    ctx.coq_check_cases(["Lib.Base", "Lib.PyStr", "Model.Claims"], "release_tok_case", "chk_release_tok", tok_cases, shard=120, label="authz_tok",
                        diag="diag_release_tok")


def browser_session_flows(ctx, rng):
    """A later authorization request from the same browser (the provider's session cookie is presented) releases what
    ITS OWN scope and claims parameter authorise - not what an earlier request of that browser session asked for."""
    from idpyoidc.server.scopes import SCOPE2CLAIMS
    users = json.load(open(srv.USERS))
    for jwt in (False, True):
        rs = sess.RealSession(oidc=True, jwt_access=jwt)
        try:
            for point in POINTS:
                mod = module_of(rs.server, point)
                mod.kwargs["add_claims_by_scope"] = True
                mod.kwargs["always_add_claims"] = []
                mod.kwargs["enable_claims_per_client"] = False
            first_claims = {"userinfo": {"email": None, "phone_number": None}, "id_token": {"nickname": None}}
            for c in ("client_1", "client_2"):
                u = "diana"
                nonce = "n-%s-%d" % (c, int(jwt))
                base = {"state": "browser-state", "nonce": nonce}
                o1 = rs.op_authz(u, c, ["openid"], extra=dict(base, claims=first_claims))
                ck = rs.last_cookie
                if o1[0] != "ok" or not ck:
                    ctx.notes.append("browser_session_flows: first request failed %r" % (o1,))
                    continue
                variants = [("same-without-claims", ["openid"], None), ("same-other-claims", ["openid"], {"userinfo": {"nickname": None}}),
                            ("other-scope", ["openid", "email"], None)]
                for vname, scopes, claims in variants:
                    extra = dict(base)
                    if claims:
                        extra["claims"] = claims
                    o2 = rs.op_authz(u, c, scopes, extra=extra, cookie=ck)
                    ck = rs.last_cookie or ck
                    if o2[0] != "ok" or not o2[1]:
                        ctx.count("browser-session:%s:refused" % vname)
                        continue
                    code = o2[1][0]
                    rs.run(("tparse", c, ("tok", code), "same"))
                    p = rs.run(("proc", len(rs.parsed) - 1, None))
                    if p[0] != "ok":
                        continue
                    at = p[1]["access_token"]
                    views = {}
                    ui = rs.ep["userinfo"]
                    views["userinfo"] = dict(ui.process_request(ui.parse_request({}, http_info={"headers": {"authorization": "Bearer " + rs.tokens[at]}}))["response_args"])
                    views["id_token"] = jwt_payload(rs.tokens[p[1]["id_token"]])
                    if jwt:
                        views["access_token"] = jwt_payload(rs.tokens[at])
                    allowed = rs.ctx.cdb[c].get("allowed_scopes", list(SCOPE2CLAIMS.keys()))
                    rec = {"browser_session": True, "variant": vname, "client": c, "scopes": scopes, "claims_request": claims,
                           "earlier_claims_request": first_claims,
                           "released": {k: sorted(x for x in v if x in users[u]) for k, v in views.items()}}
                    ctx.case_seen(rec, True)
                    ctx.count("browser-session:%s" % vname)
                    for point, payload in views.items():
                        b = set()
                        for sc in scopes:
                            if sc in allowed:
                                b |= set(SCOPE2CLAIMS.get(sc, []))
                        if claims and point in claims:
                            b |= set(claims[point])
                        attrs = {k for k in payload if k in users[u] and k not in PROTOCOL}
                        if attrs - b:
                            ctx.violation("e2e-beyond-bound", "%s of a later request of the browser session (%s) contains %r beyond what that request authorises %r"
                                          % (point, vname, sorted(attrs - b), sorted(b)), rec)
        finally:
            rs.close()


def order_independence(ctx, rng, n_orders):
    """What a flow releases does not depend on the flows processed before it: flows of different response types
    for one client (per-client always-add claims, secondary release point for response_type=id_token) in every
    order on one long-lived provider vs. each flow alone on a fresh provider."""
    import itertools
    users = json.load(open(srv.USERS))
    over = {"client_1": {"add_claims": {"always": {"id_token": ["nickname"], "userinfo": ["email", "phone_number"], "introspection": ["name"]},
                                        "by_scope": {"id_token": False, "userinfo": True}}}}
    flows = [("id_token", ["openid"]), ("code", ["openid", "profile"]), ("code id_token", ["openid"]), ("id_token", ["openid", "email"])]

    def setup():
        rs = sess.RealSession(oidc=True, client_over=copy.deepcopy(over))
        for point in POINTS:
            mod = module_of(rs.server, point)
            mod.kwargs["enable_claims_per_client"] = True
        return rs

    def run_flow(rs, rt, scopes):
        o = rs.run(("authz", "diana", "client_1", scopes, rt, {}))
        if o[0] != "ok":
            return {"error": o}
        out = {}
        new = o[1]
        for i in new:
            if rs.tokobj[i].token_class == "id_token":
                out["authz_id_token"] = sorted(k for k in jwt_payload(rs.tokens[i]) if k in users["diana"])
        codes = [i for i in new if rs.tokobj[i].token_class == "authorization_code"]
        if codes:
            rs.run(("tparse", "client_1", ("tok", codes[0]), "same"))
            p = rs.run(("proc", len(rs.parsed) - 1, None))
            if p[0] == "ok":
                out["token_id_token"] = sorted(k for k in jwt_payload(rs.tokens[p[1]["id_token"]]) if k in users["diana"])
                ui = rs.ep["userinfo"]
                pr = ui.parse_request({}, http_info={"headers": {"authorization": "Bearer " + rs.tokens[p[1]["access_token"]]}})
                out["userinfo"] = sorted(k for k in ui.process_request(pr)["response_args"] if k in users["diana"])
        return out

    alone = {}
    for rt, sc in flows:
        rs = setup()
        try:
            alone[(rt, tuple(sc))] = run_flow(rs, rt, sc)
        finally:
            rs.close()
    orders = list(itertools.permutations(range(len(flows))))
    rng.shuffle(orders)
    for order in orders[:n_orders]:
        rs = setup()
        try:
            before = copy.deepcopy(rs.ctx.cdb["client_1"].get("add_claims"))
            hist = []
            for i in order:
                rt, sc = flows[i]
                got = run_flow(rs, rt, sc)
                hist.append({"flow": rt, "scopes": sc, "released": got})
                if got != alone[(rt, tuple(sc))]:
                    ctx.violation("history-dependent", "flow %s %r released %r after %r but %r on a fresh provider"
                                  % (rt, sc, got, [h["flow"] for h in hist[:-1]], alone[(rt, tuple(sc))]), hist)
            after = rs.ctx.cdb["client_1"].get("add_claims")
            if after != before:
                ctx.violation("client-config-changed", "the client's add_claims changed from %r to %r" % (before, after), hist)
            ctx.case_seen({"order": [flows[i][0] for i in order], "hist": hist}, True)
        finally:
            rs.close()


def dead_token_release(ctx, rng, n):
    """'Nothing about a user is released for an invalid token', over HISTORIES: which tokens are dead is a matter of
    what happened before (expiry, revocation of the token / its parent / its grant / the client or user session,
    refresh-token rotation followed by a code replay, remove-session).  The session histories of C02 / C03 / C05 are run
    here with C03's reference liveness (computed from the history alone) as the oracle at the release points: a token
    the reference says is dead must not be served by userinfo nor reported active (with claims) by introspection.
    Oracle only: the model side of these histories is C03's."""
    import drv_C03
    import drv_session_common as common
    import sess
    sc = ["openid", "profile", "email", "offline_access"]
    fixed = []
    for oidc in (True, False):
        fl = "oidc" if oidc else "oauth2"
        a = 4 if oidc else 3           # tokens per redemption: access, refresh (+ id token)
        # rotation, then the code is presented again: everything that descends from the first redemption is dead,
        # including what the rotated refresh token minted
        fixed.append(("rotation-then-code-replay-" + fl, oidc, True, [
            ("authz", "diana", "client_1", sc), ("tparse", "client_1", ("tok", 0), "same"), ("proc", 0, None),
            ("rparse", "client_1", ("tok", 2), None), ("proc", 1, None),
            ("rparse", "client_1", ("tok", 2 + a - 1 if False else len(range(a)) + 2), None), ("proc", 2, None),
            ("tparse", "client_1", ("tok", 0), "same"), ("proc", 3, None)]
            + [("userinfo", ("tok", t)) for t in range(1, 3 * a + 1) if oidc]
            + [("introspect", "client_1", ("tok", t)) for t in range(1, 3 * a + 1)]))
        fixed.append(("revoke-refresh-then-parent-" + fl, oidc, True, [
            ("authz", "babs", "client_2", sc), ("tparse", "client_2", ("tok", 0), "same"), ("proc", 0, None),
            ("rparse", "client_2", ("tok", 2), None), ("proc", 1, None),
            ("api_revoke", ("tok", 2), False), ("api_revoke", ("tok", 0), True)]
            + [("userinfo", ("tok", t)) for t in range(1, 2 * a + 1) if oidc]
            + [("introspect", "client_2", ("tok", t)) for t in range(1, 2 * a + 1)]))
    for label, oidc, roi, ops in fixed:
        common.one_history(ctx, rng, None, oidc, roi, [drv_C03.Liveness(ctx)], "c07-" + label, fixed_ops=ops)
    for i in range(n):
        oidc = (i % 3 != 2)
        roi = (i % 2 == 0)             # refresh-token rotation on every other provider
        plan = sess.gen_history(rng, rng.randint(25, 60), focus="multi" if i % 3 == 1 else "mixed")
        common.one_history(ctx, rng, plan, oidc, roi, [drv_C03.Liveness(ctx)], "c07-dead-%d" % i,
                           rules=["explicit", "implied", "handler", "partial"][i % 4])
    ctx.count("dead-token-release:histories", n + len(fixed))


# ---------------------------------------------------------------------------------------------------------------------
# Multi-valued user attributes x value restrictions.  The property bounds what is RELEASED value by value: for a claim
# whose specification restricts values (`value` / `values`) only permitted values may leave the provider.
# (attribute names that are no registered claim of any token profile: RFC 9068 types `roles` / `groups` / `entitlements`)
MV_ATTRS = ["affil", "ent", "teams", "one", "posts", "lvl", "tags"]
MV_USERS = {
    "mia": {"name": "Mia Vale", "given_name": "Mia", "email": "mia@example.org", "nickname": "M",
            "affil": ["staff@example.org", "member@example.org", "alum@example.org"], "ent": ["urn:x:admin", "urn:x:reader"],
            "teams": [], "one": ["solo"], "posts": [{"r": "admin", "at": "hq"}, {"r": "reader", "at": "hq"}], "lvl": 3,
            "tags": ["a", "b", "a"]},
    "moe": {"name": "Moe Wall", "email": "moe@example.org", "nickname": "Mo",
            "affil": ["member@example.org"], "ent": [], "teams": ["wheel", "ops"], "one": "solo",
            "posts": [{"r": "reader", "at": "hq"}], "lvl": [1, 2], "tags": "a"},
    "max": {"name": "Max Xu", "email": "max@example.org",
            "affil": "member@example.org", "ent": ["urn:x:reader"], "teams": ["finance", "ops", "wheel"], "one": [],
            "posts": {"r": "admin", "at": "hq"}, "tags": [["a", "b"], "c"]},
}
MV_SCOPE_MAP = {"openid": ["sub"], "email": ["email", "ent"], "profile": ["nickname", "name", "affil", "teams"], "phone": ["phone_number"],
                "address": ["address", "posts"], "offline_access": []}


def mv_shape(val):
    if isinstance(val, list):
        if not val:
            return "empty-list"
        if any(isinstance(x, dict) for x in val):
            return "list-of-dicts"
        if any(isinstance(x, list) for x in val):
            return "nested-list"
        return "one-element-list" if len(val) == 1 else "list"
    return "dict" if isinstance(val, dict) else "scalar"


def gen_spec_mv(rng, val):
    """a claim specification for an attribute whose stored value is val: null / essential only / value / values /
    essential + value(s) / value + values; the operands name one element, all elements, no element, the list as a
    whole, a sub-list, nothing"""
    elems = list(val) if isinstance(val, list) else [val]
    elem = copy.deepcopy(rng.choice(elems)) if elems else "zz"
    whole = copy.deepcopy(val)
    form = rng.choice(["null", "essential", "value", "value", "values", "values", "values", "essential+value", "essential+values", "value+values"])
    if form == "null":
        return None, form
    if form == "essential":
        return {"essential": rng.random() < 0.5}, form

    def one():
        return copy.deepcopy(rng.choice([elem, elem, elem, whole, "other@example.org", elems[:1], [elem]]))

    def many():
        return copy.deepcopy(rng.choice([[elem, "zz"], [elem], list(elems), ["q", "zz"], [whole, "zz"], [], [elems[-1] if elems else "q", elem],
                                         [elem, "zz"], [whole]]))
    spec = {}
    if form.startswith("essential"):
        spec["essential"] = rng.random() < 0.7
    if "values" in form and form.startswith("value+"):
        spec["value"] = one()
        spec["values"] = many()
    elif "values" in form:
        spec["values"] = many()
    else:
        spec["value"] = one()
    return spec, form


def spec_restricts(spec):
    return spec is not None and ("value" in spec or "values" in spec)


def spec_permits(spec, x):
    """does this specification permit the value x to leave?  no value restriction: everything"""
    if not spec_restricts(spec):
        return True
    if "value" in spec and x == spec["value"]:
        return True
    return "values" in spec and isinstance(spec["values"], (list, tuple)) and x in spec["values"]


def value_permitted(specs, v):
    """specs: the specifications (None = no restriction) of the sources that permit the attribute at all.  The value v that
    left is within them when, as a whole, it is permitted by one of them, or - a list - when every single element is"""
    if any(spec_permits(s, v) for s in specs):
        return True
    if isinstance(v, list):
        return all(any(spec_permits(s, x) for s in specs) for x in v)
    return False


def mv_relation(spec, val):
    """coverage label: how the stored value relates to a restricting specification"""
    if not spec_restricts(spec):
        return "unrestricted"
    if spec_permits(spec, val):
        return "whole-permitted"
    if not isinstance(val, list):
        return "scalar-not-permitted"
    ok = [spec_permits(spec, x) for x in val]
    if not val:
        return "empty-list"
    return "all-elements-permitted" if all(ok) else "mixed-permitted-and-not" if any(ok) else "no-element-permitted"


def users_value_ok(released, stored):
    """what is shown of an attribute is the user's own: the stored value, or - multi-valued - values out of the stored list"""
    if released == stored:
        return True
    return isinstance(released, list) and isinstance(stored, list) and all(x in stored for x in released)


def plain(x):
    """Message / list-like -> plain JSON-like value"""
    return json.loads(json.dumps(x, default=lambda o: o.to_dict() if hasattr(o, "to_dict") else list(o)))


def multi_valued_unit(ctx, rng, n):
    """ClaimsInterface.get_claims_from_request + get_user_claims on user records with multi-valued attributes, specifications
    from the claims parameter, dict-form base_claims and dict-form always_add_claims.  Oracle: every released value is the
    user's and is permitted (value by value) by one of the sources that name the attribute.  Correspondence: chk_claims
    (restriction and released claims) and chk_mv (user_claims = the shape-wise release_attr = what the library released;
    values_within of the specification in force)."""
    from idpyoidc.server.scopes import SCOPE2CLAIMS
    server = srv.make_server(clients=("client_1",))
    cctx = server.context
    ci = cctx.claims_interface
    cctx.userinfo.db = copy.deepcopy(MV_USERS)
    names = MV_ATTRS + ["nickname", "email", "nonexistent"]
    cases, mv_cases = [], []
    for i in range(n):
        point = rng.choice(POINTS)
        mod = module_of(server, point)
        saved = dict(mod.kwargs)
        uid = rng.choice(list(MV_USERS))
        uvals = MV_USERS[uid]
        labels = []

        def spec_for(c, source):
            s, form = gen_spec_mv(rng, uvals.get(c, "x"))
            labels.append((c, source, form, s))
            return s
        try:
            for k in ("base_claims", "always_add_claims", "add_claims_by_scope", "enable_claims_per_client"):
                mod.kwargs.pop(k, None)
            base = {c: spec_for(c, "base_claims") for c in rng.sample(names, rng.randint(0, 3))}
            r = rng.random()
            always = None if r < 0.3 else rng.sample(names, rng.randint(1, 2)) if r < 0.5 else \
                {c: spec_for(c, "always_add_claims") for c in rng.sample(names, rng.randint(1, 3))}
            by_scope = rng.random() < 0.5
            if base or rng.random() < 0.5:
                mod.kwargs["base_claims"] = base
            if always is not None:
                mod.kwargs["always_add_claims"] = always
            mod.kwargs["add_claims_by_scope"] = by_scope
            mod.kwargs["enable_claims_per_client"] = False
            crec = cctx.cdb["client_1"]
            for k in ("add_claims", "allowed_scopes", "scopes_to_claims"):
                crec.pop(k, None)
            cmap = None
            if rng.random() < 0.5:
                cmap = copy.deepcopy(MV_SCOPE_MAP)
                crec["scopes_to_claims"] = cmap
            scopes = rng.sample(["openid", "email", "profile", "address", "unknown"], rng.randint(0, 3))
            req = {c: spec_for(c, "claims-parameter") for c in rng.sample(names, rng.randint(0, 4))}
            auth_req = {"client_id": "client_1", "scope": scopes}
            if req or rng.random() < 0.3:
                auth_req["claims"] = {point: req}
            restriction = ci.get_claims_from_request(auth_req, point, scopes=scopes or None, client_id="client_1", secondary_identifier="")
            released = ci.get_user_claims(uid, restriction, "client_1")
            rec = {"multi_valued": "unit", "point": point, "scopes": scopes, "request_claims": req, "restriction": restriction,
                   "released": released, "module": {"base": base, "always": always, "by_scope": by_scope}, "client_scope_map": bool(cmap),
                   "user": uid, "user_record": uvals}
            ctx.case_seen(rec, bool(released))
            for c, source, form, s in labels:
                if c in uvals:
                    ctx.count("mv-unit:%s:%s:%s" % (source, mv_shape(uvals[c]), form))
                    ctx.count("mv-unit-relation:%s" % mv_relation(s, uvals[c]))
            # ---- oracle: the sources that name the attribute, each with its specification
            specs = {}
            for k, s in base.items():
                specs.setdefault(k, []).append(s)
            if isinstance(always, dict):
                for k, s in always.items():
                    specs.setdefault(k, []).append(s)
            else:
                for k in always or []:
                    specs.setdefault(k, []).append(None)
            the_map = cmap or SCOPE2CLAIMS
            for s_ in scopes:
                if s_ in SCOPE2CLAIMS:          # (no allowed_scopes on the client: the provider's scopes)
                    for k in the_map.get(s_, []):
                        specs.setdefault(k, []).append(None)
            for k, s in req.items():
                specs.setdefault(k, []).append(s)
            for k, v in released.items():
                if k not in specs:
                    ctx.violation("released-beyond-bound", "%s released %r which no source permits (%r)" % (point, k, sorted(specs)), rec)
                    continue
                if v is None or k not in uvals or not users_value_ok(v, uvals[k]):
                    ctx.violation("released-not-users-value", "released %s=%r, user has %r" % (k, v, uvals.get(k)), rec)
                if not value_permitted(specs[k], v):
                    ctx.violation("released-value-not-permitted",
                                  "%s released %s=%r; the specifications that permit %s are %r: not every value that left is a permitted one"
                                  % (point, k, v, k, specs[k]), rec)
                else:
                    ctx.count("mv-unit-released:%s:%s" % (mv_shape(v), "restricted" if all(spec_restricts(s) for s in specs[k]) else "unrestricted"))
            # ---- model cases
            always_t = "None" if always is None else ("(Some (AList %s))" % coq_list([coq_str(x) for x in always], "pystr") if isinstance(always, list)
                                                      else "(Some (ADict %s))" % coq_restriction(always))
            mod_t = "(mkModule %s %s %s false)" % (coq_restriction(mod.kwargs.get("base_claims", {})), coq_bool(by_scope), always_t)
            cl_t = "(Some (mkClient None %s None %s))" % (coq_list([], "(pystr * list pystr)"), "None" if cmap is None else "(Some %s)" % coq_scope_map(cmap))
            ui_t = coq_list(["(%s, %s)" % (coq_str(k), coq_pyval(v)) for k, v in uvals.items()], "(pystr * pyval)")
            rel_t = coq_list(["(%s, %s)" % (coq_str(k), coq_pyval(v)) for k, v in released.items()], "(pystr * pyval)")
            cases.append(("(%s, %s, %s, %s, %s, %s, %s, %s, %s, %s)" % (
                coq_scope_map(SCOPE2CLAIMS), mod_t, cl_t, coq_str(point), coq_str(""), coq_list([coq_str(x) for x in scopes], "pystr"),
                coq_restriction(req), ui_t, coq_restriction(restriction), rel_t), rec))
            mv_cases.append(("(%s, %s, %s)" % (coq_restriction(restriction), ui_t, rel_t), rec))
        finally:
            mod.kwargs.clear()
            mod.kwargs.update(saved)
    ctx.coq_check_cases(["Lib.Base", "Lib.PyStr", "Model.Claims"], "claims_case", "chk_claims", cases, shard=120, label="mv_claims", diag="diag_claims")
    ctx.coq_check_cases(["Lib.Base", "Lib.PyStr", "Model.Claims", "Model.ClaimsMV"], "mv_case", "chk_mv", mv_cases, shard=120, label="mv_release_attr",
                        diag="diag_mv")


def release_specs(server, point, client, token_scope, claims_param):
    """release_bound with the specifications: attribute -> the specifications (None = no restriction) of the sources that
    permit it at this release point for a token with that scope"""
    mod = module_of(server, point)
    cctx = server.context
    crec = cctx.cdb[client]
    out = {}
    for k, s in (mod.kwargs.get("base_claims") or {}).items():
        out.setdefault(k, []).append(s)
    by_scope = bool(mod.kwargs.get("add_claims_by_scope"))
    if mod.kwargs.get("enable_claims_per_client"):
        add = crec.get("add_claims") or {}
        for k in (add.get("always") or {}).get(point) or []:
            out.setdefault(k, []).append(None)
        if (add.get("by_scope") or {}).get(point) is not None:
            by_scope = bool(add["by_scope"][point])
    else:
        always = mod.kwargs.get("always_add_claims") or []
        for k in always:
            out.setdefault(k, []).append(always[k] if isinstance(always, dict) else None)
    if by_scope:
        the_map = crec.get("scopes_to_claims") or cctx.scopes_handler._scopes_to_claims
        allowed = crec.get("allowed_scopes")
        if allowed is None:
            allowed = list(cctx.scopes_handler._scopes_to_claims.keys())
        for sc in token_scope:
            if sc in allowed:
                for k in the_map.get(sc, []):
                    out.setdefault(k, []).append(None)
    for k, s in ((claims_param or {}).get(point) or {}).items():
        out.setdefault(k, []).append(s)
    return out


def multi_valued_release_points(ctx, rng, n):
    """Real flows for users with multi-valued attributes on providers whose release points carry value restrictions
    (dict-form base_claims, dict-form always_add_claims) and whose authorization requests carry a claims parameter with
    value restrictions for userinfo and / or id_token.  Every release point the check visits: the ID Token of the
    authorization response (response types with id_token), the access token of the authorization response (userinfo,
    introspection, JWT), the token endpoint's ID Token and access token after code redemption and after a refresh.
    Oracle: names within release_bound / authz_idt_bound; every value that left is the user's and is permitted, value by
    value, by one of the specifications of the sources that permit the attribute.  Correspondence: release_tok /
    release_authz_idt (as a set)."""
    idt_cases, tok_cases = [], []
    names = MV_ATTRS + ["nickname", "email"]

    def draw_spec(k, u=None):
        u = u or rng.choice([x for x in MV_USERS if k in MV_USERS[x]])
        return gen_spec_mv(rng, MV_USERS[u].get(k, "x"))[0]
    for i in range(n):
        jwt = i % 2 == 0
        over = {c: ({"scopes_to_claims": copy.deepcopy(MV_SCOPE_MAP)} if rng.random() < 0.4 else {}) for c in sess.CLIENTS}
        rs = sess.RealSession(oidc=True, jwt_access=jwt, client_over=copy.deepcopy(over))
        try:
            rs.server.context.userinfo.db.update(copy.deepcopy(MV_USERS))
            cfg = {}
            for point in POINTS:
                mod = module_of(rs.server, point)
                mod.kwargs["add_claims_by_scope"] = rng.random() < 0.6
                mod.kwargs["enable_claims_per_client"] = False
                r = rng.random()
                mod.kwargs["always_add_claims"] = [] if r < 0.25 else rng.sample(names, rng.randint(1, 2)) if r < 0.45 else \
                    {k: draw_spec(k) for k in rng.sample(names, rng.randint(1, 3))}
                if rng.random() < 0.7:
                    mod.kwargs["base_claims"] = {k: draw_spec(k) for k in rng.sample(names, rng.randint(1, 3))}
                cfg[point] = {k: copy.deepcopy(mod.kwargs.get(k)) for k in ("add_claims_by_scope", "always_add_claims", "enable_claims_per_client", "base_claims")}
            ui_ep, ie = rs.ep["userinfo"], rs.ep["introspection"]
            rts = ["code", "code id_token", "id_token", "id_token token", "code id_token token", "code"]
            rng.shuffle(rts)
            hist = []
            for rt in rts:
                words = rt.split()
                rng.shuffle(words)
                c = rng.choice(sess.CLIENTS)
                u = rng.choice(list(MV_USERS))
                crec = rs.ctx.cdb[c]
                pool = [x for x in crec.get("allowed_scopes", sess.SCOPES_KNOWN) if x not in ("openid", "offline_access")]
                gscope = ["openid"] + rng.sample(pool, min(len(pool), rng.randint(0, 3)))
                if "code" in words and rng.random() < 0.7:
                    gscope.append("offline_access")
                rng.shuffle(gscope)
                req_claims = {}
                for p in rng.sample(["userinfo", "id_token"], rng.randint(1, 2)):
                    req_claims[p] = {k: draw_spec(k, u) for k in rng.sample(names, rng.randint(2, 5))}
                o = rs.run(("authz", u, c, gscope, " ".join(words), {"claims": copy.deepcopy(req_claims)}))
                if o[0] != "ok" or not o[1]:
                    ctx.count("mv-e2e:%s:refused" % rt)
                    ctx.notes.append("multi_valued_release_points: authorization refused %r (%s)" % (o, rt))
                    continue
                slots = {}
                for t in o[1]:
                    slots[rs.tokobj[t].token_class] = t
                uvals = MV_USERS[u]
                uv_model = {k: v for k, v in uvals.items() if v != []}      # (a JWT access token omits empty-valued claims: nothing leaves either way)
                base_rec = {"multi_valued": "release-points", "response_type": " ".join(words), "user": u, "user_record": uvals, "client": c,
                            "scope_asked_for": gscope, "claims_request": req_claims, "config": cfg, "jwt_access_token": jwt,
                            "client_scope_map": crec.get("scopes_to_claims"), "flows_before": list(hist)}
                hist.append([" ".join(words), c, u])
                for p, d in req_claims.items():
                    for k, s in d.items():
                        if k in uvals:
                            ctx.count("mv-e2e-claims-parameter:%s:%s" % (p, mv_relation(s, uvals[k])))
                for p in POINTS:
                    for src in ("base_claims", "always_add_claims"):
                        d = cfg[p].get(src)
                        if isinstance(d, dict):
                            for k, s in d.items():
                                if k in uvals:
                                    ctx.count("mv-e2e-%s:%s:%s" % (src, p, mv_relation(s, uvals[k])))

                def judge(point, payload, specs, bound, where, rec):
                    payload = plain(payload)
                    attrs = {k for k in payload if k in uvals}
                    ctx.count("mv-e2e-view:%s:%s" % (where, point))
                    if attrs - bound:
                        ctx.violation("beyond-presented-token-scope", "%s (%s, %s flow) contains %r beyond the bound %r"
                                      % (point, where, rt, sorted(attrs - bound), sorted(bound)), rec)
                    for k in attrs:
                        v = payload[k]
                        if not users_value_ok(v, uvals[k]):
                            ctx.violation("released-not-users-value", "%s released %s=%r, user has %r" % (point, k, v, uvals[k]), rec)
                        if not value_permitted(specs.get(k, [None]), v):
                            ctx.violation("released-value-not-permitted",
                                          "%s (%s, %s flow) shows %s=%r; the specifications that permit %s there are %r: not every value that left is a permitted one"
                                          % (point, where, rt, k, v, k, specs.get(k)), rec)
                        else:
                            ctx.count("mv-e2e-released:%s:%s:%s" % (point, mv_shape(v), "restricted" if all(spec_restricts(s) for s in specs.get(k, [None])) else "unrestricted"))
                    return payload

                def access_token_views(at, how):
                    tscope = list(rs.tokobj[at].scope)
                    gs = list(rs.grants[rs.tok_grant[at]][1].scope)
                    views = {}
                    try:
                        r = ui_ep.process_request(ui_ep.parse_request({}, http_info={"headers": {"authorization": "Bearer " + rs.tokens[at]}}))
                        ra = r.get("response_args", r) if isinstance(r, dict) else r
                        if "error" not in ra:
                            views["userinfo"] = dict(ra)
                    except Exception as e:
                        ctx.count("mv-e2e:userinfo-crash:%s" % type(e).__name__)
                    try:
                        ir = dict(ie.process_request(ie.parse_request(rs._token_req(c, {"token": rs.tokens[at]})))["response_args"])
                        if ir.get("active"):
                            views["introspection"] = ir
                    except Exception as e:
                        ctx.count("mv-e2e:introspection-crash:%s" % type(e).__name__)
                    if jwt:
                        views["access_token"] = jwt_payload(rs.tokens[at])
                    rec = dict(base_rec, how=how, token_scope=tscope, grant_scope=gs,
                               released={k: {a: plain(v[a]) for a in v if a in uvals} for k, v in views.items()})
                    ctx.case_seen(rec, any(rec["released"].values()))
                    for point, payload in views.items():
                        payload = judge(point, payload, release_specs(rs.server, point, c, tscope, req_claims),
                                        release_bound(rs.server, point, c, tscope, req_claims), how, dict(rec, point=point))
                        term = "(%s, %s, %s, (Some %s), %s, %s, %s, %s)" % (
                            coq_release_config(rs.server, point, c), coq_str(point), coq_str(""),
                            coq_list([coq_str(x) for x in tscope], "pystr"), coq_list([coq_str(x) for x in gs], "pystr"),
                            coq_restriction(req_claims.get(point) or {}),
                            coq_list(["(%s, %s)" % (coq_str(k), coq_pyval(v)) for k, v in uv_model.items()], "(pystr * pyval)"),
                            coq_list(["(%s, %s)" % (coq_str(k), coq_pyval(payload[k])) for k in payload if k in uv_model], "(pystr * pyval)"))
                        tok_cases.append((term, dict(rec, point=point)))

                def id_token_view(idt, how, rt_words):
                    payload = jwt_payload(rs.tokens[idt])
                    tscope = list(rs.tokobj[idt].scope)
                    gs = list(rs.grants[rs.tok_grant[idt]][1].scope)
                    alone = rt_words is not None and set(rt_words) == {"id_token"}
                    rec = dict(base_rec, how=how, point="id_token", token_scope=tscope, grant_scope=gs,
                               released={"id_token": {a: payload[a] for a in payload if a in uvals}},
                               id_token_minted_by="authorization endpoint" if rt_words is not None else "token endpoint",
                               release_point=["id_token", "userinfo"] if alone else ["id_token"])
                    ctx.case_seen(rec, bool(rec["released"]["id_token"]))
                    specs = release_specs(rs.server, "id_token", c, tscope, req_claims)
                    if alone:
                        for k, l in release_specs(rs.server, "userinfo", c, tscope, req_claims).items():
                            specs.setdefault(k, []).extend(l)
                        for k in client_userinfo_entries(rs.server, c, tscope):
                            specs.setdefault(k, []).append(None)
                    payload = judge("id_token", payload, specs, authz_idt_bound(rs.server, rt_words if rt_words is not None else ["code"], c, tscope, req_claims),
                                    how, rec)
                    term = "(%s, %s, (Some %s), %s, %s, %s, %s)" % (
                        coq_release_config(rs.server, "id_token", c),
                        coq_list([coq_str(x) for x in (rt_words if rt_words is not None else ["code"])], "pystr"),
                        coq_list([coq_str(x) for x in tscope], "pystr"), coq_list([coq_str(x) for x in gs], "pystr"),
                        coq_restriction(req_claims.get("id_token") or {}),
                        coq_list(["(%s, %s)" % (coq_str(k), coq_pyval(v)) for k, v in uv_model.items()], "(pystr * pyval)"),
                        coq_list(["(%s, %s)" % (coq_str(k), coq_pyval(payload[k])) for k in payload if k in uv_model], "(pystr * pyval)"))
                    idt_cases.append((term, rec))

                ctx.count("mv-e2e:%s" % rt)
                if "id_token" in slots:
                    id_token_view(slots["id_token"], "authorization-response", words)
                if "access_token" in slots:
                    access_token_views(slots["access_token"], "authorization-response")
                if "authorization_code" in slots:
                    rs.run(("tparse", c, ("tok", slots["authorization_code"]), "same"))
                    p0 = rs.run(("proc", len(rs.parsed) - 1, None))
                    if p0[0] != "ok":
                        ctx.count("mv-e2e:%s:code-refused" % rt)
                        continue
                    if p0[1].get("id_token") is not None and p0[1]["id_token"] >= 0:
                        id_token_view(p0[1]["id_token"], "code-redeemed", None)
                    if "access_token" in p0[1]:
                        access_token_views(p0[1]["access_token"], "code-redeemed")
                    if "refresh_token" in p0[1]:
                        r = rs.run(("rparse", c, ("tok", p0[1]["refresh_token"]), None))
                        p1 = rs.run(("proc", len(rs.parsed) - 1, None)) if r[0] == "ok" else r
                        if p1[0] != "ok" or not isinstance(p1[1], dict):
                            ctx.count("mv-e2e:%s:refresh-refused" % rt)
                            continue
                        if p1[1].get("id_token") is not None and p1[1]["id_token"] >= 0:
                            id_token_view(p1[1]["id_token"], "refreshed", None)
                        if "access_token" in p1[1]:
                            access_token_views(p1[1]["access_token"], "refreshed")
        finally:
            rs.close()
    ctx.coq_check_cases(["Lib.Base", "Lib.PyStr", "Model.Claims"], "authz_idt_case", "chk_authz_idt", idt_cases, shard=120, label="mv_authz_idt",
                        diag="diag_authz_idt")
    ctx.coq_check_cases(["Lib.Base", "Lib.PyStr", "Model.Claims"], "release_tok_case", "chk_release_tok", tok_cases, shard=120, label="mv_release_tok",
                        diag="diag_release_tok")


def run(ctx):
    dead_token_release(ctx, ctx.rng, 10 if ctx.quick else 300)
    order_independence(ctx, ctx.rng, 6 if ctx.quick else 24)
    unit_cases(ctx, ctx.rng, 400 if ctx.quick else 12000)
    e2e(ctx, ctx.rng, 3 if ctx.quick else 40)
    exchange_policy(ctx, ctx.rng)
    browser_session_flows(ctx, ctx.rng)
    unit_cases(ctx, ctx.rng, 240 if ctx.quick else 6000, tok=True)
    downscoped_tokens(ctx, ctx.rng, 6 if ctx.quick else 60)
    authz_endpoint_id_tokens(ctx, ctx.rng, 8 if ctx.quick else 80)
    multi_valued_unit(ctx, ctx.rng, 300 if ctx.quick else 8000)
    multi_valued_release_points(ctx, ctx.rng, 6 if ctx.quick else 60)


def replay(ctx, rp):
    run(ctx)
