"""C08 driver — the relying party accepts only valid ID Tokens.

A genuine ID token is minted for every client setting; then the exhaustive single-fault matrix
(rp_c08c09.fault_matrix: each claim removed / altered / retyped, header alg and kid rewritten, re-signed with
foreign, symmetric or public-as-HMAC keys, unsigned, time-window boundaries, hashes, a forged
__verified_id_token parameter) is applied and the result delivered
  * through the message API  (oidc.AuthorizationResponse.verify / oidc.AccessTokenResponse.verify), and
  * through the real client services (StandAloneClient.finalize_auth = Authorization.parse_response +
    post_parse_response + update_service_context; StandAloneClient.get_tokens = AccessToken.parse_response +
    update_service_context) with the state store read back afterwards.
The Gallina model (Model/IdToken.v, Model/RpState.v) is evaluated on the same cases by vm_compute.
The oracle (rp_c08c09.oracle_c08) is an independent validator written from the property text.
"""
import copy
import os

import engine as E
import rp_c08c09 as H

RULE = ("genuine ID token per client setting (expected alg absent/RS256/ES256/HS256/none x registration "
        "static/dynamic x allow-none x skew 0/10 x allow_missing_kid) x delivery (with code / code+token / token / "
        "alone; authorization or token endpoint) x EXHAUSTIVE single-fault matrix (313 faults: every claim "
        "removed/altered/retyped to str,int,list,bool,null,dict,empty; alg none/HS256 with client secret/HS256 with "
        "the RSA public key as secret/foreign keys/other issuer's key/alg mismatch; kid missing/unknown/other; "
        "exp and iat at each window boundary -1/0/+1; wrong/missing/foreign nonce; wrong/missing/swapped c_hash and "
        "at_hash; forged __verified_id_token), then random fault pairs; each case through the message API and "
        "through the real authorization / token services of a StandAloneClient; a case is non-trivial when the "
        "token differs from every other case in (setting, path, delivery, fault)")
ASSUMPTIONS = [
    "JWS signatures and HMACs are ideal (Lib/Crypto.v): a signature verifies only under the key that made it, "
    "for exactly the header and payload it was made for",
    "cryptojwt key selection (KeyJar.get_jwt_verify_keys, JWS.pick_keys) behaves as modelled in Model/IdToken.v "
    "gather_keys / verify_compact (validated on every run by the correspondence)",
    "left_hash (SHA-2) is a function; the theorems are parametric in it",
    "JSON numbers are integers (floats are outside the modelled fragment)",
]


def expected_alg(case, path_kind, variant=None):
    """What the RP is configured to expect (independent of how the code looks it up)."""
    cfg = case["cfg"]
    if path_kind == "msg":
        if cfg["sigalg"] is not None:
            return cfg["sigalg"], "explicit"
        if variant == "allowed_sign_alg":
            return "RS256", "explicit"
        return None, "none"
    if cfg["sigalg"] is not None:
        return cfg["sigalg"], "explicit"
    if cfg["reg"] == "static":
        return "RS256", "default"       # the RP's usage table says id_token_signed_response_alg = RS256
    return None, "none"


def judge(ctx, case, accepted, verified, sent_nonce, path_kind, variant=None, rec=None):
    """Apply the oracle to one delivered token."""
    exp_alg, how = expected_alg(case, path_kind, variant)
    bad = H.oracle_c08(case, exp_alg, sent_nonce)
    rec = rec or {}
    if accepted and bad:
        clause = bad[0]
        tok = case["tok"]
        if clause == "alg-not-the-expected-one" and path_kind == "svc" and case["cfg"]["reg"] == "static":
            sig = "static-registration-sigalg-not-enforced-" + how
        elif clause in ("c_hash", "at_hash") and tok["alg"] == "none":
            sig = "unsigned-idtoken-hash-not-checked"
        elif clause == "nonce" and path_kind == "msg" and tok["claims"].get("nonce") in (None, "", [], [""], [None]):
            sig = "msgapi-nonce-claim-absent-accepted"
        else:
            sig = "accepted-invalid:" + clause
        ctx.violation(sig, "ID token accepted although it violates %s (path %s, fault %s, setting %s, alg %s, "
                           "signer %s, kid %s, delivered %s, claims %s)"
                      % (bad, case["path"], case["fault"], case["cfg"], tok["alg"], tok["signer"], tok["kid"],
                         ("as JWE %s around the JWS" % (tok["wrap"],)) if tok.get("wrap") else "as plain JWS",
                         tok["claims"]), rec)
    if accepted and verified is not None and case["ctx"].get("forged") is not None:
        if verified.get("sub") == "admin":
            ctx.violation("forged-verified-claim-kept", "a __verified_id_token parameter supplied by the sender "
                          "survived verification: %s" % (verified,), rec)
    ctx.count("oracle:" + ("valid" if not bad else "invalid") + ("-accepted" if accepted else "-rejected"))
    return bad


def deliveries(path):
    if path in ("msg_authz", "svc_authz"):
        return ("code", "code+token", "token", "alone")
    return ("alone",)


def run_msg(ctx, clock, settings, faults_by_path, variants, pick=None):
    cases = []
    for path in ("msg_authz", "msg_token"):
        for setting in settings:
            for delivery in deliveries(path):
                for fname, ffn in [("none", None)] + faults_by_path[path]:
                    if pick is not None and not pick(setting, path, delivery, fname):
                        continue
                    for variant in variants(fname):
                        case = H.make_case(path, setting, delivery, fname, ffn)
                        out, term, kw = H.run_msg_case(case, variant, clock)
                        rec = {"path": path, "variant": variant, "setting": setting, "delivery": delivery,
                               "fault": fname, "tok": case["tok"], "ctx": case["ctx"], "out": out}
                        ctx.case_seen(rec, True)
                        ctx.count("path:" + path)
                        ctx.count("out:" + (out[0] if out[0] == "ok" else out[1]))
                        verified = out[1].get("__verified_id_token") if out[0] == "ok" else None
                        accepted = verified is not None
                        if variant in ("full", "no-nonce", "allowed_sign_alg") and not case["ctx"].get("drop_id_token"):
                            judge(ctx, case, accepted, verified, kw.get("nonce"), "msg", variant, rec)
                        if out[0] == "ok" and case["ctx"].get("drop_id_token") and "__verified_id_token" in out[1]:
                            ctx.violation("forged-verified-claim-kept", "__verified_id_token parameter of a response "
                                          "without id_token survived verify(): %s" % (out[1],), rec)
                        if not H.modellable(case["tok"]["claims"]) or (out[0] == "ok" and not H.modellable(out[1])):
                            ctx.unmodelled += 1
                            continue
                        cases.append((term, rec))
    return cases


def run_svc(ctx, clock, settings, faults_by_path, pick):
    traces = []
    for setting in settings:
        world = H.make_world(clock, issuers=(H.ISS,), enc=setting.get("enc"), dec=setting.get("dec", True),
                             **{k: setting[k] for k in ("sigalg", "reg", "allow_none", "skew", "allow_missing_kid")})
        for path in ("svc_authz", "svc_token"):
            for delivery in deliveries(path):
                for fname, ffn in [("none", None)] + faults_by_path[path]:
                    if not pick(setting, path, delivery, fname):
                        continue
                    case = H.make_case(path, setting, delivery, fname, ffn)
                    w, out, st, nonce = H.run_svc_case(world, case)
                    last = w.log[-1]
                    db_before = last["before"][0][1]
                    db_after = last["after"][0][1]
                    map_before, map_after = last["before"][0][2], last["after"][0][2]
                    rec = {"path": path, "setting": setting, "delivery": delivery, "fault": fname,
                           "tok": case["tok"], "ctx": case["ctx"], "out": out, "state": st}
                    ctx.case_seen(rec, True)
                    ctx.count("path:" + path)
                    ctx.count("out:" + (out[0] if out[0] == "ok" else out[1]))
                    stored = db_after.get(st, {}).get("__verified_id_token")
                    returned = out[1].get("__verified_id_token") if out[0] == "ok" else None
                    accepted = (returned is not None) or (stored is not None and stored != db_before.get(st, {}).get("__verified_id_token"))
                    if not case["ctx"].get("drop_id_token"):
                        judge(ctx, case, accepted, returned or stored, nonce, "svc", None, rec)
                    elif out[0] == "ok" and (returned is not None or stored is not None):
                        ctx.violation("forged-verified-claim-kept", "__verified_id_token parameter of a response "
                                      "without id_token was returned/stored: %s" % (returned or stored,), rec)
                    # a token failing any check is never stored
                    if out[0] != "ok" and (db_before != db_after or map_before != map_after):
                        ctx.violation("rejected-but-stored", "the response was refused (%s) but the client state changed: "
                                      "%s -> %s" % (out[1], db_before.get(st), db_after.get(st)), rec)
                    if not w.modellable() or not H.modellable(case["tok"]["claims"]):
                        ctx.unmodelled += 1
                        continue
                    traces.append((w.coq_trace(), rec))
    return traces


def malformed_stream(ctx, clock):
    """Byte-level damage to the compact serialisation (no symbolic counterpart, so no model): truncated /
    re-joined parts, non-JSON header or payload, alg null / missing, JSON-serialised JWS, foreign alphabets,
    white space.  Oracle: nothing that is not a well-formed genuine token is ever returned or stored as verified."""
    import base64
    import json
    world = H.make_world(clock, issuers=(H.ISS,), reg="dynamic", sigalg="RS256", skew=0)

    def b(x):
        return H.b64u(x if isinstance(x, bytes) else json.dumps(x).encode())
    for path in ("svc_authz", "svc_token"):
        for variant in range(44):
            w = H.fresh_world(world)
            clock.now = H.T0
            st, nonce = w.begin(H.ISS, "code id_token" if path == "svc_authz" else "code")
            claims = {"iss": H.ISS, "sub": "diana", "aud": [H.CLIENT_ID], "exp": H.T0 + 300, "iat": H.T0 - 5, "nonce": nonce}
            code = "Co-malformed"
            if path == "svc_authz":
                claims["c_hash"] = H.left_hash_ref(code, 256)
            good = H.mint("RS256", "iss_rsa1", claims, "r1")
            h, p, sg = good.split(".")
            raw = base64.urlsafe_b64decode(sg + "=" * (-len(sg) % 4))
            items = [
                ("genuine", good, True), ("padded-signature", h + "." + p + "." + sg + "=" * (-len(sg) % 4), True),
                ("trailing-space", good + " ", True), ("leading-newline", "\n" + good, True),
                ("not-a-jwt", "abc", False), ("two-parts", h + "." + p, False), ("four-parts", good + ".x", False),
                ("five-parts", good + ".x.y", False), ("empty-signature", h + "." + p + ".", False),
                ("truncated-signature", good[:-4], False), ("signature-of-other-token", h + "." + b(dict(claims, sub="admin")) + "." + sg, False),
                ("header-not-json", b(b"{alg") + "." + p + "." + sg, False), ("payload-not-json", h + "." + b(b"{iss") + "." + sg, False),
                ("payload-a-list", h + "." + b([claims]) + "." + sg, False), ("payload-a-string", h + "." + b("x") + "." + sg, False),
                ("header-a-list", b(["RS256"]) + "." + p + "." + sg, False),
                ("alg-missing", b({"kid": "r1"}) + "." + p + "." + sg, False),
                ("alg-null-unsigned", b({"alg": None}) + "." + p + ".", False),
                ("alg-null-signed", b({"alg": None, "kid": "r1"}) + "." + p + "." + sg, False),
                ("alg-int", b({"alg": 5}) + "." + p + "." + sg, False), ("alg-list", b({"alg": ["RS256"]}) + "." + p + "." + sg, False),
                ("alg-empty", b({"alg": ""}) + "." + p + "." + sg, False),
                ("kid-int", b({"alg": "RS256", "kid": 1}) + "." + p + "." + sg, False),
                ("header-rewritten", b({"alg": "RS256", "kid": "r1", "typ": "JWT"}) + "." + p + "." + sg, False),
                ("payload-reencoded", h + "." + b(json.dumps(claims, indent=1).encode()) + "." + sg, False),
                ("std-b64-signature", h + "." + p + "." + base64.b64encode(raw).decode().rstrip("="), True),
                ("json-serialised-general", json.dumps({"payload": p, "signatures": [{"protected": h, "signature": sg}]}), False),
                ("json-serialised-flattened", json.dumps({"payload": p, "protected": h, "signature": sg}), False),
                ("jwe-looking", ".".join([b({"alg": "RSA-OAEP", "enc": "A128GCM"}), "a", "b", "c", "d"]), False),
                ("id_token-a-dict", dict(claims), False), ("id_token-a-list", [good], False), ("id_token-int", 7, False),
                ("id_token-null", None, False), ("dup-claims", h + "." + b(json.dumps(claims)[:-1].encode() + b', "sub": "admin"}') + "." + sg, False),
                ("unicode-escaped-sub", h + "." + b(json.dumps(claims).replace("diana", "dian\\u0061").encode()) + "." + sg, False),
                ("lower-cased", good.lower(), False), ("signature-bit-flip", h + "." + p + "." + b(bytes([raw[0] ^ 1]) + raw[1:]), False),
                ("jwe-around-bare-claims", H.mint_tok({"alg": "RS256", "signer": "iss_rsa1", "kid": "r1", "claims": claims, "wrap": H.WRAPS[0][1]}).split(".")[0]
                 and __import__("cryptojwt.jwe.jwe", fromlist=["JWE"]).JWE(json.dumps(claims), alg="RSA-OAEP", enc="A256GCM").encrypt(keys=[H.keys()["rp_enc"]]), False),
                ("jwe-truncated", H.mint_tok({"alg": "RS256", "signer": "iss_rsa1", "kid": "r1", "claims": claims, "wrap": H.WRAPS[0][1]})[:-6], False),
                ("nul-byte", good + "\x00", False), ("dot-prefixed", "." + good, False), ("bytes-genuine", good.encode(), True),
            ]
            if variant >= len(items):
                break
            name, tok, may_accept = items[variant]
            before = w.snapshot()
            try:
                if path == "svc_authz":
                    r = w.clients[H.ISS].finalize_auth({"state": st, "code": code, "id_token": tok})
                else:
                    w.clients[H.ISS].finalize_auth({"state": st, "code": code})
                    before = w.snapshot()
                    w.clients[H.ISS].fake_op.script(H.ISS + "/token", {"access_token": "At", "token_type": "Bearer",
                                                                      "id_token": tok.decode() if isinstance(tok, bytes) else tok})
                    r = w.clients[H.ISS].get_tokens(st)
                out = ("ok", r.get("__verified_id_token").to_dict() if r.get("__verified_id_token") is not None else None)
            except Exception as e:      # noqa: BLE001
                out = ("err", H.exc_name(e))
            after = w.snapshot()
            rec = {"path": path, "malformed": name, "out": out}
            ctx.case_seen(rec, True)
            ctx.count("malformed:" + (out[1] if out[0] == "err" else ("accepted" if out[1] else "no-token")))
            stored = after[0][1].get(st, {}).get("__verified_id_token")
            if (out[0] == "ok" and out[1] is not None or stored is not None) and not may_accept:
                ctx.violation("malformed-token-accepted", "a damaged ID token (%s) was returned/stored as verified: %s"
                              % (name, out[1] or stored), rec)
            if out[0] == "ok" and out[1] is not None and out[1].get("sub") != "diana":
                ctx.violation("malformed-token-accepted", "verified claims differ from what the issuer signed (%s): %s"
                              % (name, out[1]), rec)
            if out[0] == "err" and before != after:
                ctx.violation("rejected-but-stored", "refused (%s, %s) but the client state changed" % (name, out[1]), rec)


def encrypted_matrix(rng, faults, quick):
    """The JWE dimension crossed with the fault matrix: a well-formed JWE for the RP's key around every
    signature / algorithm / key / kid fault and a sample of the claim faults; every other JWE variant (foreign
    recipient key, other key-management algorithm, other content encryption) around the genuine JWS and the
    wrong-algorithm tokens; and the genuine JWS delivered plain."""
    out = {}
    for path, fl in faults.items():
        header = [(n, f) for n, f in fl if n.startswith(("alg:", "key:", "kid:", "sig:"))]
        claims = [(n, f) for n, f in fl if is_core(n) and not n.startswith(("alg:", "key:", "kid:", "sig:", "forged", "resp-"))]
        sample = claims if not quick else claims[::4] + rng.sample(claims, 8)
        good = H.WRAPS[0][1]
        rows = [("jwe:good", H.wrapped_fault(good, None))]
        rows += [("jwe:good + " + n, H.wrapped_fault(good, f)) for n, f in header + sample]
        few = [(n, f) for n, f in header if n in ("alg:ES256-iss", "alg:HS256-client-secret", "alg:RS256-iss",
                                                    "alg:none-unsigned", "key:foreign-rsa-same-kid")]
        for wname, w in H.WRAPS[1:]:
            rows.append((wname, H.wrapped_fault(w, None)))
            rows += [(wname + " + " + n, H.wrapped_fault(w, f)) for n, f in few]
        rows += [("plain + " + n, f) for n, f in few]
        out[path] = rows
    return out


def random_pairs(rng, faults, n):
    out = []
    for _ in range(n):
        (a, fa), (b, fb) = rng.sample(faults, 2)

        def both(case, fa=fa, fb=fb):
            fa(case)
            fb(case)
        out.append(("%s + %s" % (a, b), both))
    return out


def count_unmodelled(ctx, imports, ctype, checker, cases, label):
    """How many cases the model itself places outside its fragment (evidence only)."""
    if not cases:
        return
    n = 0
    for i in range(0, len(cases), 400):
        body = "%sDefinition cases : list (%s) := [\n%s\n].\nEval vm_compute in (List.length (bad_indices (%s) cases)).\n" % (
            H.I.prelude([t for t, _ in cases[i:i + 400]]), ctype, ";\n".join(t for t, _ in cases[i:i + 400]), checker)
        rc, out, vals = ctx.coq_eval("%s_unm_%s_%d" % (ctx.prop, label, i), imports, body)
        if rc == 0 and vals:
            try:
                n += int(vals[-1].split()[0].replace("%nat", ""))
            except ValueError:
                pass
    ctx.unmodelled += n
    ctx.count("unmodelled-by-model:" + label, n)


CORE_PREFIXES = ("alg:", "key:", "kid:", "sig:", "exp:boundary", "exp:before", "iat:", "nonce:", "claim-removed:",
                 "c_hash", "at_hash", "hash:", "iss:", "aud:", "azp:", "forged", "token-of", "resp-")


def is_core(fname):
    return fname == "none" or fname.startswith(CORE_PREFIXES)


def only(faults, pred):
    return {p: [(n, f) for n, f in fl if pred(n)] for p, fl in faults.items()}


def run(ctx):
    import logging
    logging.disable(logging.CRITICAL)
    import srv
    os.chdir(os.path.join(E.BUILD, "run"))
    clock = srv.Clock(H.T0).install()
    rng = ctx.rng
    faults = {p: H.fault_matrix(p) for p in H.PATHS}
    core = only(faults, is_core)
    dyn = [s for s in H.SETTINGS if s["reg"] == "dynamic"]
    principal = [s for s in dyn if not s["allow_missing_kid"] and s["skew"] == 0 and not s["allow_none"]]
    coupled = [s for s in H.SETTINGS if (s["skew"] == 0) == (not s["allow_missing_kid"])]

    def full(fname):
        return ("full",)

    def others(fname):
        return ("no-nonce", "no-iss", "no-client_id", "allowed_sign_alg")

    def main_delivery(setting, path, delivery, fname):
        # the whole matrix with the principal delivery; the other deliveries with the faults that depend on it
        if delivery in ("code", "alone"):
            return True
        return fname == "none" or fname.startswith(("alg:none", "c_hash", "at_hash", "hash", "claim-removed:c_hash",
                                                    "claim-removed:at_hash", "claim-retyped:c_hash",
                                                    "claim-retyped:at_hash"))
    msg_cases, traces = [], []
    if ctx.quick:
        header = lambda n: n == "none" or n.startswith(("alg:", "key:", "kid:", "sig:"))  # noqa: E731
        # ---- message API: the whole matrix under the five expected-alg settings, the core matrix under
        #      allow-none / skew 10 / allow_missing_kid, the other kwargs variants on one setting
        msg_cases += run_msg(ctx, clock, principal, faults, full, main_delivery)
        rest = [s for s in coupled if s["reg"] == "dynamic" and s not in principal]
        msg_cases += run_msg(ctx, clock, rest[::2], core, full, main_delivery)
        msg_cases += run_msg(ctx, clock, principal[:1], core, others, main_delivery)
        # ---- service path: the whole matrix under two settings, the core matrix under eight more, the
        #      header faults under every static setting
        def sel(reg, sigalg, an=False, sk=0):
            return [s for s in coupled if s["reg"] == reg and s["sigalg"] == sigalg and s["allow_none"] == an
                    and s["skew"] == sk]
        whole = sel("dynamic", "RS256") + sel("static", None)
        traces += run_svc(ctx, clock, whole, faults, main_delivery)
        mid = (sel("dynamic", None) + sel("dynamic", "ES256") + sel("dynamic", "HS256") + sel("dynamic", "none")
               + sel("dynamic", "RS256", an=True) + sel("dynamic", "RS256", sk=10) + sel("dynamic", None, an=True, sk=10))
        traces += run_svc(ctx, clock, mid, core, main_delivery)
        stat = [s for s in coupled if s["reg"] == "static" and s not in whole and not s["allow_none"] and s["skew"] == 0]
        traces += run_svc(ctx, clock, stat, only(faults, header), main_delivery)
    else:
        everything = lambda s, p, d, f: True  # noqa: E731
        msg_cases += run_msg(ctx, clock, dyn, faults, full, everything)
        msg_cases += run_msg(ctx, clock, principal[:3], faults, others, everything)
        traces += run_svc(ctx, clock, [s for s in coupled if s["reg"] == "dynamic"], faults, everything)
        traces += run_svc(ctx, clock, [s for s in H.SETTINGS if not (s in coupled and s["reg"] == "dynamic")], faults,
                          main_delivery)
    # ---- the ID Token delivered as a JWE around the JWS
    enc_faults = encrypted_matrix(rng, faults, ctx.quick)
    msg_cases += run_msg(ctx, clock, [s for s in H.ENC_SETTINGS if s["reg"] == "dynamic"], enc_faults, full, main_delivery)
    traces += run_svc(ctx, clock, H.ENC_SETTINGS if not ctx.quick else H.ENC_SETTINGS[:1] + H.ENC_SETTINGS[5:], enc_faults,
                      main_delivery)
    # ---- random fault pairs
    npairs = 120 if ctx.quick else 600
    pair_faults = {p: random_pairs(rng, faults[p], npairs) for p in H.PATHS}
    some = [rng.choice(coupled) for _ in range(2 if ctx.quick else 6)]
    msg_cases += run_msg(ctx, clock, [dict(s, reg="dynamic") for s in some], pair_faults, full, main_delivery)
    traces += run_svc(ctx, clock, some[:1] if ctx.quick else some, pair_faults, main_delivery)
    malformed_stream(ctx, clock)
    clock.uninstall()
    H.check_cases(ctx, H.RESP_IMPORTS, H.RESP_TYPE, "chk_resp_case", msg_cases, shard=400, label="msg",
                  diag="run_resp_case")
    H.check_cases(ctx, H.TRACE_IMPORTS, H.TRACE_TYPE, "chk_trace", traces, shard=150, label="svc",
                  diag="first_bad_step")
    if not ctx.quick:   # evidence only: how much of a sample the model itself places outside its fragment
        count_unmodelled(ctx, H.RESP_IMPORTS, H.RESP_TYPE, "unmodelled_resp_case", msg_cases[:1600], "msg")
        count_unmodelled(ctx, H.TRACE_IMPORTS, H.TRACE_TYPE, "chk_modelled", traces[:800], "svc")


def replay(ctx, rp):
    ctx.notes.append("replay re-runs the generator with the recorded seed")
    ctx.rng.seed(rp.get("seed", ctx.seed))
    run(ctx)
