"""C08 driver — the relying party accepts only valid ID Tokens.

A genuine ID token is minted for every client setting; then the exhaustive single-fault matrix
(rp_c08c09.fault_matrix: each claim removed / altered / retyped, header alg and kid rewritten, re-signed with
foreign, symmetric or public-as-HMAC keys, unsigned, time-window boundaries, hashes, a forged
__verified_id_token parameter) is applied and the result delivered
  * through the message API  (oidc.AuthorizationResponse.verify / oidc.AccessTokenResponse.verify), and
  * through the real client services (StandAloneClient.finalize_auth = Authorization.parse_response +
    post_parse_response + update_service_context; StandAloneClient.get_tokens = AccessToken.parse_response +
    update_service_context) with the state store read back afterwards.
The Gallina model (Model/IdToken.v, Model/RpState.v) is evaluated on the same cases by vm_compute.
The oracle (rp_c08c09.oracle_c08) is an independent validator written from the property text.
"""
import copy
import os

import engine as E
import rp_c08c09 as H

RULE = ("genuine ID token per client setting (expected alg absent/RS256/ES256/HS256/none x registration "
        "static/dynamic x allow-none x skew 0/10 x allow_missing_kid) x delivery (with code / code+token / token / "
        "alone; authorization or token endpoint) x EXHAUSTIVE single-fault matrix (313 faults: every claim "
        "removed/altered/retyped to str,int,list,bool,null,dict,empty; alg none/HS256 with client secret/HS256 with "
        "the RSA public key as secret/foreign keys/other issuer's key/alg mismatch; kid missing/unknown/other; "
        "exp and iat at each window boundary -1/0/+1; wrong/missing/foreign nonce; wrong/missing/swapped c_hash and "
        "at_hash; forged __verified_id_token), then random fault pairs; each case through the message API and "
        "through the real authorization / token services of a StandAloneClient; a case is non-trivial when the "
        "token differs from every other case in (setting, path, delivery, fault); then HISTORIES on one RP instance "
        "(the nonce clause depends on what went before: the session record and the key map shared by nonce, sub and sid "
        "bindings): three sessions A, B, C of one client, A and B each in every stage of {pending, authorization response "
        "seen, token response seen, refreshed} x what goes by first (nothing; an individually valid ID Token for B whose "
        "sub is A's nonce / A's state / B's own nonce, by token response, front channel then token response, token then "
        "refresh response, in a third session, A's token with B's nonce as sub; sid = A's nonce; an ordinary subject that "
        "is later presented as nonce; a response member called nonce naming A's nonce in the authorization / token / "
        "refresh / user-info response of B, or in A's own response followed by sub = A's nonce; members sub / state) x "
        "then an ID Token for B carrying A's nonce through every channel (authorization response alone / with the code, "
        "token response, refresh response), then the genuine token responses of A and B; plus random histories of 3-6 "
        "deliveries over 2-3 sessions in random stages with nonce and sub drawn from own / other session's nonce / state "
        "/ subjects seen, now and then an extra member; oracle: an ID Token accepted for a session carries the nonce "
        "that session's own request was sent with (generator ground truth) and passes the single-token validator, "
        "nothing else is ever on record as verified, a refusal stores nothing, and where nothing before concerns the "
        "token the verdict is the verdict of the token alone; the model replays every history and evaluates "
        "C08_nonce_history on it; then RE-USED STATES (the authorization service takes the state from the application: "
        "request_args['state'] / state keyword): a first round under a state of the application's own choosing or a minted "
        "one x response type code / code id_token / id_token x what that round got to {nothing, ID Token alone accepted, code "
        "only, code + ID Token, token response, refresh} x one or two further requests under the SAME state (response type x "
        "API form) x where the new round stands {nothing back, code back, tokens in}; the genuine ID Token of every earlier "
        "round (its nonce, its subject) through every channel (authorization response alone / next to the current code / "
        "next to the earlier code, token response, refresh response), another session's nonce, the earlier nonce presented "
        "for another session; then the current round's own responses; then the replays again; plus random histories mixing "
        "own responses, new requests under running states and ID Tokens with the latest / an earlier / another session's "
        "nonce; oracle: an accepted ID Token carries the nonce of the LATEST request sent under its state (read from the "
        "request URL), a refusal stores nothing, and as long as only a session's own responses were accepted the current "
        "round's genuine token is accepted; the model replays every request as the request that went out (the record is "
        "replaced) and evaluates C08_nonce_history_reused_states on the sequence")
ASSUMPTIONS = [
    "JWS signatures and HMACs are ideal (Lib/Crypto.v): a signature verifies only under the key that made it, "
    "for exactly the header and payload it was made for",
    "cryptojwt key selection (KeyJar.get_jwt_verify_keys, JWS.pick_keys) behaves as modelled in Model/IdToken.v "
    "gather_keys / verify_compact (validated on every run by the correspondence)",
    "left_hash (SHA-2) is a function; the theorems are parametric in it",
    "JSON numbers are integers (floats are outside the modelled fragment)",
    "the states and nonces the relying party draws (rndstr) are fresh: fed to the model as observed; the history "
    "theorem C08_nonce_history assumes it (fresh_history)",
    "re-used states: the nonces drawn by the library / supplied by the application are new to the client's key map "
    "(reuse_history / sound_begin; nothing is assumed about the states); C08_nonce_history_reused_states assumes it",
]


def expected_alg(case, path_kind, variant=None):
    """What the RP is configured to expect (independent of how the code looks it up)."""
    cfg = case["cfg"]
    if path_kind == "msg":
        if cfg["sigalg"] is not None:
            return cfg["sigalg"], "explicit"
        if variant == "allowed_sign_alg":
            return "RS256", "explicit"
        return None, "none"
    if cfg["sigalg"] is not None:
        return cfg["sigalg"], "explicit"
    if cfg["reg"] == "static":
        return "RS256", "default"       # the RP's usage table says id_token_signed_response_alg = RS256
    return None, "none"


def judge(ctx, case, accepted, verified, sent_nonce, path_kind, variant=None, rec=None):
    """Apply the oracle to one delivered token."""
    exp_alg, how = expected_alg(case, path_kind, variant)
    bad = H.oracle_c08(case, exp_alg, sent_nonce)
    rec = rec or {}
    if accepted and bad:
        clause = bad[0]
        tok = case["tok"]
        if clause == "alg-not-the-expected-one" and path_kind == "svc" and case["cfg"]["reg"] == "static":
            sig = "static-registration-sigalg-not-enforced-" + how
        elif clause in ("c_hash", "at_hash") and tok["alg"] == "none":
            sig = "unsigned-idtoken-hash-not-checked"
        elif clause == "nonce" and path_kind == "msg" and tok["claims"].get("nonce") in (None, "", [], [""], [None]):
            sig = "msgapi-nonce-claim-absent-accepted"
        else:
            sig = "accepted-invalid:" + clause
        ctx.violation(sig, "ID token accepted although it violates %s (path %s, fault %s, setting %s, alg %s, "
                           "signer %s, kid %s, delivered %s, claims %s)"
                      % (bad, case["path"], case["fault"], case["cfg"], tok["alg"], tok["signer"], tok["kid"],
                         ("as JWE %s around the JWS" % (tok["wrap"],)) if tok.get("wrap") else "as plain JWS",
                         tok["claims"]), rec)
    if accepted and verified is not None and case["ctx"].get("forged") is not None:
        if verified.get("sub") == "admin":
            ctx.violation("forged-verified-claim-kept", "a __verified_id_token parameter supplied by the sender "
                          "survived verification: %s" % (verified,), rec)
    ctx.count("oracle:" + ("valid" if not bad else "invalid") + ("-accepted" if accepted else "-rejected"))
    return bad


def deliveries(path):
    if path in ("msg_authz", "svc_authz"):
        return ("code", "code+token", "token", "alone")
    return ("alone",)


def run_msg(ctx, clock, settings, faults_by_path, variants, pick=None):
    cases = []
    for path in ("msg_authz", "msg_token"):
        for setting in settings:
            for delivery in deliveries(path):
                for fname, ffn in [("none", None)] + faults_by_path[path]:
                    if pick is not None and not pick(setting, path, delivery, fname):
                        continue
                    for variant in variants(fname):
                        case = H.make_case(path, setting, delivery, fname, ffn)
                        out, term, kw = H.run_msg_case(case, variant, clock)
                        rec = {"path": path, "variant": variant, "setting": setting, "delivery": delivery,
                               "fault": fname, "tok": case["tok"], "ctx": case["ctx"], "out": out}
                        ctx.case_seen(rec, True)
                        ctx.count("path:" + path)
                        ctx.count("out:" + (out[0] if out[0] == "ok" else out[1]))
                        verified = out[1].get("__verified_id_token") if out[0] == "ok" else None
                        accepted = verified is not None
                        if variant in ("full", "no-nonce", "allowed_sign_alg") and not case["ctx"].get("drop_id_token"):
                            judge(ctx, case, accepted, verified, kw.get("nonce"), "msg", variant, rec)
                        if out[0] == "ok" and case["ctx"].get("drop_id_token") and "__verified_id_token" in out[1]:
                            ctx.violation("forged-verified-claim-kept", "__verified_id_token parameter of a response "
                                          "without id_token survived verify(): %s" % (out[1],), rec)
                        if not H.modellable(case["tok"]["claims"]) or (out[0] == "ok" and not H.modellable(out[1])):
                            ctx.unmodelled += 1
                            continue
                        cases.append((term, rec))
    return cases


def run_svc(ctx, clock, settings, faults_by_path, pick):
    traces = []
    for setting in settings:
        world = H.make_world(clock, issuers=(H.ISS,), enc=setting.get("enc"), dec=setting.get("dec", True),
                             **{k: setting[k] for k in ("sigalg", "reg", "allow_none", "skew", "allow_missing_kid")})
        for path in ("svc_authz", "svc_token"):
            for delivery in deliveries(path):
                for fname, ffn in [("none", None)] + faults_by_path[path]:
                    if not pick(setting, path, delivery, fname):
                        continue
                    case = H.make_case(path, setting, delivery, fname, ffn)
                    w, out, st, nonce = H.run_svc_case(world, case)
                    last = w.log[-1]
                    db_before = last["before"][0][1]
                    db_after = last["after"][0][1]
                    map_before, map_after = last["before"][0][2], last["after"][0][2]
                    rec = {"path": path, "setting": setting, "delivery": delivery, "fault": fname,
                           "tok": case["tok"], "ctx": case["ctx"], "out": out, "state": st}
                    ctx.case_seen(rec, True)
                    ctx.count("path:" + path)
                    ctx.count("out:" + (out[0] if out[0] == "ok" else out[1]))
                    stored = db_after.get(st, {}).get("__verified_id_token")
                    returned = out[1].get("__verified_id_token") if out[0] == "ok" else None
                    accepted = (returned is not None) or (stored is not None and stored != db_before.get(st, {}).get("__verified_id_token"))
                    if not case["ctx"].get("drop_id_token"):
                        judge(ctx, case, accepted, returned or stored, nonce, "svc", None, rec)
                    elif out[0] == "ok" and (returned is not None or stored is not None):
                        ctx.violation("forged-verified-claim-kept", "__verified_id_token parameter of a response "
                                      "without id_token was returned/stored: %s" % (returned or stored,), rec)
                    # a token failing any check is never stored
                    if out[0] != "ok" and (db_before != db_after or map_before != map_after):
                        ctx.violation("rejected-but-stored", "the response was refused (%s) but the client state changed: "
                                      "%s -> %s" % (out[1], db_before.get(st), db_after.get(st)), rec)
                    if not w.modellable() or not H.modellable(case["tok"]["claims"]):
                        ctx.unmodelled += 1
                        continue
                    traces.append((w.coq_trace(), rec))
    return traces


def malformed_stream(ctx, clock):
    """Byte-level damage to the compact serialisation (no symbolic counterpart, so no model): truncated /
    re-joined parts, non-JSON header or payload, alg null / missing, JSON-serialised JWS, foreign alphabets,
    white space.  Oracle: nothing that is not a well-formed genuine token is ever returned or stored as verified."""
    import base64
    import json
    world = H.make_world(clock, issuers=(H.ISS,), reg="dynamic", sigalg="RS256", skew=0)

    def b(x):
        return H.b64u(x if isinstance(x, bytes) else json.dumps(x).encode())
    for path in ("svc_authz", "svc_token"):
        for variant in range(44):
            w = H.fresh_world(world)
            clock.now = H.T0
            st, nonce = w.begin(H.ISS, "code id_token" if path == "svc_authz" else "code")
            claims = {"iss": H.ISS, "sub": "diana", "aud": [H.CLIENT_ID], "exp": H.T0 + 300, "iat": H.T0 - 5, "nonce": nonce}
            code = "Co-malformed"
            if path == "svc_authz":
                claims["c_hash"] = H.left_hash_ref(code, 256)
            good = H.mint("RS256", "iss_rsa1", claims, "r1")
            h, p, sg = good.split(".")
            raw = base64.urlsafe_b64decode(sg + "=" * (-len(sg) % 4))
            items = [
                ("genuine", good, True), ("padded-signature", h + "." + p + "." + sg + "=" * (-len(sg) % 4), True),
                ("trailing-space", good + " ", True), ("leading-newline", "\n" + good, True),
                ("not-a-jwt", "abc", False), ("two-parts", h + "." + p, False), ("four-parts", good + ".x", False),
                ("five-parts", good + ".x.y", False), ("empty-signature", h + "." + p + ".", False),
                ("truncated-signature", good[:-4], False), ("signature-of-other-token", h + "." + b(dict(claims, sub="admin")) + "." + sg, False),
                ("header-not-json", b(b"{alg") + "." + p + "." + sg, False), ("payload-not-json", h + "." + b(b"{iss") + "." + sg, False),
                ("payload-a-list", h + "." + b([claims]) + "." + sg, False), ("payload-a-string", h + "." + b("x") + "." + sg, False),
                ("header-a-list", b(["RS256"]) + "." + p + "." + sg, False),
                ("alg-missing", b({"kid": "r1"}) + "." + p + "." + sg, False),
                ("alg-null-unsigned", b({"alg": None}) + "." + p + ".", False),
                ("alg-null-signed", b({"alg": None, "kid": "r1"}) + "." + p + "." + sg, False),
                ("alg-int", b({"alg": 5}) + "." + p + "." + sg, False), ("alg-list", b({"alg": ["RS256"]}) + "." + p + "." + sg, False),
                ("alg-empty", b({"alg": ""}) + "." + p + "." + sg, False),
                ("kid-int", b({"alg": "RS256", "kid": 1}) + "." + p + "." + sg, False),
                ("header-rewritten", b({"alg": "RS256", "kid": "r1", "typ": "JWT"}) + "." + p + "." + sg, False),
                ("payload-reencoded", h + "." + b(json.dumps(claims, indent=1).encode()) + "." + sg, False),
                ("std-b64-signature", h + "." + p + "." + base64.b64encode(raw).decode().rstrip("="), True),
                ("json-serialised-general", json.dumps({"payload": p, "signatures": [{"protected": h, "signature": sg}]}), False),
                ("json-serialised-flattened", json.dumps({"payload": p, "protected": h, "signature": sg}), False),
                ("jwe-looking", ".".join([b({"alg": "RSA-OAEP", "enc": "A128GCM"}), "a", "b", "c", "d"]), False),
                ("id_token-a-dict", dict(claims), False), ("id_token-a-list", [good], False), ("id_token-int", 7, False),
                ("id_token-null", None, False), ("dup-claims", h + "." + b(json.dumps(claims)[:-1].encode() + b', "sub": "admin"}') + "." + sg, False),
                ("unicode-escaped-sub", h + "." + b(json.dumps(claims).replace("diana", "dian\\u0061").encode()) + "." + sg, False),
                ("lower-cased", good.lower(), False), ("signature-bit-flip", h + "." + p + "." + b(bytes([raw[0] ^ 1]) + raw[1:]), False),
                ("jwe-around-bare-claims", H.mint_tok({"alg": "RS256", "signer": "iss_rsa1", "kid": "r1", "claims": claims, "wrap": H.WRAPS[0][1]}).split(".")[0]
                 and __import__("cryptojwt.jwe.jwe", fromlist=["JWE"]).JWE(json.dumps(claims), alg="RSA-OAEP", enc="A256GCM").encrypt(keys=[H.keys()["rp_enc"]]), False),
                ("jwe-truncated", H.mint_tok({"alg": "RS256", "signer": "iss_rsa1", "kid": "r1", "claims": claims, "wrap": H.WRAPS[0][1]})[:-6], False),
                ("nul-byte", good + "\x00", False), ("dot-prefixed", "." + good, False), ("bytes-genuine", good.encode(), True),
            ]
            if variant >= len(items):
                break
            name, tok, may_accept = items[variant]
            before = w.snapshot()
            try:
                if path == "svc_authz":
                    r = w.clients[H.ISS].finalize_auth({"state": st, "code": code, "id_token": tok})
                else:
                    w.clients[H.ISS].finalize_auth({"state": st, "code": code})
                    before = w.snapshot()
                    w.clients[H.ISS].fake_op.script(H.ISS + "/token", {"access_token": "At", "token_type": "Bearer",
                                                                      "id_token": tok.decode() if isinstance(tok, bytes) else tok})
                    r = w.clients[H.ISS].get_tokens(st)
                out = ("ok", r.get("__verified_id_token").to_dict() if r.get("__verified_id_token") is not None else None)
            except Exception as e:      # noqa: BLE001
                out = ("err", H.exc_name(e))
            after = w.snapshot()
            rec = {"path": path, "malformed": name, "out": out}
            ctx.case_seen(rec, True)
            ctx.count("malformed:" + (out[1] if out[0] == "err" else ("accepted" if out[1] else "no-token")))
            stored = after[0][1].get(st, {}).get("__verified_id_token")
            if (out[0] == "ok" and out[1] is not None or stored is not None) and not may_accept:
                ctx.violation("malformed-token-accepted", "a damaged ID token (%s) was returned/stored as verified: %s"
                              % (name, out[1] or stored), rec)
            if out[0] == "ok" and out[1] is not None and out[1].get("sub") != "diana":
                ctx.violation("malformed-token-accepted", "verified claims differ from what the issuer signed (%s): %s"
                              % (name, out[1]), rec)
            if out[0] == "err" and before != after:
                ctx.violation("rejected-but-stored", "refused (%s, %s) but the client state changed" % (name, out[1]), rec)


# ====================================================================================================
# Histories: the nonce clause of C08 ("carries the nonce that was sent") is the one clause whose verdict
# depends on what the relying party has done BEFORE: the nonce a session sent lives in the session's record
# and in the key map the record store shares between nonce -> state, sub -> state and sid -> state bindings.
# One RP instance, 2-3 sessions in different stages, sequences of 2-4 ID Tokens: earlier, individually valid
# deliveries whose bound values (sub, sid) or extra members equal another session's nonce / state, then an ID
# Token for session B that carries session A's nonce, through every channel that takes an ID Token.
# Ground truth is the generator's: the nonce each session's own authorization request carried.
# ====================================================================================================
H_SETTING = dict(sigalg="RS256", reg="dynamic", allow_none=False, skew=0, allow_missing_kid=False)
STAGES = ("P", "Z", "T", "R")      # pending / authorization response seen / token response seen / refreshed


class Sn:
    """a session of the relying party, as the generator knows it"""

    def __init__(self, n, state, nonce, user):
        self.n, self.state, self.nonce, self.user = n, state, nonce, user
        self.code, self.at, self.rtok = "Co-h%d" % n, "At-h%d" % n, "Rt-h%d" % n
        self.stage = "P"
        self.sub = None            # subject of the ID Token the RP last accepted for this session
        self.gen = 0
        self.round = 1             # authorization requests sent under this state so far
        self.earlier = []          # the rounds before the current one: dict(nonce, code, at, rtok, sub, stage)


def h_tok(nonce, sub, code=None, extra=None):
    claims = {"iss": H.ISS, "sub": sub, "aud": [H.CLIENT_ID], "exp": H.T0 + 300, "iat": H.T0 - 5}
    if nonce is not None:
        claims["nonce"] = nonce
    if code is not None:
        claims["c_hash"] = H.left_hash_ref(code, 256)
    if extra:
        claims.update(extra)
    return {"alg": "RS256", "kid": "r1", "signer": "iss_rsa1", "sigfault": None, "claims": claims}


class Hist:
    """one history on one world: delivers, keeps the generator's ground truth, judges every delivery"""

    def __init__(self, ctx, world, family, setting=H_SETTING):
        self.ctx, self.w, self.family, self.setting = ctx, H.fresh_world(world), family, setting
        self.w.clock.now = H.T0
        self.sessions = []
        self.events = []           # what was delivered, with the verdicts of the oracle
        self.verdicts = []         # (signature, text) - reported once the whole trace is on record
        self.quiet = True          # no earlier delivery carried a value of another session / a foreign member
        self.strict = False        # (re-used-state families) the current round's genuine token must be accepted
        self.clean = True          # nothing but stage / control deliveries has been accepted so far

    def begin(self, user):
        st, nonce = self.w.begin(H.ISS, "code id_token")
        s = Sn(len(self.sessions), st, nonce, user)
        self.sessions.append(s)
        return s

    # ---- an authorization request built through the authorization SERVICE (Service.get_request_parameters), the
    #      API that lets the application choose the state: request_args["state"] or the state keyword argument.
    #      What the model is told is the request THAT WENT OUT (parsed back from the URL), never the record.
    def service_request(self, state, response_type, via):
        from urllib.parse import urlsplit
        w = self.w
        before = w.snapshot()
        srv_ = w.clients[H.ISS].get_service("authorization")
        args = {"response_type": response_type}
        if response_type == "code id_token":
            # for a hybrid response type the service draws no nonce of its own: the application supplies one
            self.app_nonces = getattr(self, "app_nonces", 0) + 1
            args["nonce"] = "app-nonce-%d-%s" % (self.app_nonces, state[:6])
        if via == "args":
            args["state"] = state
            info = srv_.get_request_parameters(request_args=args)
        else:
            info = srv_.get_request_parameters(request_args=args, state=state)
        sent = srv_.msg_type().from_urlencoded(urlsplit(info["url"]).query).to_dict()
        nonce = sent.get("nonce")
        op = "(OBegin %s %s %s %s)" % (H.coq_str(H.ISS), H.coq_str(state), H.coq_str(nonce), H.coq_dict(sent))
        w.flows.append({"issuer": H.ISS, "state": state, "nonce": nonce})
        w._record(op, "begin", {"issuer": H.ISS, "state": state, "nonce": nonce, "via": via, "request": sent},
                  ("ok", {}), before)
        if sent.get("state") != state:
            self.verdicts.append(("reuse-request-under-other-state", "the application asked for a request under state %r, "
                                  "the request that went out names %r" % (state, sent.get("state"))))
        return nonce

    def _begin_event(self, s, response_type, via):
        self.events.append({"session": s.n, "channel": "begin", "role": "begin", "members": {}, "out": "ok", "claims": None,
                            "accepted": False, "accepted_response": False, "state": s.state, "round": s.round,
                            "nonce_sent": s.nonce, "response_type": response_type, "via": via})

    def begin_app(self, user, state, response_type="code", via="args"):
        """first request under a state value of the application's own choosing"""
        nonce = self.service_request(state, response_type, via)
        s = Sn(len(self.sessions), state, nonce, user)
        self.sessions.append(s)
        self._begin_event(s, response_type, via)
        return s

    def rebegin(self, s, response_type="code", via="args"):
        """a further request under the state of session s (re-authentication of a running session, a retry): from
        now on the nonce that was sent for this state is the nonce of THIS request"""
        has_record = s.state in self.w.snapshot()[0][1]
        nonce = self.service_request(s.state, response_type, via)
        s.earlier.append({"nonce": s.nonce, "code": s.code, "at": s.at, "rtok": s.rtok, "sub": s.sub, "stage": s.stage})
        s.round += 1
        s.nonce, s.stage = nonce, "P"
        s.code, s.at, s.rtok = "Co-h%d-r%d" % (s.n, s.round), "At-h%d-r%d" % (s.n, s.round), "Rt-h%d-r%d" % (s.n, s.round)
        self.reused = getattr(self, "reused", 0) + (1 if has_record else 0)
        self.ctx.count("reuse:begin-under-" + ("state-with-record" if has_record else "state-without-record"))
        self._begin_event(s, response_type, via)
        return s

    # ---- one delivery: the response of `channel` for session s, with an ID Token (nonce, sub) or without one
    def deliver(self, s, channel, nonce="own", sub=None, members=None, with_code=True, claims=None, role="step",
                use_code=None):
        w = self.w
        sub = sub if sub is not None else (s.sub or s.user)
        nonce = s.nonce if nonce == "own" else nonce
        members = dict(members or {})
        tok, code = None, None
        if channel == "authz" and "state" in members:
            # the state parameter of an authorization response IS its addressing: the response is one for the
            # session it names
            s = next((x for x in self.sessions if x.state == members["state"]), s)
            del members["state"]
        if channel == "authz":
            params = {"state": s.state}
            if with_code:
                params["code"] = code = use_code or s.code
            if nonce is not False:
                tok = h_tok(nonce, sub, code, claims)
            params.update(members)
            out = w.authz(H.ISS, params, tok)
        elif channel == "token":
            params = {"access_token": s.at, "token_type": "Bearer", "expires_in": 600, "refresh_token": s.rtok}
            if nonce is not False:
                tok = h_tok(nonce, sub, None, claims)
            params.update(members)
            out = w.token(H.ISS, s.state, params, tok)
        elif channel == "refresh":
            s.gen += 1
            params = {"access_token": "%s-r%d" % (s.at, s.gen), "token_type": "Bearer", "expires_in": 600}
            if nonce is not False:
                tok = h_tok(nonce, sub, None, claims)
            params.update(members)
            out = w.refresh(H.ISS, s.state, params, tok)
        elif channel == "userinfo":
            params = {"sub": sub, "name": "N"}
            params.update(members)
            out = w.userinfo(H.ISS, s.state, params)
        else:
            raise ValueError(channel)
        self.judge(s, channel, tok, code, members, out, role)
        return out

    # ---- the oracle (property text + generator ground truth; no look at the library's stores beyond the
    #      `__verified_id_token` the property itself names)
    def judge(self, s, channel, tok, code, members, out, role):
        ctx, last = self.ctx, self.w.log[-1]
        ok = out[0] == "ok" and not (isinstance(out[1], dict) and "error" in out[1])
        db_before, db_after = last["before"][0][1], last["after"][0][1]
        returned = out[1].get("__verified_id_token") if ok else None
        stored, was = db_after.get(s.state, {}).get("__verified_id_token"), db_before.get(s.state, {}).get("__verified_id_token")
        accepted = tok is not None and (returned is not None or (stored is not None and stored != was))
        ev = {"session": s.n, "channel": channel, "role": role, "members": members,
              "out": "ok" if ok else (out[1] if isinstance(out[1], str) else "error-response"),
              "claims": None if tok is None else tok["claims"], "accepted": accepted}
        nonces = {x.nonce: x for x in self.sessions}
        if tok is not None:
            case = {"path": "svc_authz" if channel == "authz" else "svc_token", "cfg": self.setting, "now": self.w.clock.now,
                    "ctx": {"code": code, "access_token": None}, "tok": tok, "fault": role}
            # an ID Token in a REFRESH response need not repeat the nonce (OpenID Connect Core 12.2: it should not have
            # one; when it has one it is the nonce of the original authentication request, i.e. the one sent)
            no_nonce_refresh = channel == "refresh" and "nonce" not in tok["claims"]
            bad = H.oracle_c08(case, "RS256", None if no_nonce_refresh else s.nonce)
            ev["violates"] = bad
            ctx.count("history:%s:%s-%s" % (channel, "valid" if not bad else "invalid", "accepted" if accepted else "rejected"))
            if accepted and bad:
                n = tok["claims"].get("nonce")
                if bad == ["nonce"]:
                    earlier = [e for e in self.events if e["accepted_response"]]
                    owner = nonces.get(n)
                    if any("nonce" in e["members"] and e["session"] in (s.n, None if owner is None else owner.n) for e in earlier):
                        # an earlier accepted RESPONSE (for this session, or for the one whose nonce it is) had a
                        # member called nonce
                        sig = "history-foreign-nonce-accepted:nonce-member-overwrote-record"
                    elif owner is None and any(e["session"] == s.n and e["claims"] and e["accepted"] and
                                               n in (e["claims"].get("sub"), e["claims"].get("sid")) for e in earlier):
                        # not the nonce of any session: the subject / session id of an ID Token this session got before
                        sig = "history-foreign-nonce-accepted:nonce-is-bound-subject"
                    elif owner is None and any(n == r["nonce"] for r in s.earlier):
                        # the nonce of an EARLIER request under this very state (a replayed ID Token of that round)
                        sig = "history-foreign-nonce-accepted:nonce-of-earlier-request-under-this-state"
                    elif owner is not None:
                        sig = "history-foreign-nonce-accepted:nonce-of-other-session"
                    else:
                        sig = "history-foreign-nonce-accepted"
                else:
                    sig = "history-accepted-invalid:" + bad[0]
                self.verdicts.append((sig, "ID Token accepted for session %d (%s response) although it violates %s: its nonce is %r, "
                                      "the nonce sent in that session's request is %r%s; claims %s"
                                      % (s.n, channel, bad, n, s.nonce,
                                         "" if n not in nonces else " (it is the nonce of session %d)" % nonces[n].n, tok["claims"])))
            # where the history is irrelevant the verdict is the verdict of the token alone (the single-fault matrix
            # above says: a valid token is accepted, an invalid one refused)
            ready = {"authz": "P", "token": "Z", "refresh": "T"}[channel]
            if self.quiet and role in ("stage", "control") and not bad and not accepted and STAGES.index(s.stage) >= STAGES.index(ready):
                self.verdicts.append(("history-irrelevant-verdict-differs", "a valid ID Token for session %d (%s response, own nonce, "
                                      "ordinary subject) was refused (%s) although nothing before it in this history concerns "
                                      "its nonce or subject" % (s.n, channel, out[1])))
            # re-used states: refused deliveries store nothing (checked below), so as long as nothing but the sessions'
            # own genuine responses has been accepted, the genuine ID Token of the CURRENT round (the nonce that was sent
            # with the latest request under the state, ordinary subject) is accepted once the session is ready for it
            if (self.strict and self.clean and role in ("stage", "control") and not bad and not accepted
                    and STAGES.index(s.stage) >= STAGES.index(ready)):
                self.verdicts.append(("reuse-current-round-token-refused", "the genuine ID Token of the current round of session "
                                      "%d (%s response, nonce %r = the nonce sent with request %d under state %r) was refused (%s); "
                                      "earlier rounds under this state sent %s"
                                      % (s.n, channel, s.nonce, s.round, s.state, out[1], [r["nonce"] for r in s.earlier])))
            if not bad and not accepted:
                ctx.count("history:valid-token-refused:" + role)
        # never stored as verified: whatever the stores hold as the verified ID Token of a session carries the
        # nonce that session sent
        for x in self.sessions:
            vid = db_after.get(x.state, {}).get("__verified_id_token")
            if isinstance(vid, dict) and vid.get("nonce") != x.nonce and vid != db_before.get(x.state, {}).get("__verified_id_token"):
                if not (accepted and x is s):      # (already reported above as accepted)
                    self.verdicts.append(("history-foreign-nonce-stored", "after the %s response for session %d the verified ID "
                                          "Token on record for session %d has nonce %r (sent: %r)"
                                          % (channel, s.n, x.n, vid.get("nonce"), x.nonce)))
        # a refused delivery stores nothing
        if not ok and (last["before"] != last["after"]):
            self.verdicts.append(("rejected-but-stored", "the %s response for session %d was refused (%s) but the client state changed"
                                  % (channel, s.n, out[1])))
        ev["accepted_response"] = ok
        self.events.append(ev)
        if ok and role not in ("stage", "control"):
            self.clean = False
        if ok and tok is not None and accepted:
            s.sub = tok["claims"].get("sub")
        if ok and channel != "userinfo":      # what the session now has on record (a code, tokens, refreshed tokens)
            reached = {"authz": "Z" if code is not None else "P", "token": "T", "refresh": "R"}[channel]
            if STAGES.index(reached) > STAGES.index(s.stage):
                s.stage = reached
        # from here on the history is no longer irrelevant: a value of another session / an extra member went by
        vals = set(members.values()) | ({tok["claims"].get("sub"), tok["claims"].get("sid")} if tok is not None else set())
        known = {x.nonce for x in self.sessions} | {x.state for x in self.sessions}
        if members or (vals & known) or (tok is not None and tok["claims"].get("nonce") != s.nonce) or role == "prime":
            self.quiet = False

    # ---- bring a session to a stage with its own genuine responses
    def advance(self, s, stage):
        order = STAGES.index
        if order(stage) >= 1 and order(s.stage) < 1:
            self.deliver(s, "authz", role="stage")
        if order(stage) >= 2 and order(s.stage) < 2:
            self.deliver(s, "token", role="stage")
        if order(stage) >= 3 and order(s.stage) < 3:
            self.deliver(s, "refresh", role="stage")

    def finish(self, traces):
        rec = {"family": self.family, "sessions": [(s.n, s.state, s.nonce, s.user, s.stage) for s in self.sessions],
               "events": self.events}
        if any(s.earlier for s in self.sessions):
            rec["earlier_rounds"] = [(s.n, [r["nonce"] for r in s.earlier]) for s in self.sessions if s.earlier]
        outs = [e["out"] for e in self.events]
        self.ctx.case_seen(rec, nontrivial=len(self.sessions) >= 2 and "ok" in outs and any(o != "ok" for o in outs))
        self.ctx.count("path:history")
        for sig, text in self.verdicts:
            self.ctx.violation(sig, "%s [history %s]" % (text, self.family), rec)
        if self.w.modellable():
            traces.append((self.w.coq_trace(), rec))
        else:
            self.ctx.unmodelled += 1


def h_probes(h, target, foreign, tag):
    """ID Tokens for `target` that carry the nonce `foreign` (never sent in target's request), through every channel
    that takes an ID Token: authorization response (ID Token alone / with the session's code), token response,
    refresh response.  The subject is the one the session has on record (so that nothing but the nonce is wrong)."""
    h.deliver(target, "authz", nonce=foreign, with_code=False, role="probe:" + tag)
    h.deliver(target, "authz", nonce=foreign, with_code=True, role="probe:" + tag)
    h.deliver(target, "token", nonce=foreign, role="probe:" + tag)
    h.deliver(target, "refresh", nonce=foreign, role="probe:" + tag)


# what goes by before the probes; A = sessions[0] (whose nonce is carried over), B = sessions[1], C = sessions[2]
def _prime_none(h, A, B, C):
    return [(B, A.nonce)]


def _prime_sub_token(value):
    def f(h, A, B, C):
        h.deliver(B, "token", sub=value(A, B), role="prime")
        return [(B, A.nonce)]
    return f


def _prime_sub_front_then_token(h, A, B, C):
    h.deliver(B, "authz", sub=A.nonce, role="prime")
    h.deliver(B, "token", sub=A.nonce, role="prime")
    return [(B, A.nonce)]


def _prime_sub_token_then_refresh(h, A, B, C):
    h.deliver(B, "token", sub=A.nonce, role="prime")
    h.deliver(B, "refresh", sub=A.nonce, role="prime")
    return [(B, A.nonce)]


def _prime_sub_in_third(h, A, B, C):
    h.advance(C, "Z")
    h.deliver(C, "token", sub=A.nonce, role="prime")
    return [(C, A.nonce), (B, A.nonce)]


def _prime_reverse(h, A, B, C):
    h.deliver(A, "token", sub=B.nonce, role="prime")
    return [(A, B.nonce), (B, A.nonce)]


def _prime_member(channel, name, value, then_sub=False, carrier="B"):
    def f(h, A, B, C):
        s = {"A": A, "B": B}[carrier]
        kw = {"nonce": False} if channel == "authz" else {}
        h.deliver(s, channel, members={name: value(A, B)}, role="prime", **kw)
        if then_sub:
            h.deliver(B, "token", sub=A.nonce, role="prime")
        return [(B, A.nonce)]
    return f


def _prime_bound_subject(h, A, B, C):
    h.deliver(B, "token", sub="erin", role="prime")
    return [(B, "erin"), (B, A.nonce)]


def _prime_sid_claim(h, A, B, C):
    h.deliver(B, "token", claims={"sid": A.nonce}, role="prime")
    return [(B, A.nonce)]


H_PRIMES = [
    ("none", _prime_none),
    ("sub=nonce-of-A:token", _prime_sub_token(lambda A, B: A.nonce)),
    ("sub=state-of-A:token", _prime_sub_token(lambda A, B: A.state)),
    ("sub=own-nonce:token", _prime_sub_token(lambda A, B: B.nonce)),
    ("sub=nonce-of-A:front-then-token", _prime_sub_front_then_token),
    ("sub=nonce-of-A:token-then-refresh", _prime_sub_token_then_refresh),
    ("sub=nonce-of-A:third-session", _prime_sub_in_third),
    ("sub=nonce-of-B:in-A", _prime_reverse),
    ("sid=nonce-of-A:token", _prime_sid_claim),
    ("nonce-is-earlier-subject", _prime_bound_subject),
    ("member-nonce=nonce-of-A:authz", _prime_member("authz", "nonce", lambda A, B: A.nonce)),
    ("member-nonce=nonce-of-A:token", _prime_member("token", "nonce", lambda A, B: A.nonce)),
    ("member-nonce=nonce-of-A:refresh", _prime_member("refresh", "nonce", lambda A, B: A.nonce)),
    ("member-nonce=nonce-of-A:userinfo", _prime_member("userinfo", "nonce", lambda A, B: A.nonce)),
    ("member-nonce-in-A-then-sub=nonce-of-A", _prime_member("authz", "nonce", lambda A, B: "zzz", then_sub=True, carrier="A")),
    ("member-sub=nonce-of-A:token", _prime_member("token", "sub", lambda A, B: A.nonce)),
    ("member-state=state-of-A:token", _prime_member("token", "state", lambda A, B: A.state)),
]


def history_matrix(ctx, world, traces, quick):
    """stage of A x stage of B x what went by before x the foreign-nonce ID Token through every channel, then the
    genuine responses of both sessions (each is still its own)."""
    for sa in STAGES:
        for sb in STAGES:
            for pname, prime in H_PRIMES:
                if quick and pname.startswith("member-") and "nonce" not in pname and (sa, sb) not in (("T", "Z"), ("Z", "T")):
                    continue
                h = Hist(ctx, world, "matrix:A=%s,B=%s:%s" % (sa, sb, pname))
                A, B, C = h.begin("diana"), h.begin("bob"), h.begin("carol")
                h.advance(A, sa)
                h.advance(B, sb)
                for target, foreign in prime(h, A, B, C):
                    h_probes(h, target, foreign, pname)
                # afterwards every session is served its own genuine token response (subject as on record)
                for s in (A, B):
                    h.deliver(s, "token", role="control")
                h.finish(traces)


def random_token_history(ctx, world, rng, traces):
    """2-3 sessions brought to random stages, then 3-6 deliveries of random channel for random sessions whose ID
    Token takes its nonce and its subject from {own, another session's nonce, another session's state, a subject seen
    before, an ordinary name}, now and then with an extra member called nonce / sub / sid / state."""
    h = Hist(ctx, world, "random")
    k = rng.randint(2, 3)
    ss = [h.begin(u) for u in ("diana", "bob", "carol")[:k]]
    for s in ss:
        h.advance(s, rng.choice(STAGES))
    for _ in range(rng.randint(3, 6)):
        s = rng.choice(ss)
        o = rng.choice([x for x in ss if x is not s])
        channel = rng.choice(["authz", "authz", "token", "token", "token", "refresh", "refresh", "userinfo"])
        r = rng.random()
        nonce = "own" if r < 0.5 else o.nonce if r < 0.8 else rng.choice([o.state, s.sub or "erin", o.sub or o.user, None])
        r = rng.random()
        sub = None if r < 0.45 else o.nonce if r < 0.7 else rng.choice([s.nonce, o.state, s.state, o.user, "erin"])
        members = {}
        if rng.random() < 0.25:
            m = rng.choice(["nonce", "nonce", "sub", "sid", "state"])
            members[m] = rng.choice([o.nonce, s.nonce, o.state, "zzz"])
        kw = {}
        if channel == "authz":
            kw["with_code"] = rng.random() < 0.6
            if rng.random() < 0.25:
                nonce = False
        role = "control" if (nonce == "own" and sub is None and not members) else "random"
        h.deliver(s, channel, nonce=nonce, sub=sub, members=members, role=role, **kw)
    h.finish(traces)


# ====================================================================================================
# Re-used states.  In every history above a request is begun under a state value the library has just minted
# (StandAloneClient.init_authorization / RPHandler.begin always do).  The authorization SERVICE takes the state from
# the application (request_args["state"] / the state keyword argument): a second, third ... request may be begun
# under a state that already has a session record (re-authentication of a running session, a retry after a failed
# or abandoned round).  "The nonce that was sent" for that state is then the nonce of the LATEST request under it:
# the genuine ID Token of an earlier round - whatever that round got to before the new request - is a replay and
# must be refused through every channel; the ID Token of the current round is accepted.
# ====================================================================================================
R_TYPES = ("code", "code id_token", "id_token")
# what the earlier round under the state got to before the next request is begun
R_STAGES = ("P",       # nothing came back
            "I",       # its ID Token was accepted at the authorization endpoint, alone (implicit)
            "C",       # a code came back, no ID Token (code flow)
            "Z",       # code and ID Token came back (hybrid)
            "T",       # ... and the token response with its ID Token was processed
            "R")       # ... and a refresh response with an ID Token


def r_advance(h, s, stage):
    if stage == "I":
        h.deliver(s, "authz", with_code=False, role="stage")
    elif stage == "C":
        h.deliver(s, "authz", nonce=False, role="stage")
    elif stage != "P":
        h.advance(s, stage)


def r_replays(h, s, tag, other=None):
    """the genuine ID Token of every earlier round under the state of s (its nonce, the subject that round had),
    through every channel that takes an ID Token: authorization response (alone / next to the current code / the whole
    earlier response, i.e. next to the earlier round's code), token response, refresh response; then, when there is
    another session, that session's nonce, and the earlier nonce of s presented for the other session"""
    for r in s.earlier:
        sub = r["sub"] or s.user
        h.deliver(s, "authz", nonce=r["nonce"], sub=sub, with_code=False, role="probe:" + tag)
        h.deliver(s, "authz", nonce=r["nonce"], sub=sub, with_code=True, role="probe:" + tag)
        h.deliver(s, "authz", nonce=r["nonce"], sub=sub, with_code=True, use_code=r["code"], role="probe:" + tag)
        h.deliver(s, "token", nonce=r["nonce"], sub=sub, role="probe:" + tag)
        h.deliver(s, "refresh", nonce=r["nonce"], sub=sub, role="probe:" + tag)
    if other is not None:
        h.deliver(s, "token", nonce=other.nonce, role="probe:" + tag)
        for r in s.earlier:
            h.deliver(other, "token", nonce=r["nonce"], role="probe:" + tag)


def reuse_matrix(ctx, world, traces, quick):
    """how the first state came about (the application's own value / minted by the library) x response type of the
    first round x what the first round got to x response type and API form of the next request under the same state x
    where the new round stands when the replays arrive (nothing back yet / its code is back / its tokens are in) x
    one or two earlier rounds; replays of every earlier round's genuine ID Token through every channel, then the
    current round's own responses (accepted), then the replays once more against the completed round, and the other
    session's own token response."""
    k = 0
    for origin in ("app", "lib"):
        for rt1 in R_TYPES:
            for st1 in R_STAGES:
                for now in ("P", "C", "T"):
                    combos = [(rt2, via, rounds) for rt2 in R_TYPES for via in ("args", "kwarg") for rounds in (2, 3)]
                    if quick:
                        combos = [combos[(k * 5 + 1) % len(combos)]]
                    for rt2, via, rounds in combos:
                        k += 1
                        h = Hist(ctx, world, "reuse:%s,first=%s@%s,next=%s/%s,rounds=%d,now=%s"
                                 % (origin, rt1, st1, rt2, via, rounds, now))
                        h.strict = True
                        B = h.begin("bob")
                        if origin == "app":
                            A = h.begin_app("diana", "app-session-%d" % k, rt1, via)
                        else:
                            A = h.begin("diana")
                        h.advance(B, "Z")
                        r_advance(h, A, st1)
                        for n in range(2, rounds + 1):
                            h.rebegin(A, rt2 if n == rounds else rt1, via)
                            if n < rounds:      # the round in between gets as far as the first one did
                                r_advance(h, A, st1)
                        r_advance(h, A, now)
                        r_replays(h, A, "replay", B)
                        # the current round completes with its own responses ...
                        h.deliver(A, "authz", role="control")
                        h.deliver(A, "token", role="control")
                        h.deliver(A, "refresh", role="control")
                        # ... the replays are as unacceptable for the completed round ...
                        r_replays(h, A, "replay-after")
                        # ... and the other session is still its own
                        h.deliver(B, "token", role="control")
                        h.finish(traces)


def random_reuse_history(ctx, world, rng, traces):
    """2-3 sessions (states of the application's choosing or minted), 5-9 steps: a session's own next response, a new
    request under the state of a running session, or an ID Token whose nonce is drawn from {the nonce of the latest
    request under the state, the nonce of an earlier request under it, another session's latest / earlier nonce}."""
    h = Hist(ctx, world, "reuse-random")
    h.strict = True
    ss = []
    for i, u in enumerate(("diana", "bob", "carol")[:rng.randint(2, 3)]):
        if rng.random() < 0.5:
            ss.append(h.begin_app(u, "app-%s-%d" % (u, rng.randint(0, 99)), rng.choice(R_TYPES), rng.choice(("args", "kwarg"))))
        else:
            ss.append(h.begin(u))
    first = rng.choice(ss)
    r_advance(h, first, rng.choice(R_STAGES))
    h.rebegin(first, rng.choice(R_TYPES), rng.choice(("args", "kwarg")))
    for _ in range(rng.randint(5, 9)):
        s = rng.choice(ss)
        o = rng.choice([x for x in ss if x is not s])
        r = rng.random()
        if r < 0.2:
            h.rebegin(s, rng.choice(R_TYPES), rng.choice(("args", "kwarg")))
            continue
        if r < 0.45:
            r_advance(h, s, rng.choice(R_STAGES[1:]))
            continue
        channel = rng.choice(["authz", "authz", "token", "token", "refresh"])
        pool = [("own", None)] + [(x["nonce"], x["sub"]) for x in s.earlier] * 3 + [(o.nonce, None)] + \
               [(x["nonce"], x["sub"]) for x in o.earlier]
        nonce, sub = rng.choice(pool)
        kw = {}
        if channel == "authz":
            kw["with_code"] = rng.random() < 0.6
            if kw["with_code"] and s.earlier and rng.random() < 0.4:
                kw["use_code"] = rng.choice(s.earlier)["code"]
        h.deliver(s, channel, nonce=nonce, sub=sub, role="control" if nonce == "own" and not kw.get("use_code") else "random", **kw)
    h.finish(traces)


def encrypted_matrix(rng, faults, quick):
    """The JWE dimension crossed with the fault matrix: a well-formed JWE for the RP's key around every
    signature / algorithm / key / kid fault and a sample of the claim faults; every other JWE variant (foreign
    recipient key, other key-management algorithm, other content encryption) around the genuine JWS and the
    wrong-algorithm tokens; and the genuine JWS delivered plain."""
    out = {}
    for path, fl in faults.items():
        header = [(n, f) for n, f in fl if n.startswith(("alg:", "key:", "kid:", "sig:"))]
        claims = [(n, f) for n, f in fl if is_core(n) and not n.startswith(("alg:", "key:", "kid:", "sig:", "forged", "resp-"))]
        sample = claims if not quick else claims[::4] + rng.sample(claims, 8)
        good = H.WRAPS[0][1]
        rows = [("jwe:good", H.wrapped_fault(good, None))]
        rows += [("jwe:good + " + n, H.wrapped_fault(good, f)) for n, f in header + sample]
        few = [(n, f) for n, f in header if n in ("alg:ES256-iss", "alg:HS256-client-secret", "alg:RS256-iss",
                                                    "alg:none-unsigned", "key:foreign-rsa-same-kid")]
        for wname, w in H.WRAPS[1:]:
            rows.append((wname, H.wrapped_fault(w, None)))
            rows += [(wname + " + " + n, H.wrapped_fault(w, f)) for n, f in few]
        rows += [("plain + " + n, f) for n, f in few]
        out[path] = rows
    return out


def random_pairs(rng, faults, n):
    out = []
    for _ in range(n):
        (a, fa), (b, fb) = rng.sample(faults, 2)

        def both(case, fa=fa, fb=fb):
            fa(case)
            fb(case)
        out.append(("%s + %s" % (a, b), both))
    return out


def count_unmodelled(ctx, imports, ctype, checker, cases, label):
    """How many cases the model itself places outside its fragment (evidence only)."""
    if not cases:
        return
    n = 0
    for i in range(0, len(cases), 400):
        body = "%sDefinition cases : list (%s) := [\n%s\n].\nEval vm_compute in (List.length (bad_indices (%s) cases)).\n" % (
            H.I.prelude([t for t, _ in cases[i:i + 400]]), ctype, ";\n".join(t for t, _ in cases[i:i + 400]), checker)
        rc, out, vals = ctx.coq_eval("%s_unm_%s_%d" % (ctx.prop, label, i), imports, body)
        if rc == 0 and vals:
            try:
                n += int(vals[-1].split()[0].replace("%nat", ""))
            except ValueError:
                pass
    ctx.unmodelled += n
    ctx.count("unmodelled-by-model:" + label, n)


CORE_PREFIXES = ("alg:", "key:", "kid:", "sig:", "exp:boundary", "exp:before", "iat:", "nonce:", "claim-removed:",
                 "c_hash", "at_hash", "hash:", "iss:", "aud:", "azp:", "forged", "token-of", "resp-")


def is_core(fname):
    return fname == "none" or fname.startswith(CORE_PREFIXES)


def only(faults, pred):
    return {p: [(n, f) for n, f in fl if pred(n)] for p, fl in faults.items()}


def run(ctx):
    import logging
    logging.disable(logging.CRITICAL)
    import srv
    os.chdir(os.path.join(E.BUILD, "run"))
    clock = srv.Clock(H.T0).install()
    rng = ctx.rng
    faults = {p: H.fault_matrix(p) for p in H.PATHS}
    core = only(faults, is_core)
    dyn = [s for s in H.SETTINGS if s["reg"] == "dynamic"]
    principal = [s for s in dyn if not s["allow_missing_kid"] and s["skew"] == 0 and not s["allow_none"]]
    coupled = [s for s in H.SETTINGS if (s["skew"] == 0) == (not s["allow_missing_kid"])]

    def full(fname):
        return ("full",)

    def others(fname):
        return ("no-nonce", "no-iss", "no-client_id", "allowed_sign_alg")

    def main_delivery(setting, path, delivery, fname):
        # the whole matrix with the principal delivery; the other deliveries with the faults that depend on it
        if delivery in ("code", "alone"):
            return True
        return fname == "none" or fname.startswith(("alg:none", "c_hash", "at_hash", "hash", "claim-removed:c_hash",
                                                    "claim-removed:at_hash", "claim-retyped:c_hash",
                                                    "claim-retyped:at_hash"))
    msg_cases, traces = [], []
    if ctx.quick:
        header = lambda n: n == "none" or n.startswith(("alg:", "key:", "kid:", "sig:"))  # noqa: E731
        # ---- message API: the whole matrix under the five expected-alg settings, the core matrix under
        #      allow-none / skew 10 / allow_missing_kid, the other kwargs variants on one setting
        msg_cases += run_msg(ctx, clock, principal, faults, full, main_delivery)
        rest = [s for s in coupled if s["reg"] == "dynamic" and s not in principal]
        msg_cases += run_msg(ctx, clock, rest[::2], core, full, main_delivery)
        msg_cases += run_msg(ctx, clock, principal[:1], core, others, main_delivery)
        # ---- service path: the whole matrix under two settings, the core matrix under eight more, the
        #      header faults under every static setting
        def sel(reg, sigalg, an=False, sk=0):
            return [s for s in coupled if s["reg"] == reg and s["sigalg"] == sigalg and s["allow_none"] == an
                    and s["skew"] == sk]
        whole = sel("dynamic", "RS256") + sel("static", None)
        traces += run_svc(ctx, clock, whole, faults, main_delivery)
        mid = (sel("dynamic", None) + sel("dynamic", "ES256") + sel("dynamic", "HS256") + sel("dynamic", "none")
               + sel("dynamic", "RS256", an=True) + sel("dynamic", "RS256", sk=10) + sel("dynamic", None, an=True, sk=10))
        traces += run_svc(ctx, clock, mid, core, main_delivery)
        stat = [s for s in coupled if s["reg"] == "static" and s not in whole and not s["allow_none"] and s["skew"] == 0]
        traces += run_svc(ctx, clock, stat, only(faults, header), main_delivery)
    else:
        everything = lambda s, p, d, f: True  # noqa: E731
        msg_cases += run_msg(ctx, clock, dyn, faults, full, everything)
        msg_cases += run_msg(ctx, clock, principal[:3], faults, others, everything)
        traces += run_svc(ctx, clock, [s for s in coupled if s["reg"] == "dynamic"], faults, everything)
        traces += run_svc(ctx, clock, [s for s in H.SETTINGS if not (s in coupled and s["reg"] == "dynamic")], faults,
                          main_delivery)
    # ---- the ID Token delivered as a JWE around the JWS
    enc_faults = encrypted_matrix(rng, faults, ctx.quick)
    msg_cases += run_msg(ctx, clock, [s for s in H.ENC_SETTINGS if s["reg"] == "dynamic"], enc_faults, full, main_delivery)
    traces += run_svc(ctx, clock, H.ENC_SETTINGS if not ctx.quick else H.ENC_SETTINGS[:1] + H.ENC_SETTINGS[5:], enc_faults,
                      main_delivery)
    # ---- random fault pairs
    npairs = 120 if ctx.quick else 600
    pair_faults = {p: random_pairs(rng, faults[p], npairs) for p in H.PATHS}
    some = [rng.choice(coupled) for _ in range(2 if ctx.quick else 6)]
    msg_cases += run_msg(ctx, clock, [dict(s, reg="dynamic") for s in some], pair_faults, full, main_delivery)
    traces += run_svc(ctx, clock, some[:1] if ctx.quick else some, pair_faults, main_delivery)
    malformed_stream(ctx, clock)
    # ---- histories: sequences of ID Tokens over several sessions of one RP (after every older family, so that
    #      those draw the same cases for a seed as before)
    hist = []
    hworld = H.enable_token_endpoint_auth(H.make_world(clock, issuers=(H.ISS,), **H_SETTING))
    history_matrix(ctx, hworld, hist, ctx.quick)
    for _ in range(150 if ctx.quick else 3000):
        random_token_history(ctx, hworld, rng, hist)
    # ---- histories with requests begun under states that already have a record (after every older family)
    reuse = []
    reuse_matrix(ctx, hworld, reuse, ctx.quick)
    for _ in range(60 if ctx.quick else 2000):
        random_reuse_history(ctx, hworld, rng, reuse)
    clock.uninstall()
    H.check_cases(ctx, H.RESP_IMPORTS, H.RESP_TYPE, "chk_resp_case", msg_cases, shard=400, label="msg",
                  diag="run_resp_case")
    H.check_cases(ctx, H.TRACE_IMPORTS, H.TRACE_TYPE, "chk_trace", traces, shard=150, label="svc",
                  diag="first_bad_step")
    # chk_history = the model replays the trace (chk_trace) AND, in the model, every accepted ID Token carries the
    # nonce sent for its session (the statement of C08_nonce_history evaluated on the sequence)
    H.check_cases(ctx, H.TRACE_IMPORTS, H.TRACE_TYPE, "chk_history", hist, shard=40, label="hist",
                  diag="first_bad_step")
    # chk_reuse_class (Model/RpReuse.v) = the model replays the trace - a request under a state that has a record
    # REPLACES the record - AND every accepted ID Token carries the nonce of the LATEST request under its state (the
    # statement of C08_nonce_history_reused_states evaluated on the sequence) AND every request put on record names
    # the nonce that went out AND the trace does begin a request under a state that has a record
    H.check_cases(ctx, H.TRACE_IMPORTS + ["Model.RpReuse"], H.TRACE_TYPE, "chk_reuse_class", reuse, shard=40, label="reuse",
                  diag="first_bad_step")
    if not ctx.quick:   # evidence only: how much of a sample the model itself places outside its fragment
        count_unmodelled(ctx, H.RESP_IMPORTS, H.RESP_TYPE, "unmodelled_resp_case", msg_cases[:1600], "msg")
        count_unmodelled(ctx, H.TRACE_IMPORTS, H.TRACE_TYPE, "chk_modelled", traces[:800], "svc")


def replay(ctx, rp):
    ctx.notes.append("replay re-runs the generator with the recorded seed")
    ctx.rng.seed(rp.get("seed", ctx.seed))
    run(ctx)
