"""C09 driver — the relying party binds every response to its own state, nonce and issuer.

Real StandAloneClient instances (one per issuer, behind a real RPHandler or stand-alone) talk to a scripted
fake provider.  Several flows are started; then authorization responses, token responses and user-info
responses are delivered whose fields are RECOMBINED across flows and issuers (state of A + code of B, ID token
of A in the token response of B, response of issuer I delivered to the client for J, iss / client_id
response parameters right / wrong / absent, unknown / truncated / case-changed state, an ID token whose
subject is another flow's nonce; BACK-CHANNEL answers - token response of a code exchange, refresh response, user
info, directly / through the RPHandler / inside finalize - that carry members naming ANOTHER session: a `state`
member, iss, client_id, nonce, code, ..., the ID Token of another flow; values the RP's stores KNOW UNDER ANOTHER ROLE
presented AS a state - every key of the binding map Current._map: the nonce of this / another pending flow, a bound subject,
a bound session id, the state of a logout request, a key of another client's map behind the same RPHandler, plus member
names and values of the records - in authorization responses, finalize, get_tokens / refresh / user info, the look-ups of
the RPHandler).  After every operation the state stores of all clients
(context.cstate._db / _map) are snapshotted.  The Gallina model (Model/RpState.v) replays every trace inside
coqc; the oracle (frame condition on the snapshots + "accepted => state was issued by this RP for this
issuer" + nonce / sub binding) is written from the property text and does not use the model.
"""
import copy
import os

import engine as E
import rp_c08c09 as H

RULE = ("traces over 1-3 issuers (one real client each, with and without RPHandler) and 2-6 pending flows: "
        "begin x k, then a single-fault matrix of recombined deliveries (authorization response: delivered-to "
        "issuer x state of own/other flow/other issuer/unknown/truncated/case-changed/empty x ID token of "
        "own/other flow/other issuer/none x iss parameter absent/right/wrong x client_id parameter "
        "absent/right/wrong; token response: addressed (issuer, state) x ID token with nonce of own/other "
        "flow/other issuer, subject = another flow's nonce, direct or routed through the state; user info: sub "
        "right/wrong), followed by random multi-fault histories of 8-20 operations; hybrid / implicit flows: for "
        "each response type of {code id_token token, code id_token, code token, id_token token, id_token} three "
        "pending flows (two on one client, one at another issuer) and EVERY front-channel response recombined member "
        "by member out of their genuine artefacts - state of A x code of A/B/absent x signed ID Token of A/B/C/absent "
        "(its own nonce, c_hash of its own code, at_hash of its own access token) x access token of A/B/absent - "
        "then the genuine responses of A and B, plus random histories of such deliveries over all response types; "
        "back-channel responses: four sessions in the state stores (A finished with tokens, B, D pending on the same "
        "client, C at another issuer) and every request the RP makes FOR one state - get_tokens, refresh_access_token, "
        "get_user_info, on the client and through the RPHandler, and inside the finalize pipeline - answered by the stub "
        "HTTP layer with the genuine answer plus one injected / swapped member: `state` of a finished / pending / other "
        "issuer's / unknown / empty / own session, iss, client_id, nonce, code, redirect_uri, refresh_token, access_token, "
        "sub, __verified_id_token, __expires_at, x ID Token of own / other flow / own nonce with another user's sub / other "
        "flow's nonce with own sub / without nonce / of another issuer, then pairs (state of A + ID Token of A ...), each "
        "followed by the genuine requests of the sessions involved, plus random histories of such requests; "
        "values the stores know under another role presented AS a state: sessions A (finished: subject bound; at providers "
        "that want session ids also sid bound by the finalize pipeline and the state of an end-session request bound by "
        "logout), B, C (other issuer), D (pending) and EVERY key of every client's binding map (nonce of A / B / C / D, "
        "subject, sid, logout state) + record member names + record values, each delivered to the client that holds it and "
        "to another client as the `state` of an authorization response (with a code / with the genuine ID Token of the flow "
        "the key is bound to / with right iss + client_id / as an error response / as a hybrid response), to finalize, as "
        "the state argument of get_tokens / refresh_access_token / get_user_info (direct and routed), and to "
        "state2issuer / get_client_from_session_key / get_session_information / has_active_authentication / "
        "get_valid_access_token / logout / clear_session, followed by the genuine requests of the sessions, plus random "
        "histories mixing such presentations with genuine operations; ground truth = the set of states the RP issued; "
        "a trace is non-trivial when it has at least two pending flows and at least one accepted and one refused delivery")
ASSUMPTIONS = [
    "state and nonce values drawn by the client (rndstr) are fresh: they are fed to the model as observed",
    "ID-token validation is the model of C08 (Model/IdToken.v) with ideal signatures",
    "the token and userinfo endpoints answer 200 with a JSON object (error statuses are not modelled)",
    "the finalize pipeline (finalize_auth + get_tokens + get_user_info in one call) is judged by the oracle only",
    "the token-exchange service is not one of a StandAloneClient's default services and is not driven",
    "calls the model has no step for (finalize pipeline, logout, has_active_authentication, get_valid_access_token, "
    "clear_session, the routed look-ups other than state2issuer) are judged by the oracle; the model replay continues "
    "from the observed stores after them (PSync)",
]

USERS = ["diana", "bob", "carol"]
ISSUERS = [H.ISS, H.ISS2, H.ISS3]
SIGNER = {H.ISS: ("iss_rsa1", "r1"), H.ISS2: ("iss2_rsa", "o1"), H.ISS3: ("iss3_rsa", "t1")}


class Flow:
    def __init__(self, n, issuer, state, nonce, user, rt):
        self.n, self.issuer, self.state, self.nonce, self.user, self.rt = n, issuer, state, nonce, user, rt
        self.code = "code-%d" % n
        self.at = "at-%d" % n
        self.aat = "aat-%d" % n       # the access token the authorization endpoint hands out (hybrid / implicit)
        self.tok = None               # the flow's own ID Token of the authorization endpoint (hybrid_flows)


def idtoken(flow, now, hybrid, sub=None, nonce=None, issuer=None):
    """The ID token the provider of `issuer` would mint for this flow (hybrid: with c_hash of its code)."""
    iss = issuer or flow.issuer
    signer, kid = SIGNER[iss]
    claims = {"iss": iss, "sub": sub if sub is not None else flow.user, "aud": [H.CLIENT_ID], "exp": now + 300,
              "iat": now - 2, "nonce": nonce if nonce is not None else flow.nonce}
    if hybrid:
        claims["c_hash"] = H.left_hash_ref(flow.code, 256)
    return {"alg": "RS256", "kid": kid, "signer": signer, "sigfault": None, "claims": claims}


def start(world, plan):
    """plan: list of (issuer, user, response_type)"""
    flows = []
    for n, (iss, user, rt) in enumerate(plan):
        st, nonce = world.begin(iss, rt)
        flows.append(Flow(n, iss, st, nonce, user, rt))
    return flows


def mutate_state(st, how, flows, rng):
    if how == "unknown":
        return "Zz" + st[2:][::-1]
    if how == "truncated":
        return st[:-1]
    if how == "extended":
        return st + "x"
    if how == "case":
        return st.swapcase()
    if how == "empty":
        return ""
    if how == "space":
        return st + " "
    return st


def deliver_authz(world, flows, to_issuer, state_of, state_mut, code_of, idt_of, iss_param, cid_param, extra=None):
    """Build an authorization response by recombination and deliver it to the client of to_issuer."""
    params = {}
    st = mutate_state(flows[state_of].state, state_mut, flows, None) if state_of is not None else None
    if st is not None:
        params["state"] = st
    if code_of is not None:
        params["code"] = flows[code_of].code
    if iss_param is not None:
        params["iss"] = iss_param
    if cid_param is not None:
        params["client_id"] = cid_param
    if extra:
        params.update(extra)
    tok = None
    if idt_of is not None:
        f = flows[idt_of]
        tok = idtoken(f, world.clock.now, hybrid=True)
        if code_of is not None:
            tok["claims"]["c_hash"] = H.left_hash_ref(flows[code_of].code, 256)
    return world.authz(to_issuer, params, tok)


def deliver_token(world, flows, to_issuer, state_of, idt_of, sub=None, routed=False, state_mut=None, nonce=None,
                  idt_issuer=None):
    st = mutate_state(flows[state_of].state, state_mut, flows, None)
    f = flows[state_of]
    params = {"access_token": f.at, "token_type": "Bearer", "expires_in": 300}
    tok = None
    if idt_of is not None:
        tok = idtoken(flows[idt_of], world.clock.now, hybrid=False, sub=sub, nonce=nonce, issuer=idt_issuer)
    return world.token(to_issuer, st, params, tok, routed=routed)


RT_HYBRID = ["code id_token token", "code id_token", "code token", "id_token token", "id_token"]


def mint_own(flow, now, sig=None):
    """The ID Token the provider of the flow's issuer mints at the authorization endpoint for THIS flow: its nonce,
    its user, c_hash of its code when the response type has a code, at_hash of its access token when the response
    type has a token (OIDC Core 3.3.2.11).  sig: (alg, signer, kid) other than the issuer's RS256 key."""
    signer, kid = SIGNER[flow.issuer]
    alg = "RS256"
    if sig is not None:
        alg, signer, kid = sig
    bits = int(alg[-3:])
    rt = flow.rt.split(" ")
    claims = {"iss": flow.issuer, "sub": flow.user, "aud": [H.CLIENT_ID], "exp": now + 300, "iat": now - 2,
              "nonce": flow.nonce}
    if "code" in rt:
        claims["c_hash"] = H.left_hash_ref(flow.code, bits)
    if "token" in rt:
        claims["at_hash"] = H.left_hash_ref(flow.aat, bits)
    flow.tok = {"alg": alg, "kid": kid, "signer": signer, "sigfault": None, "claims": claims}
    return flow


def genuine_members(flow):
    """which members the genuine front-channel response of the flow has: (code, ID Token, access token)"""
    rt = flow.rt.split(" ")
    return ("code" in rt, "id_token" in rt, "token" in rt)


def deliver_genuine(world, flow, to=None):
    c, i, t = genuine_members(flow)
    return world.authz_hybrid(to or flow.issuer, flow, flow if c else None, flow if i else None, flow if t else None)


# ---------------------------------------------------------------------------------- the oracle
def hybrid_oracle(ctx, flows, det, target, issued, ok, after_db, what, rec):
    """Ground truth = the flow every member was taken from.  A response that carries a (signed) ID Token is
    acceptable only if ALL its members are artefacts of the flow its state names, and what is then stored
    under that state are that flow's own code / access token / ID-token claims."""
    mem = det["members"]
    byn = {f.n: f for f in flows}
    owner = byn[mem["state"]]
    foreign = [m for m in ("code", "id_token", "access_token") if mem[m] is not None and mem[m] != mem["state"]]
    if not ok:
        ctx.count("verdict:hybrid-%s-refused" % ("recombined" if foreign else "own"))
        shape = (mem["code"] is not None, mem["id_token"] is not None, mem["access_token"] is not None)
        if not foreign and det["issuer"] == owner.issuer and shape == genuine_members(owner):
            # not a clause of the property (which only says what may be accepted), but the observable face of
            # "after a refused response the pending flow is unchanged": its genuine response is still served
            ctx.count("verdict:hybrid-genuine-response-refused")
        return
    if mem["id_token"] is None:
        # no ID Token: nothing in the response ties a code / access token to the state (OAuth 2.0 leaves that to
        # the token endpoint); the property's binding clause is about responses with an ID Token
        ctx.count("verdict:hybrid-without-idtoken-accepted")
        return
    ctx.count("verdict:hybrid-%s-accepted" % ("recombined" if foreign else "own"))
    for m in foreign:
        ctx.violation("hybrid-member-of-other-flow-accepted:" + m,
                      "authorization response for the state of flow %d accepted although its %s belongs to flow %d: %s"
                      % (mem["state"], m, mem[m], what), rec)
    stored = after_db.get(target, {})
    if target in issued:
        if mem["code"] is not None and stored.get("code") != owner.code:
            ctx.violation("hybrid-foreign-artefact-stored:code", "code %r recorded under the state of flow %d (its code is %r): %s"
                          % (stored.get("code"), owner.n, owner.code, what), rec)
        if mem["access_token"] is not None and stored.get("access_token") != owner.aat:
            ctx.violation("hybrid-foreign-artefact-stored:access_token", "access token %r recorded under the state of flow %d "
                          "(its access token is %r): %s" % (stored.get("access_token"), owner.n, owner.aat, what), rec)
        vid = stored.get("__verified_id_token")
        if not isinstance(vid, dict) or vid.get("nonce") != owner.nonce or vid.get("sub") != owner.user:
            ctx.violation("hybrid-foreign-artefact-stored:id_token", "verified ID-token claims recorded under the state of "
                          "flow %d are not that flow's (nonce %r, sub %r): %s"
                          % (owner.n, (vid or {}).get("nonce"), (vid or {}).get("sub"), what), rec)


BACKCHANNEL = ("token", "routed_token", "refresh", "routed_refresh", "userinfo", "routed_userinfo", "finalize")


def backchannel_oracle(ctx, kind, det, target, issued, ok, changed, before_db, after_db, what, rec):
    """Ground truth = the state the relying party made the request FOR (the argument of get_tokens /
    refresh_access_token / get_user_info; for finalize the state of the authorization response it then redeems),
    at the client that holds that session.  Whatever the answer contains, it is recorded under that state or
    refused, and the record of no other session changes - in particular not the one the answer names."""
    if kind == "finalize":
        body, ui = det.get("token_body") or {}, det.get("userinfo") or {}
    elif kind.endswith("userinfo"):
        body, ui = {}, det["claims"]
    else:
        body, ui = det["params"], {}
    named = {v for v in (body.get("state"), ui.get("state")) if isinstance(v, str)}
    ctx.count("backchannel:%s:%s" % (kind, "names-other-session" if any((target[0], v) != target and
                                                                          any(s == v for (_, s) in issued) for v in named)
                                       else "names-unknown-state" if named - {target[1]} else
                                       "names-own-state" if named else "no-state-member"))
    for k in changed:
        if k != target and k[1] in named:
            ctx.violation("backchannel-recorded-under-state-of-response", "the answer to a request made for %s changed the "
                          "record of %s, the state the ANSWER names: %s" % (target, k, what), rec)
    if not ok or target not in issued:
        return
    stored = after_db.get(target, {})
    # recorded under the state of the request
    if body and "access_token" in body and stored.get("access_token") != body["access_token"]:
        ctx.violation("backchannel-not-recorded-under-request-state:access_token", "accepted token response: access token "
                      "%r is not what the record of %s holds (%r): %s"
                      % (body["access_token"], target, stored.get("access_token"), what), rec)
    if ui and "sub" in ui and stored.get("sub") != ui["sub"]:
        ctx.violation("backchannel-not-recorded-under-request-state:userinfo", "accepted user info about %r is not what the "
                      "record of %s holds (%r): %s" % (ui["sub"], target, stored.get("sub"), what), rec)


def role_of(value, at_issuer, flows, before_map, before_db, logout_states):
    """what the relying party's stores know a value as, when it is not a state it issued for the client of at_issuer
    (generator ground truth: nonces, subjects, session ids and logout states are what the generator / the clients
    drew; the maps only say whether the value is bound right now)"""
    if not isinstance(value, str):
        return "not-a-string"
    bound = any(k == value for (_, k) in before_map)
    for f in flows:
        if value == f.nonce:
            return "nonce-of-flow-of-%s-client" % ("this" if f.issuer == at_issuer else "another")
    for f in flows:
        if value == f.state:
            return "state-of-another-client"
    if value in USERS:
        return "bound-subject" if bound else "unbound-subject"
    if value.startswith("sid-"):
        return "bound-sid" if bound else "unbound-sid"
    if value in logout_states:
        return "bound-logout-state" if bound else "unbound-logout-state"
    if bound:
        return "bound-key"
    if any(value in rec for rec in before_db.values()):
        return "record-member-name"
    if any(value == v for rec in before_db.values() for v in rec.values() if isinstance(v, str)):
        return "record-value"
    return "unbound"


RESOLVED = {   # which outcome of a look-up means "this value was taken for a session"
    "state2issuer": lambda out: bool(out[1]),
    "has_active_authentication": lambda out: bool(out[1].get("active")),
    "routed_has_active_authentication": lambda out: bool(out[1].get("active")),
    "clear_session": lambda out: False,
    "routed_clear_session": lambda out: False,
}


def lookup_oracle(ctx, kind, det, out, issued, flows, changed, mchanged, before_db, before_map, logout_states, what, rec):
    """Ground truth = the states this relying party issued.  A look-up / logout made with a value that is not one of
    them finds no issuer, no client, no session, builds no logout request, and changes nothing - whatever else the
    stores know the value as."""
    ok = out[0] == "ok"
    K = det["state"]
    if kind == "logout":
        api, at = ("routed_logout" if det.get("routed") else "logout"), det["issuer"]
    else:
        api, at = det["api"], det["issuer"]
    routed = api.startswith("routed") or api in ("state2issuer", "client_from_session_key")
    is_state = any(s == K for (_, s) in issued) if routed else (at, K) in issued
    role = "issued-state" if is_state else role_of(K, at, flows, before_map, before_db, logout_states)
    ctx.count("lookup:%s:%s:%s" % (api, role, "ok" if ok else out[1]))
    if is_state:
        # a genuine call: clear_session removes the session and its bindings, logout binds the state of the
        # end-session request to this session; nothing else may change
        tgt = {k for k in issued if k[1] == K}
        for k in changed:
            if k not in tgt or not api.endswith("clear_session"):
                ctx.violation("frame-other-session-record", "%s(%r) changed the record of %s: %s" % (api, K, k, what), rec)
        if not api.endswith("clear_session"):
            for (iss, key) in mchanged:
                if not (api.endswith("logout") and ok and key == out[1].get("state") and (iss, key) not in before_map):
                    ctx.violation("frame-map-foreign-binding", "%s(%r) changed the binding of %r: %s" % (api, K, key, what), rec)
        return
    if changed or mchanged:
        ctx.violation("unissued-state-changed-stores:" + api, "%s with %r (%s, never issued as a state) altered the stores: "
                      "%s; changed %s %s" % (api, K, role, what, sorted(changed), sorted(mchanged)), rec)
    if ok and RESOLVED.get(api, lambda o: True)(out):
        ctx.violation("unissued-state-resolved:%s:%s" % (api, role), "%s resolved %r, which this relying party never issued "
                      "as a state (the stores know it as: %s): %s" % (api, K, role, what), rec)


def norm_db(snap):
    return {(iss, st): rec for iss, db, _ in snap for st, rec in db.items()}


def norm_map(snap):
    return {(iss, k): v for iss, _, mp in snap for k, v in mp.items()}


def oracle(ctx, world, flows, rec):
    """Decide the property text on the observed snapshots of every operation of the trace."""
    issued = {(f.issuer, f.state): f for f in flows}
    nonce_of = {(f.issuer, f.nonce): f for f in flows}
    logout_states = set()         # the states of end-session requests the clients drew so far
    for step in world.log:
        kind, det, out = step["op"], step["detail"], step["out"]
        if kind == "begin":
            continue
        before_db, after_db = norm_db(step["before"]), norm_db(step["after"])
        before_map, after_map = norm_map(step["before"]), norm_map(step["after"])
        ok = out[0] == "ok"
        is_error_resp = ok and isinstance(out[1], dict) and "error" in out[1]
        changed = {k for k in set(before_db) | set(after_db) if before_db.get(k) != after_db.get(k)}
        mchanged = {k for k in set(before_map) | set(after_map) if before_map.get(k) != after_map.get(k)}
        what = "%s %s -> %s" % (kind, {k: v for k, v in det.items() if k != "tok"}, out if not ok else "ok")
        if kind in ("probe", "logout"):
            lookup_oracle(ctx, kind, det, out, issued, flows, changed, mchanged, before_db, before_map, logout_states, what, rec)
            if kind == "logout" and ok and isinstance(out[1].get("state"), str):
                logout_states.add(out[1]["state"])
            continue
        # which (issuer, state) did the operation address
        if kind == "authz":
            st = det["params"].get("state")
            target = (det["issuer"], st if isinstance(st, str) else None)
        elif kind == "finalize":
            st = det["params"].get("state")
            target = (det["issuer"], st if isinstance(st, str) else None)
        elif kind in ("routed_token", "routed_refresh", "routed_userinfo"):
            holders = [i for (i, s) in before_db if s == det["state"]]
            target = (holders[0] if holders else None, det["state"])
        else:
            target = (det["issuer"], det["state"])
        # (0) ground truth = the states this relying party issued: a value that is not one of them - whatever else the
        # stores know it as (the nonce of a flow, a bound subject / session id / logout state, a key of another client's
        # map, a member name or a value of a record) - is an unknown state: refused, nothing changes
        if target not in issued and isinstance(target[1], str):
            role = role_of(target[1], det.get("issuer") if target[0] is None else target[0], flows, before_map, before_db,
                           logout_states)
            accepted = ok and not is_error_resp
            ctx.count("presented-as-state:%s:%s:%s" % (role, kind, "ACCEPTED" if accepted else "refused"))
            if accepted:
                ctx.violation("unissued-state-accepted:%s:%s" % (kind, role), "%s accepted for %r, which this relying party "
                              "never issued as a state for %s (the stores know it as: %s): %s"
                              % (kind, target[1], target[0], role, what), rec)
            if changed or mchanged:
                ctx.violation("unissued-state-changed-stores:" + kind, "%s presenting %r (%s, never issued as a state) altered "
                              "the stores: %s; changed %s %s" % (kind, target[1], role, what, sorted(changed), sorted(mchanged)), rec)
        # (a) a refused operation changes nothing
        # (finalize is a pipeline: its first stage may have been accepted - and recorded under the addressed state,
        #  which (b) and (c) hold it to - before a later stage is refused)
        if (not ok or is_error_resp) and (changed or mchanged) and kind != "finalize":
            ctx.violation("rejected-but-changed", "refused operation altered state: %s; changed %s %s"
                          % (what, sorted(changed), sorted(mchanged)), rec)
        # (b) frame: only the record of the addressed (issuer, state) may change
        for k in changed:
            if k != target:
                ctx.violation("frame-other-session-record", "operation for %s changed the record of %s: %s"
                              % (target, k, what), rec)
        # (c) the nonce binding of every other pending flow is untouched
        for (iss, key) in mchanged:
            f = nonce_of.get((iss, key))
            if f is not None and (f.issuer, f.state) != target:
                ctx.violation("nonce-binding-of-other-flow-rebound", "operation for %s re-bound the nonce of the pending "
                              "flow %s (%r: %r -> %r): %s" % (target, (f.issuer, f.state), key,
                                                              before_map.get((iss, key)), after_map.get((iss, key)), what), rec)
            elif f is None and after_map.get((iss, key)) != target[1]:
                ctx.violation("frame-map-foreign-binding", "operation for %s bound %r to %r: %s"
                              % (target, key, after_map.get((iss, key)), what), rec)
        if kind in BACKCHANNEL:
            backchannel_oracle(ctx, kind, det, target, issued, ok and not is_error_resp, changed, before_db, after_db, what, rec)
        if kind == "authz" and "members" in det:
            hybrid_oracle(ctx, flows, det, target, issued, ok and not is_error_resp, after_db, what, rec)
        if not ok or is_error_resp:
            ctx.count("verdict:%s-refused" % kind)
            continue
        ctx.count("verdict:%s-accepted" % kind)
        # (d) accepted => the state was issued by this RP for this issuer
        if kind == "authz":
            if target not in issued:
                ctx.violation("accepted-foreign-state", "authorization response accepted by the client for %s with a state "
                              "this RP did not issue for that issuer: %s" % (target[0], what), rec)
            p = det["params"]
            if "iss" in p and p["iss"] not in ("", target[0]):
                ctx.violation("accepted-wrong-iss-parameter", "accepted although the iss response parameter names another "
                              "issuer: %s" % what, rec)
            if "client_id" in p and p["client_id"] not in ("", H.CLIENT_ID):
                ctx.violation("accepted-wrong-client_id-parameter", "accepted although the client_id response parameter "
                              "names another client: %s" % what, rec)
            tok = det.get("tok")
            if tok is not None and target in issued and tok["claims"].get("nonce") != issued[target].nonce:
                ctx.violation("idtoken-nonce-of-other-flow-accepted", "authorization response accepted with an ID token "
                              "whose nonce is not the one sent for this state: %s" % what, rec)
            if tok is not None and tok["claims"].get("iss") != target[0]:
                ctx.violation("idtoken-of-other-issuer-accepted", "ID token of %s accepted by the client for %s: %s"
                              % (tok["claims"].get("iss"), target[0], what), rec)
        elif kind in ("token", "routed_token"):
            if target not in issued:
                ctx.violation("accepted-foreign-state", "token response recorded under a state this RP did not issue: %s"
                              % what, rec)
            tok = det.get("tok")
            if tok is not None and target in issued:
                if tok["claims"].get("nonce") != issued[target].nonce:
                    # after an earlier re-binding (sub = that nonce) the map itself says the nonce belongs here
                    rebound = before_map.get((target[0], tok["claims"].get("nonce"))) == target[1]
                    ctx.violation("idtoken-nonce-of-other-flow-accepted" + ("-after-rebinding" if rebound else ""),
                                  "token response accepted with an ID token whose nonce belongs to another flow: %s"
                                  % what, rec)
                if tok["claims"].get("iss") != target[0]:
                    ctx.violation("idtoken-of-other-issuer-accepted", "ID token of %s accepted by the client for %s: %s"
                                  % (tok["claims"].get("iss"), target[0], what), rec)
        elif kind == "finalize":
            if target not in issued:
                ctx.violation("accepted-foreign-state", "finalize completed for a state this RP did not issue: %s" % what, rec)
            tok = det.get("tok")
            if tok is not None and target in issued and tok["claims"].get("nonce") != issued[target].nonce:
                ctx.violation("idtoken-nonce-of-other-flow-accepted", "finalize completed with a token response whose ID "
                              "token carries the nonce of another flow: %s" % what, rec)
        elif kind in ("refresh", "routed_refresh"):
            if target not in issued:
                ctx.violation("accepted-foreign-state", "refresh response recorded under a state this RP did not issue: %s"
                              % what, rec)
            tok = det.get("tok")
            if tok is not None and target in issued:
                # the ID Token of a refresh response is the ID Token of THIS session (OIDC Core 12.2): a nonce in it
                # is the nonce sent for this state, its subject is the subject the session was established for
                n = tok["claims"].get("nonce")
                if n is not None and n != issued[target].nonce:
                    ctx.violation("refresh-idtoken-not-of-this-session:nonce-of-other-flow", "refresh response accepted "
                                  "with an ID token whose nonce belongs to another flow: %s" % what, rec)
                vid = before_db.get(target, {}).get("__verified_id_token")
                if isinstance(vid, dict) and "sub" in vid and tok["claims"].get("sub") != vid["sub"]:
                    ctx.violation("refresh-idtoken-not-of-this-session:sub-of-other-user", "refresh response accepted with "
                                  "an ID token about %r for the session of %r: %s"
                                  % (tok["claims"].get("sub"), vid["sub"], what), rec)
                if tok["claims"].get("iss") != target[0]:
                    ctx.violation("idtoken-of-other-issuer-accepted", "ID token of %s accepted by the client for %s: %s"
                                  % (tok["claims"].get("iss"), target[0], what), rec)
        elif kind in ("userinfo", "routed_userinfo"):
            if target not in issued:
                ctx.violation("accepted-foreign-state", "user info recorded under a state this RP did not issue: %s" % what, rec)
            vid = before_db.get(target, {}).get("__verified_id_token")
            if isinstance(vid, dict) and "sub" in vid and det["claims"].get("sub") != vid["sub"]:
                ctx.violation("userinfo-sub-mismatch-accepted", "user info for another subject recorded: %s" % what, rec)


# ---------------------------------------------------------------------------------- trace families
def finish(ctx, world, flows, family, traces, probes=False):
    """probes: the trace has look-ups / calls without a model step: it is replayed as a ptrace_case (chk_bound_keys)"""
    rec = {"family": family, "flows": [(f.issuer, f.state, f.nonce, f.user, f.rt) for f in flows],
           "ops": [{"op": s["op"], "detail": {k: v for k, v in s["detail"].items()}, "out": s["out"]} for s in world.log]}
    outs = [s["out"][0] for s in world.log if s["op"] != "begin"]
    ctx.case_seen(rec, nontrivial=len(flows) >= 2 and "ok" in outs and "err" in outs)
    for s in world.log:
        ctx.count("op:" + s["op"])
        ctx.count("out:" + (s["out"][0] if s["out"][0] == "ok" else s["out"][1]))
    oracle(ctx, world, flows, rec)
    if probes:
        if world.modellable_p():
            traces.append((world.coq_ptrace(), rec))
        else:
            ctx.unmodelled += 1
    elif world.modellable():
        traces.append((world.coq_trace(), rec))
    else:
        ctx.unmodelled += 1


BASE_PLAN = [(H.ISS, "diana", "code id_token"), (H.ISS, "bob", "code"), (H.ISS2, "carol", "code id_token")]


def authz_matrix(ctx, base_world, traces):
    """Flow 0 = A (issuer 1), flow 1 = B (same client), flow 2 = C (issuer 2).  The genuine delivery is
    (to = ISS, state A, code A, ID token A or none, iss absent or right, client_id absent or right); every
    dimension is varied alone, then all pairs of (delivered-to, state) and (state, ID token)."""
    genuine = dict(to_issuer=H.ISS, state_of=0, state_mut=None, code_of=0, idt_of=0, iss_param=None, cid_param=None)
    variants = [("genuine", {})]
    variants += [("to:" + t, {"to_issuer": t}) for t in (H.ISS2, H.ISS3, "https://nobody.example.com")]
    variants += [("state:flow%d" % k, {"state_of": k}) for k in (1, 2)]
    variants += [("state:" + m, {"state_mut": m}) for m in ("unknown", "truncated", "extended", "case", "empty", "space")]
    variants += [("state:absent", {"state_of": None})]
    variants += [("code:flow%d" % k, {"code_of": k}) for k in (1, 2)] + [("code:absent", {"code_of": None})]
    variants += [("idt:flow%d" % k, {"idt_of": k}) for k in (1, 2)] + [("idt:none", {"idt_of": None})]
    variants += [("iss:" + n, {"iss_param": v}) for n, v in (("right", H.ISS), ("other", H.ISS2), ("evil", "https://evil.example.com"),
                                                             ("slash", H.ISS + "/"), ("empty", ""))]
    variants += [("client_id:" + n, {"cid_param": v}) for n, v in (("right", H.CLIENT_ID), ("other", "someone-else"), ("empty", ""))]
    variants += [("extra:" + k, {"extra": {k: v}}) for k, v in (("nonce", "injected"), ("redirect_uri", "https://evil/cb"),
                                                               ("__verified_id_token", {"sub": "admin"}), ("error", "access_denied"),
                                                               ("expires_in", 60), ("scope", "openid email"))]
    for t in (H.ISS, H.ISS2):
        for k in (0, 1, 2):
            variants.append(("to+state:%s/%d" % (t[-3:], k), {"to_issuer": t, "state_of": k, "code_of": k, "idt_of": k}))
            variants.append(("to+state-noidt:%s/%d" % (t[-3:], k), {"to_issuer": t, "state_of": k, "code_of": k, "idt_of": None}))
    for k in (0, 1, 2):
        for j in (0, 1, 2):
            variants.append(("state+idt:%d/%d" % (k, j), {"state_of": k, "idt_of": j}))
    for name, over in variants:
        w = H.fresh_world(base_world)
        flows = start(w, BASE_PLAN)
        args = dict(genuine)
        args.update(over)
        deliver_authz(w, flows, **args)
        # the genuine delivery afterwards must still work for the flows that were not touched
        deliver_authz(w, flows, H.ISS2, 2, None, 2, 2, None, None)
        finish(ctx, w, flows, "authz:" + name, traces)


def token_matrix(ctx, base_world, traces):
    plan = [(H.ISS, "diana", "code"), (H.ISS, "bob", "code"), (H.ISS2, "carol", "code")]
    variants = [("genuine", dict(to_issuer=H.ISS, state_of=0, idt_of=0))]
    variants += [("no-idt", dict(to_issuer=H.ISS, state_of=0, idt_of=None))]
    variants += [("idt:flow%d" % k, dict(to_issuer=H.ISS, state_of=0, idt_of=k)) for k in (1, 2)]
    variants += [("idt:nonce-of-flow%d" % k, dict(to_issuer=H.ISS, state_of=0, idt_of=0, nonce="@%d" % k)) for k in (1, 2)]
    variants += [("idt:sub-is-nonce-of-flow%d" % k, dict(to_issuer=H.ISS, state_of=0, idt_of=0, sub="@%d" % k)) for k in (0, 1, 2)]
    variants += [("idt:sub-is-state-of-flow1", dict(to_issuer=H.ISS, state_of=0, idt_of=0, sub="@s1"))]
    variants += [("idt:other-issuer-same-nonce", dict(to_issuer=H.ISS, state_of=0, idt_of=0, idt_issuer=H.ISS2))]
    variants += [("state:flow%d" % k, dict(to_issuer=H.ISS, state_of=k, idt_of=0)) for k in (1, 2)]
    variants += [("to:other-client", dict(to_issuer=H.ISS2, state_of=0, idt_of=0))]
    variants += [("state:" + m, dict(to_issuer=H.ISS, state_of=0, idt_of=0, state_mut=m)) for m in ("unknown", "truncated", "case")]
    variants += [("routed:" + n, dict(v, routed=True)) for n, v in list(variants) if "state_mut" not in v][:12]
    for name, v in variants:
        w = H.fresh_world(base_world)
        flows = start(w, plan)
        for k in (0, 1, 2):
            deliver_authz(w, flows, flows[k].issuer, k, None, k, None, None, None)
        v = dict(v)
        for key in ("sub", "nonce"):
            if isinstance(v.get(key), str) and v[key].startswith("@"):
                v[key] = flows[1].state if v[key] == "@s1" else flows[int(v[key][1:])].nonce
        if v.get("routed") and w.rph is None:
            v.pop("routed")
        deliver_token(w, flows, **v)
        # afterwards the other flow of the same client asks for its own tokens: must still be served
        deliver_token(w, flows, H.ISS, 1, 1)
        # ... and an ID token carrying the other flow's nonce must not be accepted for flow 0
        deliver_token(w, flows, H.ISS, 0, 0, nonce=flows[1].nonce)
        w.userinfo(H.ISS, flows[0].state, {"sub": "diana", "name": "Diana"})
        w.userinfo(H.ISS, flows[0].state, {"sub": "mallory"})
        w.userinfo(H.ISS2, flows[0].state, {"sub": "diana"})
        if name in ("genuine", "no-idt"):
            # user info that carries protocol-looking claims lands in the same record: a later authorization
            # response for that state must then fail the issuer comparison, never be accepted for another issuer
            w.userinfo(H.ISS, flows[0].state, {"sub": "diana", "iss": H.ISS2, "nonce": "x"})
            deliver_authz(w, flows, H.ISS, 0, None, 0, None, None, None)
            deliver_authz(w, flows, H.ISS2, 0, None, 0, None, None, None)
        finish(ctx, w, flows, "token:" + name, traces)


def random_history(ctx, base_world, rng, traces):
    w = H.fresh_world(base_world)
    issuers = list(w.clients)
    k = rng.randint(2, 6)
    plan = [(rng.choice(issuers), rng.choice(USERS), rng.choice(["code", "code id_token"])) for _ in range(k)]
    flows = start(w, plan[:2])
    pending = plan[2:]
    nops = rng.randint(8, 20)
    for _ in range(nops):
        r = rng.random()
        if pending and r < 0.15:
            iss, user, rt = pending.pop()
            st, nonce = w.begin(iss, rt)
            flows.append(Flow(len(flows), iss, st, nonce, user, rt))
            continue
        a = rng.randrange(len(flows))
        faulty = rng.random() < 0.5
        pick = (lambda: rng.randrange(len(flows))) if faulty else (lambda: a)
        if r < 0.5:
            to = rng.choice(issuers + ["https://nobody.example.com"]) if faulty and rng.random() < 0.5 else flows[a].issuer
            deliver_authz(w, flows, to, pick(),
                          rng.choice([None, None, "unknown", "truncated", "case", "extended"]) if faulty else None,
                          pick(), rng.choice([None, pick()]) if flows[a].rt != "code" or faulty else None,
                          rng.choice([None, flows[a].issuer, rng.choice(issuers)]) if faulty else rng.choice([None, flows[a].issuer]),
                          rng.choice([None, H.CLIENT_ID, "someone-else"]) if faulty else rng.choice([None, H.CLIENT_ID]))
        elif r < 0.82:
            b = pick()
            sub = None
            if faulty and rng.random() < 0.3:
                sub = flows[rng.randrange(len(flows))].nonce
            deliver_token(w, flows, flows[a].issuer if not faulty else rng.choice(issuers), a, rng.choice([None, b, b]),
                          sub=sub, routed=(w.rph is not None and rng.random() < 0.3))
        else:
            w.userinfo(flows[a].issuer if not faulty else rng.choice(issuers), flows[a].state,
                       {"sub": flows[a].user if not faulty else rng.choice(USERS), "email": "x@example.com"})
    finish(ctx, w, flows, "random", traces)


def hybrid_matrix(ctx, base_world, traces, rts=RT_HYBRID, sig=None, tag=""):
    """Flow 0 = A, flow 1 = B (same client, other user), flow 2 = C (other issuer), all of response type rt.
    Every response {state of A} x {code of A / B / absent} x {ID Token of A / B / C / absent} x {access token of
    A / B / absent} is delivered to A's client - the full table, not a sample - followed by the genuine responses
    of A and of B (each must still be served whatever happened before)."""
    for rt in rts:
        plan = [(H.ISS, "diana", rt), (H.ISS, "bob", rt), (H.ISS2, "carol", rt)]
        for code_of in (0, 1, None):
            for idt_of in (0, 1, 2, None):
                for at_of in (0, 1, None):
                    w = H.fresh_world(base_world)
                    flows = start(w, plan)
                    for f in flows:
                        mint_own(f, w.clock.now, sig if f.issuer == H.ISS else None)
                    pick = lambda k: None if k is None else flows[k]    # noqa: E731
                    w.authz_hybrid(H.ISS, flows[0], pick(code_of), pick(idt_of), pick(at_of))
                    deliver_genuine(w, flows[0])
                    deliver_genuine(w, flows[1])
                    name = "hybrid%s:%s:code=%s,idt=%s,at=%s" % (tag, rt.replace(" ", "+"), code_of, idt_of, at_of)
                    finish(ctx, w, flows, name, traces)


def random_hybrid_history(ctx, base_world, rng, traces):
    """2-5 pending flows of random response types over the issuers of the world; 6-12 front-channel deliveries:
    half of them the genuine response of a flow, the others recombined (each member present with probability
    0.7 and taken from a random flow), now and then delivered to another issuer's client."""
    w = H.fresh_world(base_world)
    issuers = list(w.clients)
    k = rng.randint(2, 5)
    plan = [(rng.choice(issuers), rng.choice(USERS), rng.choice(RT_HYBRID + ["code"])) for _ in range(k)]
    flows = start(w, plan)
    for f in flows:
        mint_own(f, w.clock.now)
    for _ in range(rng.randint(6, 12)):
        a = rng.choice(flows)
        if rng.random() < 0.5:
            deliver_genuine(w, a, to=rng.choice(issuers) if rng.random() < 0.1 else None)
            continue
        anyf = lambda p=0.7: rng.choice(flows) if rng.random() < p else None    # noqa: E731
        near = lambda: a if rng.random() < 0.6 else anyf(1.0)                   # noqa: E731
        to = rng.choice(issuers) if rng.random() < 0.15 else a.issuer
        w.authz_hybrid(to, a, near() if rng.random() < 0.7 else None, near() if rng.random() < 0.8 else None,
                       near() if rng.random() < 0.7 else None)
    finish(ctx, w, flows, "random-hybrid", traces)


# ---------------------------------------------------------------------------------- back-channel responses
BC_PLAN = [(H.ISS, "diana", "code"), (H.ISS, "bob", "code"), (H.ISS2, "carol", "code"), (H.ISS, "carol", "code")]


def bc_idtoken(flows, spec, k, now):
    """spec: None | 'own' | ('flow', j) the genuine ID Token of flow j | ('sub', j) own nonce, subject of flow j |
    ('nonce', j) nonce of flow j, own subject | 'no-nonce' | ('issuer', j) own nonce and subject, minted by flow j's issuer"""
    if spec is None:
        return None
    f = flows[k]
    if spec == "own":
        return idtoken(f, now, hybrid=False)
    if spec == "no-nonce":
        t = idtoken(f, now, hybrid=False)
        del t["claims"]["nonce"]
        return t
    how, j = spec
    if how == "flow":
        return idtoken(flows[j], now, hybrid=False)
    if how == "sub":
        return idtoken(f, now, hybrid=False, sub=flows[j].user)
    if how == "nonce":
        return idtoken(f, now, hybrid=False, nonce=flows[j].nonce)
    if how == "issuer":
        return idtoken(f, now, hybrid=False, issuer=flows[j].issuer)
    raise ValueError(spec)


def bc_value(flows, k, v):
    """resolve '@state:j' / '@nonce:j' / '@code:j' / '@at:j' / '@rt:j' / '@user:j' / '@iss:j' to the value of flow j"""
    if isinstance(v, str) and v.startswith("@"):
        what, j = v[1:].split(":")
        f = flows[int(j)]
        return {"state": f.state, "nonce": f.nonce, "code": f.code, "at": f.at, "rt": "rt-%d" % f.n, "user": f.user,
                "iss": f.issuer}[what]
    if isinstance(v, dict):
        return {a: bc_value(flows, k, b) for a, b in v.items()}
    return v


def bc_call(w, flows, kind, k, inject=None, idt=None, routed=False, gen=0):
    """the request `kind` made FOR flow k, answered with the genuine answer for flow k + the injected members"""
    f = flows[k]
    inject = {a: bc_value(flows, k, b) for a, b in (inject or {}).items()}
    routed = routed and w.rph is not None
    if kind == "userinfo":
        claims = {"sub": f.user, "name": f.user.title()}
        claims.update(inject)
        return w.userinfo(f.issuer, f.state, claims, routed=routed)
    tok = bc_idtoken(flows, idt, k, w.clock.now)
    if kind == "token":
        params = {"access_token": f.at, "token_type": "Bearer", "expires_in": 300, "refresh_token": "rt-%d" % f.n}
        params.update(inject)
        return w.token(f.issuer, f.state, params, tok, routed=routed)
    params = {"access_token": "%s-r%d" % (f.at, gen), "token_type": "Bearer", "expires_in": 300}
    params.update(inject)
    return w.refresh(f.issuer, f.state, params, tok, routed=routed)


def bc_start(w):
    """A (flow 0, diana) finished: code redeemed with ID Token and refresh token; B (flow 1, bob) and C (flow 2, carol,
    other issuer) finalized, code not yet redeemed; D (flow 3, same client as A and B) pending: only begun"""
    flows = start(w, BC_PLAN)
    for k in (0, 1, 2):
        deliver_authz(w, flows, flows[k].issuer, k, None, k, None, None, None)
    bc_call(w, flows, "token", 0, idt="own")
    return flows


BC_STATES = [("state:finished-session", "@state:0"), ("state:pending-session", "@state:3"), ("state:other-issuer", "@state:2"),
             ("state:unknown", "Zz-not-issued"), ("state:empty", ""), ("state:own", "@state:1")]
BC_MEMBERS = [("iss:own", {"iss": "@iss:1"}), ("iss:other", {"iss": "@iss:2"}), ("iss:evil", {"iss": "https://evil.example.com"}),
              ("client_id:own", {"client_id": H.CLIENT_ID}), ("client_id:other", {"client_id": "someone-else"}),
              ("nonce:of-A", {"nonce": "@nonce:0"}), ("code:of-A", {"code": "@code:0"}),
              ("redirect_uri", {"redirect_uri": "https://evil.example.com/cb"}),
              ("response_type", {"response_type": "id_token"}), ("sub:of-A", {"sub": "@user:0"})]
BC_TOKEN_ONLY = [("refresh_token:of-A", {"refresh_token": "@rt:0"}), ("access_token:of-A", {"access_token": "@at:0"}),
                 ("__expires_at", {"__expires_at": 1}), ("__verified_id_token", {"__verified_id_token": {"sub": "@user:0"}})]
BC_IDTS = [("idt:own", "own"), ("idt:of-A", ("flow", 0)), ("idt:of-C", ("flow", 2)), ("idt:of-D", ("flow", 3)),
           ("idt:own-nonce-sub-of-A", ("sub", 0)), ("idt:nonce-of-A-own-sub", ("nonce", 0)),
           ("idt:nonce-of-D-own-sub", ("nonce", 3)), ("idt:no-nonce", "no-nonce"), ("idt:minted-by-other-issuer", ("issuer", 2))]


def bc_followups(w, flows):
    """the genuine requests of the sessions involved: each must be served from the record of ITS state"""
    bc_call(w, flows, "userinfo", 0)
    bc_call(w, flows, "refresh", 1, idt="own", gen=7)
    bc_call(w, flows, "userinfo", 1)
    bc_call(w, flows, "refresh", 0, idt="own", gen=8)
    bc_call(w, flows, "token", 2, idt="own")


def backchannel_matrix(ctx, base_world, traces, tag, quick):
    """Every request kind made for B (flow 1) x every single injected member / ID Token, direct and routed."""
    cases = []
    for kind in ("token", "refresh", "userinfo"):
        singles = [("genuine", {}, "own" if kind != "userinfo" else None)]
        if kind != "userinfo":          # the answer names a session and carries no ID Token at all, then its own
            singles += [(n + "+idt:none", {"state": v}, None) for n, v in BC_STATES]
        singles += [(n, {"state": v}, "own" if kind != "userinfo" else None) for n, v in BC_STATES]
        singles += [(n, m, "own" if kind != "userinfo" else None) for n, m in BC_MEMBERS]
        if kind != "userinfo":
            singles += [(n, m, "own") for n, m in BC_TOKEN_ONLY]
            singles += [(n, {}, spec) for n, spec in BC_IDTS] + [("idt:none", {}, None)]
            # pairs: the answer is self-consistent about ANOTHER session (its state + its ID Token / nonce / subject)
            singles += [("state+idt:of-A", {"state": "@state:0"}, ("flow", 0)),
                        ("state+idt:of-D", {"state": "@state:3"}, ("flow", 3)),
                        ("state+idt:of-C", {"state": "@state:2"}, ("flow", 2)),
                        ("state-of-A+nonce-of-A", {"state": "@state:0", "nonce": "@nonce:0"}, ("nonce", 0)),
                        ("state-of-A+iss+client_id", {"state": "@state:0", "iss": "@iss:0", "client_id": H.CLIENT_ID}, "own")]
        else:
            singles += [("access_token:of-A", {"access_token": "@at:0"}, None), ("sub:other", {"sub": "mallory"}, None),
                        ("state-of-A+sub-of-A", {"state": "@state:0", "sub": "@user:0"}, None),
                        ("id_token-claim", {"id_token": "not-a-jwt"}, None)]
        for name, inj, idt in singles:
            for routed in ((False, True) if base_world.rph is not None else (False,)):
                if quick and routed and not (name.startswith("state") or name in ("genuine", "iss:other", "idt:of-A")):
                    continue
                cases.append((kind, name, inj, idt, routed))
    for kind, name, inj, idt, routed in cases:
        w = H.fresh_world(base_world)
        flows = bc_start(w)
        if kind != "token":
            bc_call(w, flows, "token", 1, idt="own")           # B has tokens, an ID Token and a refresh token
        bc_call(w, flows, kind, 1, inject=inj, idt=idt, routed=routed, gen=1)
        bc_followups(w, flows)
        finish(ctx, w, flows, "backchannel%s:%s%s:%s" % (tag, "routed-" if routed else "", kind, name), traces)


def finalize_matrix(ctx, base_world, traces, tag):
    """client.finalize / rph.finalize for B: finalize_auth, then the code exchange and the user-info request made
    for the state of the authorization response; the token endpoint's answer names another session"""
    variants = [("genuine", {}, "own", {})] + [(n, {"state": v}, "own", {}) for n, v in BC_STATES]
    variants += [("state+idt:of-A", {"state": "@state:0"}, ("flow", 0), {}), ("idt:of-A", {}, ("flow", 0), {}),
                 ("idt:nonce-of-D-own-sub", {}, ("nonce", 3), {}), ("iss:other", {"iss": "@iss:2"}, "own", {}),
                 ("userinfo-state-of-A", {}, "own", {"state": "@state:0"}),
                 ("userinfo-sub-of-A", {}, "own", {"sub": "@user:0"}),
                 ("both-name-A", {"state": "@state:0"}, "own", {"state": "@state:0", "iss": "@iss:2"})]
    for name, inj, idt, ui_inj in variants:
        w = H.fresh_world(base_world)
        flows = start(w, BC_PLAN)
        deliver_authz(w, flows, H.ISS, 0, None, 0, None, None, None)
        bc_call(w, flows, "token", 0, idt="own")
        f = flows[1]
        body = {"access_token": f.at, "token_type": "Bearer", "expires_in": 300, "refresh_token": "rt-1"}
        body.update({a: bc_value(flows, 1, b) for a, b in inj.items()})
        ui = {"sub": f.user, "name": "Bob"}
        ui.update({a: bc_value(flows, 1, b) for a, b in ui_inj.items()})
        w.finalize(H.ISS, {"state": f.state, "code": f.code}, body, bc_idtoken(flows, idt, 1, w.clock.now), ui)
        bc_call(w, flows, "userinfo", 0)
        bc_call(w, flows, "refresh", 1, idt="own", gen=7)
        bc_call(w, flows, "refresh", 0, idt="own", gen=8)
        finish(ctx, w, flows, "finalize%s:%s" % (tag, name), traces)


def random_backchannel_history(ctx, base_world, rng, traces):
    """3-6 sessions over the issuers of the world (most of them finalized, some with tokens), then 8-16 requests of
    random kind for random sessions, each answered with 0-2 injected members naming OTHER sessions and an ID Token
    drawn from {own, another flow's, own nonce + other subject, other nonce + own subject, none}"""
    w = H.fresh_world(base_world)
    issuers = list(w.clients)
    n = rng.randint(3, 6)
    flows = start(w, [(rng.choice(issuers), rng.choice(USERS), "code") for _ in range(n)])
    for k in range(n):
        if rng.random() < 0.85:
            deliver_authz(w, flows, flows[k].issuer, k, None, k, None, None, None)
            if rng.random() < 0.6:
                bc_call(w, flows, "token", k, idt=rng.choice(["own", "own", None]))
    for g in range(rng.randint(8, 16)):
        k = rng.randrange(n)
        other = lambda: rng.randrange(n)     # noqa: E731
        kind = rng.choice(["token", "refresh", "refresh", "userinfo"])
        inj = {}
        for _ in range(rng.choice([0, 1, 1, 2])):
            m = rng.choice(["state", "state", "state", "iss", "client_id", "nonce", "code", "refresh_token", "sub"])
            inj[m] = {"state": rng.choice(["@state:%d" % other(), "@state:%d" % other(), "Zz-not-issued", ""]),
                      "iss": "@iss:%d" % other(), "client_id": rng.choice([H.CLIENT_ID, "someone-else"]),
                      "nonce": "@nonce:%d" % other(), "code": "@code:%d" % other(), "refresh_token": "@rt:%d" % other(),
                      "sub": "@user:%d" % other()}[m]
        if kind == "userinfo":
            inj.pop("refresh_token", None)
        idt = rng.choice(["own", "own", None, ("flow", other()), ("sub", other()), ("nonce", other()), "no-nonce"])
        bc_call(w, flows, kind, k, inject=inj, idt=idt, routed=rng.random() < 0.3, gen=g)
    finish(ctx, w, flows, "random-backchannel", traces)


# ---------------------------------------------------------------------------------- values the stores know, presented AS a state
RECORD_MEMBERS = ("iss", "nonce", "code", "__verified_id_token")
SID_OF_A = "sid-of-session-A"


def rich_world(clock, rph):
    """clients with the end_session service at providers that want a session id in logout tokens: the finalize
    pipeline then binds sid -> state, and logout(state) binds the state of the end-session request -> state"""
    from idpyoidc.client.defaults import DEFAULT_OIDC_SERVICES
    svcs = copy.deepcopy(DEFAULT_OIDC_SERVICES)
    svcs["end_session"] = {"class": "idpyoidc.client.oidc.end_session.EndSession"}
    wd = H.enable_token_endpoint_auth(H.make_world(
        clock, issuers=(H.ISS, H.ISS2), rph=rph, reg="dynamic", sigalg="RS256",
        extra={"services": svcs, "post_logout_redirect_uris": ["https://rp.example.com/cli/logged_out"]}))
    for iss, c in wd.clients.items():
        pi = c.get_context().provider_info
        pi["end_session_endpoint"] = iss + "/end_session"
        pi["backchannel_logout_session_required"] = True
    wd.rich = True
    return wd


def bk_complete(w, flows, k, rich, sid=None, logout=False):
    """session k gets its tokens and an ID Token (subject bound); rich: through the finalize pipeline with a session id"""
    f = flows[k]
    if rich:
        tok = idtoken(f, w.clock.now, hybrid=False)
        if sid:
            tok["claims"]["sid"] = sid
        w.finalize(f.issuer, {"state": f.state, "code": f.code},
                   {"access_token": f.at, "token_type": "Bearer", "expires_in": 300, "refresh_token": "rt-%d" % f.n}, tok,
                   {"sub": f.user, "name": f.user.title()})
        if logout:
            w.logout(f.issuer, f.state)
    else:
        deliver_authz(w, flows, f.issuer, k, None, k, None, None, None)
        bc_call(w, flows, "token", k, idt="own")


def bk_start(w, rich):
    """A (flow 0, diana) finished: subject bound (rich: also sid and a logout state); B (flow 1, bob) and C (flow 2,
    carol, other issuer) finalized, code not yet redeemed; D (flow 3, same client as A and B) only begun"""
    flows = start(w, BC_PLAN)
    bk_complete(w, flows, 0, rich, sid=SID_OF_A, logout=True)
    for k in (1, 2):
        deliver_authz(w, flows, flows[k].issuer, k, None, k, None, None, None)
    return flows


def bound_keys(w, flows):
    """every key of every client's binding map: (what it is, the key, the issuer whose client holds it, the flow it is
    bound to); then member names and values of the records (held by the first client)"""
    by_state = {(f.issuer, f.state): f for f in flows}
    states = {f.state for f in flows}
    out = []
    for iss, c in w.clients.items():
        for k, st in c.get_context().cstate._map.items():
            if k in states:
                continue
            f = by_state.get((iss, st))
            what = ("nonce" if f is not None and k == f.nonce else "subject" if k in USERS else
                    "sid" if k.startswith("sid-") else "logout-state")
            out.append(("%s-of-flow%s" % (what, "?" if f is None else f.n), k, iss, f))
    first = next(iter(w.clients))
    out += [("member-name:" + m, m, first, None) for m in RECORD_MEMBERS]
    out += [("record-value:code", flows[1].code, first, flows[1]), ("record-value:client_id", H.CLIENT_ID, first, None)]
    return out


BK_FRONT = ("authz:code", "authz:code+idtoken", "authz:iss+client_id", "authz:error", "authz:hybrid")
BK_BACK = ("token", "refresh", "userinfo")
BK_ROUTED = ("routed_token", "routed_refresh", "routed_userinfo")
BK_LOOKUP = ("session", "has_active_authentication", "get_valid_access_token", "logout", "clear_session")
BK_RPH = ("state2issuer", "client_from_session_key", "routed_session", "routed_has_active_authentication",
          "routed_get_valid_access_token", "routed_logout", "routed_clear_session")


def bk_kinds(w):
    return BK_FRONT + BK_BACK + BK_LOOKUP + ("finalize",) + ((BK_ROUTED + BK_RPH) if w.rph is not None else ())


def bk_op(w, flows, kind, K, to, f):
    """present the value K AS A STATE to the client of `to` (f: the flow K is bound to, whose genuine artefacts make
    the most convincing company for it)"""
    now = w.clock.now
    own = f if f is not None else flows[min(1, len(flows) - 1)]
    body = {"access_token": "at-presented", "token_type": "Bearer", "expires_in": 300}
    if kind == "authz:code":
        return w.authz(to, {"state": K, "code": flows[min(1, len(flows) - 1)].code})
    if kind == "authz:code+idtoken":
        return w.authz(to, {"state": K, "code": own.code}, idtoken(own, now, hybrid=True))
    if kind == "authz:iss+client_id":
        return w.authz(to, {"state": K, "code": own.code, "iss": to, "client_id": H.CLIENT_ID})
    if kind == "authz:error":
        return w.authz(to, {"state": K, "error": "access_denied"})
    if kind == "authz:hybrid":
        g = copy.copy(own)
        g.rt = "code id_token token"
        mint_own(g, now)
        return w.authz(to, {"state": K, "code": g.code, "access_token": g.aat, "token_type": "Bearer"}, g.tok)
    if kind in ("token", "routed_token"):
        return w.token(to, K, dict(body), idtoken(own, now, hybrid=False), routed=kind.startswith("routed"))
    if kind in ("refresh", "routed_refresh"):
        return w.refresh(to, K, dict(body), idtoken(own, now, hybrid=False), routed=kind.startswith("routed"))
    if kind in ("userinfo", "routed_userinfo"):
        return w.userinfo(to, K, {"sub": own.user}, routed=kind.startswith("routed"))
    if kind == "finalize":
        return w.finalize(to, {"state": K, "code": own.code}, dict(body, refresh_token="rt-presented"),
                          idtoken(own, now, hybrid=False), {"sub": own.user})
    return w.probe(kind, K, to)


def bk_followups(w, flows):
    """the genuine requests of the sessions: each is served from the record of ITS state, and the look-ups find them"""
    deliver_authz(w, flows, flows[3].issuer, 3, None, 3, None, None, None)
    bc_call(w, flows, "token", 1, idt="own")
    bc_call(w, flows, "userinfo", 0)
    bc_call(w, flows, "refresh", 0, idt="own", gen=8)
    w.probe("session", flows[0].state, flows[0].issuer)
    if w.rph is not None:
        w.probe("state2issuer", flows[1].state)
        w.probe("state2issuer", flows[2].state)


def bound_key_matrix(ctx, base_world, traces, tag):
    """EVERY key of every binding map (and the record member names / values) x {the client that holds it, another
    client} x every way a state is presented; one trace per (key, client): all presentations, then the follow-ups"""
    rich = getattr(base_world, "rich", False)
    w = H.fresh_world(base_world)
    n = len(bound_keys(w, bk_start(w, rich)))
    for j in range(n):
        for other in (False, True):
            w = H.fresh_world(base_world)
            flows = bk_start(w, rich)
            label, K, holder, f = bound_keys(w, flows)[j]
            to = holder
            if other:
                if not (label.startswith("nonce") or label.startswith("subject")):
                    continue
                to = [i for i in w.clients if i != holder][0]
            for kind in bk_kinds(w):
                bk_op(w, flows, kind, K, to, f)
            bk_followups(w, flows)
            ctx.count("bound-key-trace:" + label.split("-of-")[0].split(":")[0])
            finish(ctx, w, flows, "bound-key%s:%s%s" % (tag, label, ":at-another-client" if other else ""), traces, probes=True)


def random_bound_key_history(ctx, base_world, rng, traces):
    """3-5 sessions over the issuers of the world at random stages (pending / finalized / with tokens; rich worlds: through
    the finalize pipeline with a session id, some with a logout request), then 8-16 steps: a value the stores know under
    another role presented as a state in a random way to a random client (65%), or a genuine operation of a random session"""
    rich = getattr(base_world, "rich", False)
    w = H.fresh_world(base_world)
    issuers = list(w.clients)
    n = rng.randint(3, 5)
    flows = start(w, [(rng.choice(issuers), rng.choice(USERS), "code") for _ in range(n)])
    for k in range(n):
        r = rng.random()
        if r < 0.25:
            continue
        if r < 0.6:
            bk_complete(w, flows, k, rich, sid="sid-%d" % k if rng.random() < 0.7 else None, logout=rng.random() < 0.5)
        else:
            deliver_authz(w, flows, flows[k].issuer, k, None, k, None, None, None)
    kinds = bk_kinds(w)
    for g in range(rng.randint(8, 16)):
        if rng.random() < 0.65:
            label, K, holder, f = rng.choice(bound_keys(w, flows))
            to = holder if rng.random() < 0.7 else rng.choice(issuers)
            bk_op(w, flows, rng.choice(kinds), K, to, f)
            continue
        k = rng.randrange(len(flows))
        f = flows[k]
        what = rng.choice(["authz", "token", "userinfo", "refresh", "session", "state2issuer", "begin", "logout"])
        if what == "authz":
            deliver_authz(w, flows, f.issuer, k, None, k, None, None, None)
        elif what in ("token", "userinfo", "refresh"):
            bc_call(w, flows, what, k, idt="own" if what != "userinfo" else None, routed=rng.random() < 0.3, gen=g)
        elif what == "session":
            w.probe("session", f.state, f.issuer)
        elif what == "state2issuer":
            if w.rph is not None:
                w.probe("state2issuer", f.state)
        elif what == "begin":
            iss = rng.choice(issuers)
            st, nonce = w.begin(iss, "code")
            flows.append(Flow(len(flows), iss, st, nonce, rng.choice(USERS), "code"))
        elif rich:
            w.logout(f.issuer, f.state, routed=w.rph is not None and rng.random() < 0.3)
    finish(ctx, w, flows, "random-bound-key", traces, probes=True)


def run(ctx):
    import logging
    logging.disable(logging.CRITICAL)
    import srv
    os.chdir(os.path.join(E.BUILD, "run"))
    clock = srv.Clock(H.T0).install()
    rng = ctx.rng
    traces = []
    worlds = {
        "rph3": H.make_world(clock, issuers=(H.ISS, H.ISS2, H.ISS3), rph=True, reg="dynamic", sigalg="RS256"),
        "sa2": H.make_world(clock, issuers=(H.ISS, H.ISS2), rph=False, reg="dynamic", sigalg="RS256"),
        "rph2-static": H.make_world(clock, issuers=(H.ISS, H.ISS2), rph=True, reg="static", sigalg=None),
    }
    for name, wd in worlds.items():
        if name == "rph2-static" and ctx.quick:
            continue
        authz_matrix(ctx, wd, traces)
        token_matrix(ctx, wd, traces)
    # hybrid / implicit responses recombined member by member: the full table on a client behind an RPHandler
    # and (quick tier: the response type with all three members) on a stand-alone client
    hybrid_matrix(ctx, worlds["rph3"], traces)
    hybrid_matrix(ctx, worlds["sa2"], traces, rts=RT_HYBRID if not ctx.quick else RT_HYBRID[:1], tag="-sa")
    # other signing algorithms (the left hash is as wide as the algorithm says: 384 bits; an EC key)
    for tag, sig, rph, rts in (("-rs384", ("RS384", "iss_rsa1", "r1"), False, RT_HYBRID[:1]),
                               ("-es256", ("ES256", "iss_ec", "e1"), True, RT_HYBRID[3:4])):
        wd = H.make_world(clock, issuers=(H.ISS, H.ISS2), rph=rph, reg="dynamic", sigalg=sig[0])
        hybrid_matrix(ctx, wd, traces, rts=rts if ctx.quick else RT_HYBRID, sig=sig, tag=tag)
    # back-channel responses (answers to requests the RP made for one state) naming other sessions
    bc_worlds = {
        "-rph": H.enable_token_endpoint_auth(H.make_world(clock, issuers=(H.ISS, H.ISS2, H.ISS3), rph=True, reg="dynamic", sigalg="RS256")),
        "-sa": H.enable_token_endpoint_auth(H.make_world(clock, issuers=(H.ISS, H.ISS2), rph=False, reg="dynamic", sigalg="RS256")),
    }
    for tag, wd in bc_worlds.items():
        backchannel_matrix(ctx, wd, traces, tag, ctx.quick)
        finalize_matrix(ctx, wd, traces, tag)
    n = 360 if ctx.quick else 6000
    names = list(worlds)
    for i in range(n):
        random_history(ctx, worlds[names[i % len(names)]], rng, traces)
    one = H.make_world(clock, issuers=(H.ISS,), rph=False, reg="dynamic", sigalg="RS256")
    for i in range(60 if ctx.quick else 600):
        random_history(ctx, one, rng, traces)
    # (after the older random families, so that those draw the same histories for a seed as before)
    for i in range(120 if ctx.quick else 3000):
        random_hybrid_history(ctx, worlds[names[i % len(names)]], rng, traces)
    # (after all older random families, for the same reason)
    bcs = list(bc_worlds.values())
    for i in range(150 if ctx.quick else 3000):
        random_backchannel_history(ctx, bcs[i % len(bcs)], rng, traces)
    # values the stores know under another role presented AS a state (after all older random families, so that those
    # draw the same histories for a seed as before)
    ptraces = []
    bk_worlds = {"-rph": bc_worlds["-rph"], "-sa": bc_worlds["-sa"], "-rich-rph": rich_world(clock, True),
                 "-rich-sa": rich_world(clock, False)}
    for tag, wd in bk_worlds.items():
        bound_key_matrix(ctx, wd, ptraces, tag)
    bks = list(bk_worlds.values())
    for i in range(80 if ctx.quick else 3000):
        random_bound_key_history(ctx, bks[i % len(bks)], rng, ptraces)
    clock.uninstall()
    H.check_cases(ctx, H.TRACE_IMPORTS, H.TRACE_TYPE, "chk_trace", traces, shard=40, label="trace", diag="first_bad_step")
    H.check_cases(ctx, H.TRACE_IMPORTS, H.PTRACE_TYPE, "chk_bound_keys", ptraces, shard=20, label="ptrace",
                  diag="first_bad_pstep")


def replay(ctx, rp):
    ctx.notes.append("replay re-runs the generator with the recorded seed")
    ctx.rng.seed(rp.get("seed", ctx.seed))
    run(ctx)
