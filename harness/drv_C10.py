"""C10 driver — protocol messages survive every wire format unchanged.

For every Message subclass found by introspection and every declared parameter: schema-directed values
(wire metacharacters, non-ASCII, long, lists of 0/1/many, nested messages, extra parameters, language
tags) are put through dict, JSON, form encoding and (sampled) JWT/JWE on the REAL classes.
 * correspondence: Model/Msg.v (construct / to_dict / to_urlencoded / from_urlencoded) and the text
   layer (Lib/Utf8.v, Lib/Qs.v) are evaluated by vm_compute on the same inputs (cases of the modelled
   fragment: str/int/bool scalars, both [str] list kinds, extras, language tags); the nested-message
   deserializers (deserialize_from_one_of and every parameter deserializer that yields a nested message)
   against Model/Msg.v one_of, for nested classes and values of that fragment;
 * oracle (from the property text, independent of the model): the message after a serialise /
   deserialise cycle equals the message before (deep comparison of _dict; form encoding: up to the
   textual rendering of int and bool); for nested messages also: what the nested message says after
   construction and after every cycle is the intended content (construction from a dict IS the dict
   deserialisation, so the constructed message cannot serve as its own reference).
 * histories (round 11): the cycles above are isolated (a fresh message, one cycle, the result thrown away); the
   property quantifies over every message whatever the process did before.  `history` / `deser_histories` run
   sequences in ONE process: serialise twice, read by two classes, every party edits its own instance in place,
   read the same / a fresh identical / a fresh overlapping text again.  Oracle: a later reading gives what the
   first reading of the text gave, instances held by different parties (and the class defaults) share no
   mutable value (id() census), a message serialises the same twice.  Correspondence: the recorded history
   against Model/MsgHistory.v `hrun` (deserialisation is a function of the wire form alone; an edit stays in
   its slot), theorems C10_reading_history_independent, C10_edit_stays_in_its_instance, C10_*_after_history.
"""
import copy
import json

import engine as E
import msg_common as C
from engine import coq_str, coq_list, coq_opt, coq_pyval
from msg_common import canon, pure_json, coq_msg, coq_res, attempt, kind_sig, tier1, spec_for

RULE = ("every Message subclass (introspection) x every declared parameter x schema-directed values (21 "
        "metacharacter/non-ASCII strings, a 300-char string, ints incl. 0/negative/2^63, both booleans, lists of "
        "0/1/many with blank and spaced elements, nested messages) + extra parameters + language-tagged keys, each "
        "through dict, JSON and form encoding; per class full messages through JWT (HS256/RS256/ES256) and JWE; "
        "every nested-message parameter x 11 strings with form-encoding metacharacters (=, &, +, %, #, quotes, "
        "non-ASCII: a URL with a query, base64 padding, Room=12) at each kind of position inside the nested message "
        "(declared member, extra member, JSON object member, a nested message one level down) x {nested object, "
        "plain dict} through dict, JSON and a signed JWT (RS256/ES256), judged against the intended content; the "
        "nested-message deserializers and deserialize_from_one_of against the model on the same values; a "
        "malformed query-string stream for from_urlencoded; HISTORIES of round trips in one process: every class x "
        "{constructor, from_dict, JSON, form encoding, signed JWT, JWE read by from_jwe and by from_jwt} x {a message "
        "rich in list / dict / nested-message values and list / dict extras, a message of the modelled fragment} x "
        "another class reading the same wire form: the instance is serialised twice, read by both classes, sender and "
        "receivers edit every list / dict / nested message of THEIR instances in place, then the same text, the text of "
        "the second serialisation, of a fresh identical message and of a fresh overlapping message are read again "
        "(every later reading = the first reading of that text = the model's answer on it; id() census: no mutable "
        "value shared between instances held by different parties or with a class default); the nested-message "
        "deserializers called twice on the same nested dict / JSON text / form text with an edit in between; a case is one (class, parameter, value) cell and is "
        "non-trivial when the message was constructed and at least one wire format was exercised")
ASSUMPTIONS = ["json.dumps / json.loads are inverse on JSON values (trusted text layer, exercised by the oracle)",
               "cryptojwt JWS/JWE sign/verify and encrypt/decrypt are correct (exercised by the oracle)",
               "percent-decoded bytes that are not valid UTF-8 are outside the modelled fragment (Unmodelled)"]

ASSUMPTIONS.append("the dict wire form is delivered by value (the transport's copy of to_dict() / of the dict handed to the "
                   "constructor): Message.to_dict() and from_dict() pass list values by reference, which is aliasing inside "
                   "one party, not a wire format")

IMP = ["Lib.Base", "Lib.PyStr", "Lib.MsgSchema", "Model.Msg", "Model.MsgRules", "Model.MsgCheck"]
LISTK = ("list", "spsep")


# key type needed, key-management algorithm (everything cryptojwt implements) and content encryption algorithms
JWE_ALGS = [("RSA", "RSA1_5"), ("RSA", "RSA-OAEP"), ("RSA", "RSA-OAEP-256"), ("oct", "A128KW"), ("oct", "A192KW"), ("oct", "A256KW"),
            ("EC", "ECDH-ES"), ("EC", "ECDH-ES+A128KW"), ("EC", "ECDH-ES+A192KW"), ("EC", "ECDH-ES+A256KW")]
JWE_ENCS = ["A128CBC-HS256", "A192CBC-HS384", "A256CBC-HS512", "A128GCM", "A192GCM", "A256GCM"]

def strict_eq(a, b):
    return json.dumps(a, sort_keys=True, default=repr) == json.dumps(b, sort_keys=True, default=repr)


def form_eq(a, b):
    """b is a as form encoding can render it: equal, or an int / bool replaced by its text"""
    if isinstance(a, bool):
        return b == str(a) or b is a
    if isinstance(a, int):
        return (isinstance(b, str) and b == str(a)) or (isinstance(b, int) and not isinstance(b, bool) and a == b)
    if isinstance(a, list) and isinstance(b, list) and len(a) == len(b):
        return all(form_eq(x, y) for x, y in zip(a, b))
    return strict_eq(a, b)


# ---- histories of round trips in one process: census of mutable values and in-place edits
def reach(v, acc=None):
    """{id: object} for every mutable value reachable from v: lists, dicts, Message instances (and their _dict)"""
    from idpyoidc.message import Message
    acc = {} if acc is None else acc
    if isinstance(v, Message):
        if id(v) not in acc:
            acc[id(v)] = v
            reach(v._dict, acc)
    elif isinstance(v, dict):
        if id(v) not in acc:
            acc[id(v)] = v
            for x in v.values():
                reach(x, acc)
    elif isinstance(v, list):
        if id(v) not in acc:
            acc[id(v)] = v
            for x in v:
                reach(x, acc)
    return acc


def shared_mutables(a, b):
    """the mutable values reachable from both a and b (two messages that must be independent)"""
    ra, rb = reach(a), reach(b)
    return [ra[i] for i in ra if i in rb]


def edit_in_place(inst):
    """the holder of `inst` works on ITS instance: every list, dict and nested message reachable from it is edited
    in place (element removed, element appended, member deleted, member added), a top-level member is added.
    Returns the number of values edited."""
    from idpyoidc.message import Message
    objs = list(reach(inst).values())
    mdicts = {id(o._dict) for o in objs if isinstance(o, Message)}
    n = 0
    for o in objs:
        if isinstance(o, Message):
            if o is not inst:
                o._dict["x_edited"] = "by the holder"
                n += 1
        elif isinstance(o, list):
            if len(o) > 1:
                del o[0]
            o.append("edited by the holder")
            n += 1
        elif isinstance(o, dict) and id(o) not in mdicts:
            for k in sorted(o, key=str)[:1]:
                del o[k]
            o["x_edited"] = ["by the holder"]
            n += 1
    inst._dict["x_added_by_the_holder"] = ["new"]
    return n + 1


class Run:
    def __init__(self, ctx):
        self.ctx = ctx
        self.rng = ctx.rng
        self.classes = C.discover()
        self.byname = dict(self.classes)
        self.cases = {"construct": [], "to_dict": [], "to_url": [], "from_url": [], "one_of": [], "history": []}
        self.culprits = {}
        self.cells = 0

    # ---- is this (class, message dict) inside the modelled fragment?
    def in_fragment(self, cls, d):
        if "*" in cls.c_param or not pure_json(d):
            return False
        for k in d:
            ent = spec_for(cls, k)
            if ent is not None and not tier1(ent):
                return False
        return True

    def add_case(self, kind, name, term_in, outcome, okf, rec):
        if outcome[0] == "exc" and outcome[1] not in C.EXC:
            self.ctx.count("skipped-model:exception-class:" + outcome[1])
            return
        fn = {"construct": "m_construct", "to_dict": "m_to_dict", "to_url": "m_to_url", "from_url": "m_from_url"}[kind]
        inp = "(%s, %s)" % (coq_str(name), term_in)
        self.cases[kind].append(("(%s, %s)" % (inp, coq_res(outcome, okf)), inp, rec))

    # ---- the oracle: one serialise / deserialise cycle on the real class
    def roundtrip(self, cls, m, fmt, lax=False):
        """("ok", message after) | ("exc", exception class, stage) | ("refused", ...)"""
        m = copy.deepcopy(m)
        if lax:
            m.lax = True
        try:
            if fmt == "dict":
                w = m.to_dict()
            elif fmt == "json":
                w = m.to_json()
            else:
                w = m.to_urlencoded()
        except Exception as e:   # noqa
            return ("exc", type(e).__name__, "serialise")
        try:
            if fmt == "dict":
                m2 = cls(**copy.deepcopy(w))
            elif fmt == "json":
                m2 = cls().from_json(w)
            else:
                m2 = cls().from_urlencoded(w)
        except Exception as e:   # noqa
            return ("exc", type(e).__name__, "deserialise")
        return ("ok", canon(dict(m2._dict)), w)

    def differing(self, fmt, before, after):
        eq = form_eq if fmt == "urlencoded" else strict_eq
        return sorted(k for k in set(before) | set(after)
                      if k not in before or k not in after or not eq(before[k], after[k]))

    def fails_alone(self, cls, k, v, fmt):
        b = attempt(lambda: cls(set_defaults=False, **{k: copy.deepcopy(v)}))
        if b[0] == "exc" or k not in b[1]._dict:
            return False
        r = self.roundtrip(cls, b[1], fmt, lax=True)
        return r[0] == "exc" or bool(self.differing(fmt, canon(dict(b[1]._dict)), r[1]))

    def base_culprits(self, name, cls, fmt):
        """keys of the class's base message (its required parameters) that do not survive `fmt` on
        their own: a failure of the whole message is theirs, and is reported in their own cell"""
        ck = (name, fmt)
        if ck not in self.culprits:
            self.culprits[ck] = {k for k, v in C.base_kwargs(cls).items() if self.fails_alone(cls, k, v, fmt)}
        return self.culprits[ck]

    def family(self, ent):
        from idpyoidc.message import Message
        import typing
        if ent is None:
            return "extra"
        typ, _, ser, deser, _ = ent
        lst = isinstance(typ, list)
        elem = typ[0] if lst and len(typ) == 1 else typ
        ia = any("identity_assurance" in (getattr(f, "__module__", "") or "") for f in (ser, deser, elem) if f is not None)
        if elem in (str, int, bool):
            base = "list-of-str" if lst else "scalar"
        elif elem is dict:
            base = "dict-list" if lst else "dict"
        elif isinstance(elem, type) and issubclass(elem, Message):
            base = "message-list" if lst else "message"
        elif elem is typing.Any:
            base = "any"
        else:
            base = "opaque"
        return ("ia-" if ia else "") + base

    def violation(self, fmt, cls, key, before, after, exc, rec):
        """classify an oracle failure into a stable signature: wire-format family x parameter family"""
        ent = spec_for(cls, key) if key is not None else None
        fam = "message" if key is None else self.family(ent)
        ffam = {"urlencoded": "form", "dict": "json", "json": "json"}.get(fmt, fmt)
        sig = "%s:%s" % (ffam, fam)
        if ent is not None and tier1(ent) == "list" and fmt == "urlencoded" and key in before \
                and isinstance(before[key], list) and any(isinstance(x, str) and " " in x for x in before[key]) \
                and exc is None:
            sig = "space-in-list-element"
        what = "%s round trip of %s changes the message: %s=%r becomes %r%s" % (
            fmt, rec["class"], key, before.get(key) if isinstance(before, dict) else None,
            after.get(key, "<absent>") if isinstance(after, dict) else None, " (raises %s)" % exc if exc else "")
        self.ctx.violation(sig, what, dict(rec, format=fmt))
        self.ctx.count("violation:" + sig)

    def judge(self, fmt, name, cls, key, kwargs, before, res, rec):
        """apply the oracle to the outcome `res` of one cycle; attribute failures to a parameter"""
        ctx = self.ctx
        if res[0] == "ok":
            diff = self.differing(fmt, before, res[1])
            if not diff:
                return
            if key is None:
                self.violation(fmt, cls, diff[0], before, res[1], None, rec)
            elif key in diff:
                self.violation(fmt, cls, key, before, res[1], None, rec)
            else:
                ctx.count("difference-in-another-parameter(reported in its own cell)")
            return
        culprits = self.base_culprits(name, cls, fmt)
        if key is not None and (key in culprits or not culprits):
            if key in culprits or self.fails_alone(cls, key, kwargs[key], fmt):
                self.violation(fmt, cls, key, before, {}, res[1], rec)
            else:
                self.violation(fmt, cls, None, before, {}, res[1], rec)
            return
        if key is None:
            mine = [k for k in kwargs if k not in culprits and self.fails_alone(cls, k, kwargs[k], fmt)]
            if mine:
                self.violation(fmt, cls, mine[0], before, {}, res[1], rec)
            elif not culprits:
                self.violation(fmt, cls, None, before, {}, res[1], rec)
            else:
                ctx.count("failure-of-a-required-parameter(reported in its own cell)")
            return
        ctx.count("failure-of-a-required-parameter(reported in its own cell)")

    # ---- one cell: a class, the keyword arguments, the key under test
    def cell(self, name, cls, kwargs, key, model=True, formats=("dict", "json", "urlencoded"), oracle=True):
        ctx = self.ctx
        self.cells += 1
        rec = {"class": name, "kwargs": canon(kwargs), "key": key}
        built = attempt(lambda: cls(**copy.deepcopy(kwargs)))
        frag_in = model and self.in_fragment(cls, kwargs)
        if built[0] == "exc":
            ctx.count("construct:refused")
            ctx.case_seen(rec, False)
            if frag_in:
                self.add_case("construct", name, coq_msg(kwargs), built, coq_msg, rec)
            return
        m = built[1]
        before = canon(dict(m._dict))
        if frag_in and pure_json(before):
            self.add_case("construct", name, coq_msg(kwargs), ("ok", before), coq_msg, rec)
        frag = model and self.in_fragment(cls, before)
        ctx.case_seen(rec, True)
        ctx.count("cells:" + ("fragment" if frag else "oracle-only"))
        missing_req = [k for k, e in cls.c_param.items() if e[1] and k not in m._dict]
        for fmt in formats:
            res = self.roundtrip(cls, m, fmt)
            ctx.count("roundtrip:" + fmt)
            if fmt == "urlencoded" and res[0] == "exc" and res[1] == "MissingRequiredAttribute" and missing_req:
                ctx.count("urlencoded:refused-missing-required")
                if frag:
                    self.add_case("to_url", name, coq_msg(before), ("exc", res[1]), coq_str, rec)
                continue
            if oracle:
                self.judge(fmt, name, cls, key, kwargs, before, res, rec)
            # ---- the same steps for the model
            if not frag:
                continue
            if fmt == "dict":
                d = attempt(lambda: copy.deepcopy(m).to_dict())
                self.add_case("to_dict", name, coq_msg(before), ("ok", canon(d[1])) if d[0] == "ok" else d, coq_msg, rec)
                if d[0] == "ok" and self.in_fragment(cls, d[1]):
                    self.add_case("construct", name, coq_msg(d[1]),
                                  ("ok", res[1]) if res[0] == "ok" else ("exc", res[1]), coq_msg, rec)
            elif fmt == "urlencoded":
                w = attempt(lambda: copy.deepcopy(m).to_urlencoded())
                self.add_case("to_url", name, coq_msg(before), w, coq_str, rec)
                if w[0] == "ok" and all(ord(ch) < 128 for ch in w[1]):
                    if res[0] == "exc":
                        self.add_case("from_url", name, coq_str(w[1]), ("exc", res[1]), coq_msg, rec)
                    elif pure_json(res[1]):
                        self.add_case("from_url", name, coq_str(w[1]), ("ok", res[1]), coq_msg, rec)

    # ---- the grid
    def values_for(self, ent, quick):
        """[(value, model?, oracle?)] schema-directed values for one parameter entry.  For the
        space-separated list kinds (sp_sep_list_serializer: scope, response_type, ...) an element
        containing a space is not a valid assignment: such values go to the model only."""
        from idpyoidc.message import Message
        t1 = tier1(ent)
        rng = self.rng
        if t1 == "str":
            vs = C.str_values(rng, 5 if quick else None)
            return [(v, True, True) for v in vs]
        if t1 == "int":
            return [(v, True, True) for v in (rng.sample(C.int_values(), 3) if quick else C.int_values())]
        if t1 == "bool":
            return [(True, True, True), (False, True, True)]
        if t1 in LISTK:
            plain, spaced = C.list_values(rng)
            ps = rng.sample(plain, 3) if quick else plain
            ss = rng.sample(spaced, 1) if quick else spaced
            return [(v, True, True) for v in ps] + [(v, True, t1 == "list") for v in ss]
        # kinds outside the modelled fragment: plain valid value + boundary strings inside it
        out = []
        pv = C.plain_value(ent)
        out.append(pv)
        typ = ent[0]
        elem = typ[0] if isinstance(typ, list) and len(typ) == 1 else typ
        if elem is dict or (isinstance(elem, type) and issubclass(elem, Message) and ent[3] is not None):
            for s in (["a&b=c d", "åäö \"q\""] if quick else ["a&b=c d", "åäö \"q\"", "100%+x#y", "日本", " lead"]):
                inner = copy.deepcopy(pv[0] if isinstance(pv, list) else pv)
                if isinstance(inner, dict):
                    k0 = sorted(inner)[0] if inner else "k"
                    if isinstance(inner.get(k0), str) or not inner:
                        inner[k0] = s
                    else:
                        inner["x_extra"] = s
                    out.append([inner] if isinstance(typ, list) else inner)
        return [(v, False, True) for v in out]

    # ---- nested messages carried over dict / JSON / signed JWT
    # strings that are plain data inside JSON but have a meaning in ANOTHER wire format (form encoding)
    NESTED_STRS = ["Room=12", "https://rp.example/cb?a=1&b=2", "YWJjZA==", "k=v&k2=v2", "=", "a+b c", "100% &more",
                   "x#frag", "q\"uo'te=1", "å=ö 日本", "plain"]

    def nested_class(self, ent):
        """the Message class a nested-message parameter holds: what its deserializer builds from a plain
        dict (the declared type is often just Message: OpenIDSchema.address -> AddressClaim)"""
        from idpyoidc.message import Message
        typ, _, ser, deser, _ = ent
        lst = isinstance(typ, list)
        elem = typ[0] if lst and len(typ) == 1 else typ
        if not (isinstance(elem, type) and issubclass(elem, Message)) or deser is None:
            return None
        pv = C.plain_value(ent)
        got = attempt(lambda: deser(copy.deepcopy(pv), sformat="dict"))
        if got[0] == "ok":
            x = got[1][0] if isinstance(got[1], list) and got[1] else got[1]
            if isinstance(x, Message):
                return type(x)
        return elem

    def nested_variants(self, ent, s, depth=0):
        """[(where, plain dict)] : the plain (JSON) content of one nested message with the string `s` at each
        kind of position: a declared str member, a member outside the nested schema, a JSON object member,
        and (one level down) the same positions of a nested message of the nested message"""
        nc = self.nested_class(ent)
        if nc is None:
            return []
        pv = C.plain_value(ent)
        base = copy.deepcopy(pv[0] if isinstance(pv, list) else pv)
        if not isinstance(base, dict):
            return []
        if base == {"k": "v"}:
            base = {}
        out = []
        strp = [k for k, e in nc.c_param.items() if tier1(e) == "str"]
        if strp:
            k0 = strp[0] if strp[0] not in base or len(strp) == 1 else strp[1]
            out.append(("declared:" + k0, dict(base, **{k0: s})))
        out.append(("extra", dict(base, x_note=s)))
        out.append(("object", dict(base, x_obj={"value": s, "essential": True})))
        if depth < 1:
            for k2, e2 in nc.c_param.items():
                if k2 != "*" and self.family(e2) in ("message", "ia-message") and e2[3] is not None:
                    for where, inner in self.nested_variants(e2, s, depth + 1)[:2]:
                        out.append(("%s/%s" % (k2, where), dict(base, **{k2: inner})))
        return out

    def instance_of(self, ent, plain):
        """the nested message as an object of its class, members assigned bottom-up (nothing is parsed)"""
        nc = self.nested_class(ent)
        inst = nc()
        for k, v in plain.items():
            e2 = nc.c_param.get(k)
            if e2 is not None and isinstance(v, dict) and self.family(e2) in ("message", "ia-message") and e2[3] is not None:
                inst._dict[k] = self.instance_of(e2, v)
            else:
                inst[k] = copy.deepcopy(v)
        return inst

    @staticmethod
    def unwrap(v):
        """canonical form with the Message wrappers removed: what the value says, as JSON"""
        if isinstance(v, dict):
            if set(v) == {"__msg__", "d"}:
                return Run.unwrap(v["d"])
            return {k: Run.unwrap(x) for k, x in v.items()}
        if isinstance(v, list):
            return [Run.unwrap(x) for x in v]
        return v

    def nested_cell(self, name, cls, key, ent, where, plain, mode, jwt_keys=None):
        """one nested-message cell.  `plain` is the intended content of the nested message (JSON); the
        message is built with a nested object (mode 'instance') or from the plain dict (mode 'dict' = the dict
        wire form handed to the class).  Oracle: after construction and after every dict / JSON / signed-JWT
        cycle the nested message says exactly `plain` (nothing dropped, split or altered), and the cycle
        preserves the message (the general oracle)."""
        ctx = self.ctx
        lst = isinstance(ent[0], list)
        want = [plain] if lst else plain
        value = ([self.instance_of(ent, plain)] if lst else self.instance_of(ent, plain)) if mode == "instance" else copy.deepcopy(want)
        kw = dict(C.base_kwargs(cls))
        kw[key] = value
        rec = {"class": name, "kwargs": canon(kw), "key": key, "nested": where, "mode": mode, "intended": want}
        self.cells += 1
        built = attempt(lambda: cls(**copy.deepcopy(kw)))
        ctx.case_seen(rec, built[0] == "ok")
        ctx.count("nested:cells")
        if built[0] == "exc":
            ctx.count("nested:construct-refused")
            self.violation("dict", cls, key, {key: want}, {}, built[1], rec)
            return
        m = built[1]
        before = canon(dict(m._dict))
        if key not in before or not strict_eq(self.unwrap(before[key]), want):
            self.violation("dict", cls, key, {key: want}, {key: self.unwrap(before.get(key, "<absent>"))}, None, rec)
            ctx.count("nested:altered-at-construction")
            return
        json_ok = True
        for fmt in ("dict", "json"):
            res = self.roundtrip(cls, m, fmt)
            ctx.count("roundtrip:nested:" + fmt)
            if res[0] == "ok" and key in res[1] and not strict_eq(self.unwrap(res[1][key]), want):
                self.violation(fmt, cls, key, {key: want}, {key: self.unwrap(res[1][key])}, None, rec)
                json_ok = False
                continue
            if res[0] != "ok" or self.differing(fmt, before, res[1]):
                json_ok = False
            self.judge(fmt, name, cls, key, kw, before, res, rec)
        if jwt_keys is None or not json_ok:
            return
        kj, kt, alg = jwt_keys
        iss = m._dict.get("iss", "")
        iss = iss if isinstance(iss, str) else ""
        if iss and iss not in kj:
            kj.import_jwks(kj.export_jwks(private=True), iss)
        m1 = copy.deepcopy(m)
        w = attempt(lambda: m1.to_jwt(key=kj.get_signing_key(kt, iss), algorithm=alg))
        rj = dict(rec, jwt_alg=alg)
        if w[0] == "exc":
            self.violation("jwt", cls, key, before, {}, w[1], rj)
            return
        before = canon(dict(m1._dict))          # IdToken.pack may add iat (class-specific post-processing)
        m2 = attempt(lambda: cls().from_jwt(w[1], kj))
        ctx.count("roundtrip:nested:jwt:" + alg)
        if m2[0] == "exc":
            self.violation("jwt", cls, key, before, {}, m2[1], rj)
            return
        after = canon(dict(m2[1]._dict))
        if key not in after or not strict_eq(self.unwrap(after[key]), want):
            self.violation("jwt", cls, key, {key: want}, {key: self.unwrap(after.get(key, "<absent>"))}, None, rj)
        elif self.differing("jwt", before, after):
            self.violation("jwt", cls, self.differing("jwt", before, after)[0], before, after, None, rj)

    def nested(self):
        """every parameter that holds a nested message (or a list of them) and has a deserializer, x strings
        with form-encoding metacharacters at each kind of position inside the nested message, x {nested
        object, plain dict} x dict / JSON / signed JWT"""
        from cryptojwt.key_jar import build_keyjar
        ctx, rng = self.ctx, self.rng
        kj = build_keyjar([{"type": "RSA", "use": ["sig"]}, {"type": "EC", "crv": "P-256", "use": ["sig"]}])
        algs = [("RSA", "RS256"), ("EC", "ES256")]
        for name, cls in self.classes:
            for key, ent in cls.c_param.items():
                if key == "*" or self.family(ent) not in ("message", "message-list", "ia-message", "ia-message-list"):
                    continue
                if self.nested_class(ent) is None:
                    continue
                ctx.count("nested:parameters")
                strs = self.NESTED_STRS if not ctx.quick else self.NESTED_STRS[:2] + rng.sample(self.NESTED_STRS[2:], 3)
                for i, s in enumerate(strs):
                    vs = self.nested_variants(ent, s)
                    if ctx.quick and i >= 2:
                        vs = vs[:2]
                    for j, (where, plain) in enumerate(vs):
                        for mode in ("instance", "dict"):
                            jw = (kj,) + (rng.choice(algs) if ctx.quick else algs[(i + j) % 2]) \
                                if (j == 0 and (i < 2 or not ctx.quick)) else None
                            self.nested_cell(name, cls, key, ent, where, plain, mode, jwt_keys=jw)

    def one_of_cases(self):
        """correspondence for the nested-message deserializers (model: Model/Msg.v one_of).  Functions under
        test, all found by introspection: every module-level deserialize_from_one_of of the message package
        (with every nested class that occurs in a schema) and every deserializer of a scalar nested-message
        parameter (dict and JSON hand it the nested dict; those built on the helper also get form text).
        Inputs: the nested variants above that lie in the modelled fragment of the nested class."""
        ctx = self.ctx
        targets, qual = self.nested_targets()
        wire = {"dict": "WDict", "json": "WJson", "urlencoded": "WUrl"}
        from idpyoidc.message import Message
        self.one_of_loop(ctx, targets, qual, wire, Message)

    def nested_targets(self):
        """[(label, fn(value, sformat), nested class, parameter entry, formats)], {class: qualified name}"""
        import sys
        targets, ncs, desers = [], {}, {}
        for name, cls in self.classes:
            for key, ent in cls.c_param.items():
                if key == "*" or self.family(ent) not in ("message", "ia-message") or ent[3] is None:
                    continue
                nc = self.nested_class(ent)
                if nc is None:
                    continue
                ncs.setdefault(nc, ent)
                desers.setdefault(ent[3], (nc, ent))
        qual = {c: n for n, c in self.classes}
        for mn, mod in sorted(sys.modules.items()):
            h = getattr(mod, "deserialize_from_one_of", None) if mn.startswith("idpyoidc.message") else None
            if callable(h) and getattr(h, "__module__", None) == mn:
                for nc, ent in sorted(ncs.items(), key=lambda x: x[0].__module__ + x[0].__qualname__):
                    targets.append((C.fname(h), (lambda val, fmt, h=h, nc=nc: h(val, nc, fmt)), nc, ent, ("dict", "json", "urlencoded")))
        for d, (nc, ent) in sorted(desers.items(), key=lambda x: C.fname(x[0])):
            on_helper = "deserialize_from_one_of" in getattr(getattr(d, "__code__", None), "co_names", ())
            targets.append((C.fname(d), (lambda val, fmt, d=d: d(val, sformat=fmt)), nc, ent,
                            ("dict", "json", "urlencoded") if on_helper else ("dict", "json")))
        return targets, qual

    def one_of_loop(self, ctx, targets, qual, wire, Message):
        for label, fn, nc, ent, fmts in targets:
            if nc not in qual:
                ctx.count("one_of:skipped(nested class is not a class of the table)")
                continue
            for s in self.NESTED_STRS:
                for where, plain in self.nested_variants(ent, s):
                    if not self.in_fragment(nc, plain):
                        ctx.count("one_of:outside-fragment")
                        continue
                    for fmt in fmts:
                        if fmt == "urlencoded":
                            t = attempt(lambda: nc(**copy.deepcopy(plain)).to_urlencoded())
                            if t[0] != "ok":
                                continue
                            val, term = t[1], "(VStr %s)" % coq_str(t[1])
                        else:
                            val, term = copy.deepcopy(plain), coq_pyval(plain)
                        out = attempt(lambda: fn(val, fmt))
                        rec = {"deserializer": label, "class": qual[nc], "format": fmt, "value": canon(val)}
                        ctx.case_seen(rec, out[0] == "ok")
                        ctx.count("one_of:" + fmt)
                        if out[0] == "ok":
                            if not isinstance(out[1], Message):
                                ctx.mismatch("nested-message deserializer %s returned %r, not a message" % (label, out[1]), rec)
                                continue
                            out = ("ok", canon(dict(out[1]._dict)))
                            if not pure_json(out[1]):
                                ctx.unmodelled += 1
                                continue
                        elif out[1] not in C.EXC:
                            ctx.count("skipped-model:exception-class:" + out[1])
                            continue
                        inp = "(%s, %s, %s)" % (coq_str(qual[nc]), wire[fmt], term)
                        self.cases["one_of"].append(("(%s, %s)" % (inp, coq_res(out, coq_msg)), inp, rec))

    # ---- every listed known finding has a fixed witness, replayed first on every run
    WITNESSES = [
        ("space-in-list-element", "idpyoidc.message.oidc.RegistrationRequest",
         {"redirect_uris": ["https://a/b"], "contacts": ["John Doe", "x@y"]}, "contacts", "urlencoded"),
        ("form:message", "idpyoidc.message.oidc.OpenIDSchema", {"sub": "s", "_claim_names": {"k": "v"}}, "_claim_names", "urlencoded"),
        ("form:message", "idpyoidc.message.oidc.OpenIDSchema", {"sub": "s", "address": {"street_address": "a&b=c d"}}, "address", "urlencoded"),
        ("form:message-list", "idpyoidc.message.oidc.JRD", {"links": [{"rel": "v"}]}, "links", "urlencoded"),
        ("form:dict", "idpyoidc.message.oidc.RegistrationRequest", {"redirect_uris": ["v"], "jwks": {"k": "v"}}, "jwks", "urlencoded"),
        ("form:extra", "idpyoidc.message.oauth2.AccessTokenRequest",
         {"grant_type": "v", "code": "v", "redirect_uri": "v", "x_one": ["single"]}, "x_one", "urlencoded"),
        ("form:extra", "idpyoidc.message.oauth2.AccessTokenRequest",
         {"grant_type": "v", "code": "v", "redirect_uri": "v", "x_dict": {"a": 1}}, "x_dict", "urlencoded"),
        ("form:ia-message", "idpyoidc.message.oidc.identity_assurance.UtilityBill", {"type": "v", "provider": {"k": "v"}}, "provider", "urlencoded"),
        ("form:ia-message-list", "idpyoidc.message.oidc.identity_assurance.Document",
         {"type": "v", "check_details": [{"check_method": "v"}]}, "check_details", "urlencoded"),
        ("form:ia-scalar", "idpyoidc.message.oidc.identity_assurance.CheckDetails", {"check_method": "v", "time": 1600000000}, "time", "urlencoded"),
        ("json:ia-scalar", "idpyoidc.message.oidc.identity_assurance.CheckDetails", {"check_method": "v", "time": 1600000000}, "time", "json"),
        ("json:ia-message", "idpyoidc.message.oidc.identity_assurance.ElectronicRecord", {"type": "v", "record": {"type": "v"}}, "record", "dict"),
        ("json:ia-message-list", "idpyoidc.message.oidc.identity_assurance.Document",
         {"type": "v", "verifier": [{"organization": "v", "txn": "v"}]}, "verifier", "json"),
    ]

    def witnesses(self):
        byname = dict(self.classes)
        for sig, cname, kw, key, fmt in self.WITNESSES:
            if cname not in byname:
                self.ctx.notes.append("witness class %s no longer exists" % cname)
                continue
            n0 = len([v for v in self.ctx.violations if v["sig"] == sig])
            self.cell(cname, byname[cname], kw, key, formats=(fmt,))
            if len([v for v in self.ctx.violations if v["sig"] == sig]) == n0:
                self.ctx.notes.append("witness of known finding %s no longer fails (%s %s via %s)" % (sig, cname, key, fmt))
                self.ctx.count("witness-no-longer-fails:" + sig)

    # ---- cross-class independence: a class's wire form must not depend on what other classes did
    def cross_class(self):
        """Parameter names that resolve differently in different classes (str here, [str] there, an
        extra elsewhere).  For every such name and every ORDERED pair of classes with different
        resolutions, both classes form-encode the same language-tagged key (a tag unique to the pair, so
        each pair starts from a state no class has touched for that key) one after the other in this
        process.  Oracle: the usual round-trip equality for each cell, and the text a class emits for a
        key must be the same whether it is the first or the second class to use it."""
        from urllib.parse import quote_plus
        ctx = self.ctx
        res = {}
        for name, cls in self.classes:
            if "*" in cls.c_param:
                continue
            for k, e in cls.c_param.items():
                t1 = tier1(e)
                if t1:
                    res.setdefault(k, {}).setdefault(t1, name)
        vals = {"str": "v w&=x", "int": 7, "bool": True, "list": ["p", "q", "r"], "spsep": ["p", "q", "r"],
                "extra": ["p", "q", "r"], "extra-str": "v w&=x"}
        seq = 0
        first_text = {}
        for n in sorted(res):
            reps = sorted(res[n].items())
            lacking = [cn for cn, c in self.classes if n not in c.c_param and "*" not in c.c_param]
            if lacking and any(k in ("list", "spsep") for k, _ in reps):
                reps += [("extra", lacking[0]), ("extra-str", lacking[-1])]
            if len(reps) < 2:
                continue
            pairs = [(a, b) for a in reps for b in reps if a[0] != b[0] and not (a[0].startswith("extra") and b[0].startswith("extra"))]
            for (ra, ca), (rb, cb) in pairs:
                seq += 1
                tag = "#x%d" % seq
                for pos, (r, cname) in enumerate(((ra, ca), (rb, cb))):
                    cls = self.byname[cname]
                    kw = dict(C.base_kwargs(cls))
                    kw[n + tag] = copy.deepcopy(vals[r])
                    nv0 = len(ctx.violations)
                    self.cell(cname, cls, kw, n + tag, formats=("urlencoded",))
                    ctx.count("cross-class:cells")
                    b = attempt(lambda: cls(**copy.deepcopy(kw)).to_urlencoded())
                    if b[0] != "ok":
                        continue
                    text = b[1].replace(quote_plus(n + tag), quote_plus(n) + "%23TAG")
                    key = (cname, n, r)
                    if pos == 0:
                        first_text.setdefault(key, text)
                    elif key in first_text and first_text[key] != text and len(ctx.violations) == nv0:
                        rec = {"class": cname, "kwargs": canon(kw), "key": n + tag, "after_class": ca,
                               "text_when_first": first_text[key], "text_now": text}
                        ctx.violation("cross-class:form", "%s form-encodes %s differently after %s used the same key: %r vs %r"
                                      % (cname, n + tag, ca, text, first_text[key]), rec)

    def grid(self):
        ctx, rng = self.ctx, self.rng
        quick = ctx.quick
        for name, cls in self.classes:
            base = C.base_kwargs(cls)
            b = attempt(lambda: cls(**copy.deepcopy(base)))
            if b[0] == "exc":
                ctx.count("base-message-refused")
                ctx.notes.append("base message of %s refused: %s" % (name, b[1]))
                base = {}
            params = [(k, e) for k, e in cls.c_param.items() if k != "*"]
            for k, ent in params:
                for v, mod, orc in self.values_for(ent, quick):
                    kw = dict(base)
                    kw[k] = v
                    self.cell(name, cls, kw, k, model=mod, oracle=orc)
            # language-tagged keys (str parameters), extras
            strp = [k for k, e in params if tier1(e) == "str"]
            for k in (rng.sample(strp, min(2, len(strp))) if quick else strp):
                for tag, v in (("#fr", "Nom é&=x"), ("#zh-Hant", "日本 語"), ("#", "x y")):
                    kw = dict(base)
                    kw[k + tag] = v
                    self.cell(name, cls, kw, k + tag)
            lstp = [k for k, e in params if tier1(e) in LISTK]
            for k in (rng.sample(lstp, min(2, len(lstp))) if quick else lstp):
                kw = dict(base)
                kw[k + "#fr"] = ["un", "deux", "trois"]
                self.cell(name, cls, kw, k + "#fr")
            extras = [("x_extra", "a b&c=d%#\"'å+"), ("x-ü", "v"), ("x_list", ["p", "q r"]), ("x_int", 5),
                      ("x_bool", True), ("x_one", ["single"]), ("x_dict", {"a": 1, "b": ["c d"]}), ("", "emptykey")]
            for ek, ev in (rng.sample(extras, 3) if quick else extras):
                kw = dict(base)
                kw[ek] = ev
                self.cell(name, cls, kw, ek)
            # a message with several parameters at once
            for _ in range(1 if quick else 4):
                kw = dict(base)
                for k, ent in rng.sample(params, min(len(params), rng.randint(2, 6))):
                    vs = [x for x in self.values_for(ent, True) if x[2]]
                    kw[k] = rng.choice(vs)[0]
                self.cell(name, cls, kw, None)

    # ---- from_urlencoded on hand-made and malformed query strings (model vs implementation only)
    def malformed(self):
        ctx, rng = self.ctx, self.rng
        frag = [(n, c) for n, c in self.classes if "*" not in c.c_param]
        texts = ["", "&", "a", "a=", "=x", "a=1&a=2", "a=1&&b=2", "a=%zz", "a=%41%42", "a+b=c+d", "a=b=c",
                 "%61=1", "a=1&b", "a=%C3%A5", "x%23y=1", "a=1;b=2", "?a=1", "a=+", "a=%20"]
        n = 150 if ctx.quick else 3000
        for i in range(n):
            name, cls = rng.choice(frag)
            keys = list(cls.c_param) or ["k"]
            if i < len(texts) * 3:
                t = texts[i % len(texts)]
                if "a" in t and rng.random() < 0.7:
                    t = t.replace("a", rng.choice(keys), 1)
            else:
                parts = []
                for _ in range(rng.randint(1, 5)):
                    k = rng.choice(keys + ["zz", rng.choice(keys) + "%23fr", rng.choice(keys) + "#de"])
                    v = rng.choice(["1", "x+y", "a%20b", "%C3%A5", "", "p%26q", "-7", "True", "a b", "%2B", "x%3Dy"])
                    parts.append(rng.choice([k + "=" + v, k + "=" + v, k, "=" + v, ""]))
                t = "&".join(parts)
            rec = {"class": name, "from_urlencoded": t}
            m2 = attempt(lambda: cls().from_urlencoded(t))
            ctx.case_seen(rec, m2[0] == "ok")
            ctx.count("malformed:" + ("accepted" if m2[0] == "ok" else m2[1]))
            after = ("ok", canon(dict(m2[1]._dict))) if m2[0] == "ok" else m2
            if m2[0] == "exc" or pure_json(after[1]):
                self.add_case("from_url", name, coq_str(t), after, coq_msg, rec)

    # ---- the text layer: utf-8, quote_plus/urlencode, parse_qsl
    def text_layer(self):
        from urllib.parse import urlencode, parse_qsl
        ctx, rng = self.ctx, self.rng
        alpha = list("ab =&+%#?;/~._-*\"'\\") + ["å", "日", "\U0001f600", "\x7f", "\x00", "\ud800", "߿", "ࠀ", "￿", "\U00010000"]
        n = 120 if ctx.quick else 3000
        enc, dec, ue, pq = [], [], [], []
        for _ in range(n):
            s = "".join(rng.choice(alpha) for _ in range(rng.randint(0, 6)))
            try:
                b = list(s.encode("utf-8"))
                t = "(%s, Some %s)" % (coq_str(s), coq_list(["%d%%N" % x for x in b], "N"))
            except UnicodeEncodeError:
                t = "(%s, None)" % coq_str(s)
            enc.append((t, coq_str(s), {"utf8_encode": s}))
            raw = bytes(rng.choice([0x41, 0x7f, 0x80, 0xbf, 0xc0, 0xc2, 0xdf, 0xe0, 0xa0, 0xed, 0x9f, 0xef, 0xf0, 0x90, 0xf4, 0x8f, 0xf5])
                        for _ in range(rng.randint(0, 5))) if rng.random() < 0.6 else s.encode("utf-8", "ignore")
            try:
                r = "Some %s" % coq_str(raw.decode("utf-8"))
            except UnicodeDecodeError:
                r = "None"
            bl = coq_list(["%d%%N" % x for x in raw], "N")
            dec.append(("(%s, %s)" % (bl, r), bl, {"utf8_decode": list(raw)}))
            pairs = [("".join(rng.choice(alpha) for _ in range(rng.randint(0, 4))),
                      "".join(rng.choice(alpha) for _ in range(rng.randint(0, 5)))) for _ in range(rng.randint(0, 3))]
            pl = coq_list(["(%s, %s)" % (coq_str(k), coq_str(v)) for k, v in pairs], "(pystr * pystr)")
            try:
                r = "Some %s" % coq_str(urlencode(pairs))
            except UnicodeEncodeError:
                r = "None"
            ue.append(("(%s, %s)" % (pl, r), pl, {"urlencode": pairs}))
            q = "".join(rng.choice(list("ab=&+%#12Cc3A5 ;")) for _ in range(rng.randint(0, 14)))
            if rng.random() < 0.4:
                try:
                    q = urlencode(pairs)
                except UnicodeEncodeError:
                    pass
            out = parse_qsl(q)
            if any("�" in k or "�" in v for k, v in out):
                ctx.unmodelled += 1
                continue
            pq.append(("(%s, Ok %s)" % (coq_str(q), coq_list(["(%s, %s)" % (coq_str(k), coq_str(v)) for k, v in out], "(pystr * pystr)")),
                       coq_str(q), {"parse_qsl": q}))
        for c in enc + dec + ue + pq:
            ctx.case_seen(c[2], True)
        imp = ["Lib.Base", "Lib.PyStr", "Lib.Utf8", "Lib.Qs", "Lib.MsgSchema", "Model.Msg", "Model.MsgCheck"]
        C.check_cases(ctx, imp, "pystr * option (list N)", "chk_utf8_enc", "utf8_encode", enc, "utf8enc")
        C.check_cases(ctx, imp, "list N * option pystr", "chk_utf8_dec", "utf8_decode", dec, "utf8dec")
        C.check_cases(ctx, imp, "list (pystr * pystr) * option pystr", "chk_urlencode", "urlencode", ue, "urlencode")
        C.check_cases(ctx, imp, "pystr * res (list (pystr * pystr))", "chk_parse_qsl", "parse_qsl", pq, "parseqsl")

    # ---- JWT / JWE: oracle only (crypto and JSON text are trusted)
    jwe_sweep_left = 3

    def jwt(self):
        from cryptojwt.key_jar import build_keyjar
        from idpyoidc.message.oidc import IdToken
        ctx, rng = self.ctx, self.rng
        kj = build_keyjar([{"type": "RSA", "use": ["sig"]}, {"type": "RSA", "use": ["enc"]},
                           {"type": "EC", "crv": "P-256", "use": ["sig"]}, {"type": "EC", "crv": "P-256", "use": ["enc"]}])
        kj.add_symmetric("", "A1B2C3D4E5F6G7H8A1B2C3D4E5F6G7H8")
        kj.import_jwks(kj.export_jwks(private=True), "v")
        kj.add_symmetric("v", "A1B2C3D4E5F6G7H8A1B2C3D4E5F6G7H8")
        sig = [("oct", "HS256"), ("RSA", "RS256"), ("EC", "ES256"), ("RSA", "PS256")]
        encs = [("RSA", "RSA-OAEP", "A128CBC-HS256"), ("EC", "ECDH-ES", "A128GCM"), ("RSA", "RSA1_5", "A256GCM")]
        todo = self.classes if not ctx.quick else rng.sample(self.classes, 36)
        for name, cls in todo:
            base = C.base_kwargs(cls)
            kw = dict(base)
            params = [(k, e) for k, e in cls.c_param.items() if k != "*" and tier1(e)]
            for k, ent in rng.sample(params, min(len(params), 5)):
                kw[k] = rng.choice([x for x in self.values_for(ent, True) if x[2]])[0]
            kw["x_extra"] = "a b&c=d%#\"'å+"
            b = attempt(lambda: cls(**copy.deepcopy(kw)))
            if b[0] == "exc":
                ctx.count("jwt:base-refused")
                continue
            is_idt = issubclass(cls, IdToken)
            jwks = kj.export_jwks(private=True)
            jr = self.roundtrip(cls, b[1], "json")
            if jr[0] != "ok" or self.differing("json", canon(dict(b[1]._dict)), jr[1]):
                ctx.count("jwt:skipped(JSON layer already fails, reported as json:*)")
                continue

            def judge_jw(fmt, before, m2, rec):
                if m2[0] == "exc":
                    self.violation(fmt, cls, None, before, {}, m2[1], rec)
                    return
                after = canon(dict(m2[1]._dict))
                diff = self.differing(fmt, before, after)
                if diff:
                    self.violation(fmt, cls, diff[0], before, after, None, rec)
            for kt, alg in (sig if not ctx.quick else [rng.choice(sig)]):
                m = cls(**copy.deepcopy(kw))
                before = canon(dict(m._dict))
                rec = {"class": name, "kwargs": canon(kw), "jwt_alg": alg}
                iss = m._dict.get("iss", "")
                iss = iss if isinstance(iss, str) else ""
                if iss and iss not in kj:       # the verifier knows the issuer's keys
                    kj.import_jwks(jwks, iss)
                    kj.add_symmetric(iss, "A1B2C3D4E5F6G7H8A1B2C3D4E5F6G7H8")
                keys = kj.get_signing_key(kt, iss)
                w = attempt(lambda: m.to_jwt(key=keys, algorithm=alg))
                ctx.case_seen(rec, w[0] == "ok")
                if w[0] == "exc":
                    self.violation("jwt", cls, None, before, {}, w[1], rec)
                    continue
                if is_idt:      # IdToken.pack adds iat (stated class-specific post-processing)
                    before = canon(dict(m._dict))
                judge_jw("jwt", before, attempt(lambda: cls().from_jwt(w[1], kj)), rec)
                ctx.count("roundtrip:jwt:" + alg)
            for kt, alg, enc in (encs if not ctx.quick else [rng.choice(encs)]):
                m = cls(**copy.deepcopy(kw))
                before = canon(dict(m._dict))
                rec = {"class": name, "kwargs": canon(kw), "jwe": [alg, enc]}
                ek = kj.get_encrypt_key(kt, "")
                w = attempt(lambda: m.to_jwe(ek, alg=alg, enc=enc))
                ctx.case_seen(rec, w[0] == "ok")
                if w[0] == "exc":
                    self.violation("jwe", cls, None, before, {}, w[1], rec)
                    continue
                judge_jw("jwe", before, attempt(lambda: cls().from_jwe(w[1], ek)), rec)
                ctx.count("roundtrip:jwe:" + alg)
            # the encrypted JWT as a wire format of its own: every key-management algorithm x content encryption the
            # JOSE library offers, written with to_jwe (and, for the signed variant, to_jwt wrapped into a JWE) and read
            # back the way a receiver does, with from_jwt and its key jar
            combos = [(kt, alg, enc) for kt, alg in JWE_ALGS for enc in JWE_ENCS]
            picks = rng.sample(combos, 3 if ctx.quick else 12)
            if self.jwe_sweep_left > 0:        # a full sweep over the algorithms on the first classes
                self.jwe_sweep_left -= 1
                picks = [(kt, alg, rng.choice(JWE_ENCS)) for kt, alg in JWE_ALGS] + picks
            for kt, alg, enc in picks:
                m = cls(**copy.deepcopy(kw))
                before = canon(dict(m._dict))
                rec = {"class": name, "kwargs": canon(kw), "jwe_via_from_jwt": [alg, enc]}
                ek = kj.get_encrypt_key(kt, "")
                w = attempt(lambda: m.to_jwe(ek, alg=alg, enc=enc))
                ctx.case_seen(rec, w[0] == "ok")
                if w[0] == "exc":
                    self.violation("jwe", cls, None, before, {}, w[1], rec)
                    continue
                judge_jw("jwe", before, attempt(lambda: cls().from_jwt(w[1], kj)), rec)
                ctx.count("roundtrip:jwe-from_jwt:" + alg)
                if not is_idt:
                    # signed, then encrypted
                    from cryptojwt.jwe.jwe import JWE
                    skt, salg = rng.choice(sig)
                    iss = m._dict.get("iss", "")
                    iss = iss if isinstance(iss, str) else ""
                    if iss and iss not in kj:
                        kj.import_jwks(jwks, iss)
                        kj.add_symmetric(iss, "A1B2C3D4E5F6G7H8A1B2C3D4E5F6G7H8")
                    sw = attempt(lambda: m.to_jwt(key=kj.get_signing_key(skt, iss), algorithm=salg))
                    if sw[0] == "exc":
                        continue
                    rec2 = {"class": name, "kwargs": canon(kw), "jws_in_jwe": [salg, alg, enc]}
                    w2 = attempt(lambda: JWE(sw[1], alg=alg, enc=enc, cty="JWT").encrypt(keys=ek))
                    if w2[0] == "exc":
                        self.violation("jwe", cls, None, before, {}, w2[1], rec2)
                        continue
                    judge_jw("jwe", before, attempt(lambda: cls().from_jwt(w2[1], kj)), rec2)
                    ctx.count("roundtrip:jws-in-jwe:" + alg)

    # ---- histories of round trips in one process -------------------------------------------------------------
    # Deserialisation is a FUNCTION of the wire text alone: what a class reads from a text must not depend on
    # what this process received, edited or serialised before, and two received instances share no mutable value.
    HIST_FORMATS = ("dict", "from_dict", "json", "urlencoded", "jwt", "jwe", "jwe-from_jwt")
    HIST_FFAM = {"dict": "json", "from_dict": "json", "json": "json", "urlencoded": "form", "jwt": "jwt",
                 "jwe": "jwe", "jwe-from_jwt": "jwe"}
    HIST_SECRET = "A1B2C3D4E5F6G7H8A1B2C3D4E5F6G7H8"
    HIST_SIG = [("oct", "HS256"), ("RSA", "RS256"), ("EC", "ES256"), ("RSA", "PS256")]
    HIST_ENC = [("RSA", "RSA-OAEP", "A128CBC-HS256"), ("EC", "ECDH-ES", "A128GCM"), ("RSA", "RSA1_5", "A256GCM")]
    _hk = None
    _hkw = None

    def hist_keys(self):
        if self._hk is None:
            from cryptojwt.key_jar import build_keyjar
            kj = build_keyjar([{"type": "RSA", "use": ["sig"]}, {"type": "RSA", "use": ["enc"]},
                               {"type": "EC", "crv": "P-256", "use": ["sig"]}, {"type": "EC", "crv": "P-256", "use": ["enc"]}])
            kj.add_symmetric("", self.HIST_SECRET)
            self._hk = {"kj": kj, "jwks": kj.export_jwks(private=True)}
        return self._hk

    def h_send(self, fmt, m, hk, alg):
        """the wire form of the instance m itself (dict: the transport's own copy of what to_dict() returned)"""
        if fmt in ("dict", "from_dict"):
            return copy.deepcopy(m.to_dict())
        if fmt == "json":
            return m.to_json()
        if fmt == "urlencoded":
            return m.to_urlencoded()
        kj = hk["kj"]
        if fmt == "jwt":
            iss = m._dict.get("iss", "")
            iss = iss if isinstance(iss, str) else ""
            if iss and iss not in kj:       # the verifier knows the issuer's keys
                kj.import_jwks(hk["jwks"], iss)
                kj.add_symmetric(iss, self.HIST_SECRET)
            return m.to_jwt(key=kj.get_signing_key(alg[0], iss), algorithm=alg[1])
        return m.to_jwe(kj.get_encrypt_key(alg[0], ""), alg=alg[1], enc=alg[2])

    def h_recv(self, fmt, cls, w, hk, alg):
        """(instance | None, ("ok", canonical _dict) | ("exc", class)) : a receiver reads the wire form with `cls`"""
        def go():
            if fmt == "dict":
                return cls(**copy.deepcopy(w))
            if fmt == "from_dict":
                return cls().from_dict(copy.deepcopy(w))
            if fmt == "json":
                return cls().from_json(w)
            if fmt == "urlencoded":
                return cls().from_urlencoded(w)
            if fmt == "jwe":
                return cls().from_jwe(w, hk["kj"].get_encrypt_key(alg[0], ""))
            return cls().from_jwt(w, hk["kj"])
        try:
            m = go()
        except Exception as e:   # noqa
            return None, ("exc", type(e).__name__)
        return m, ("ok", canon(dict(m._dict)))

    def hist_kwargs(self, name, cls, group, rich):
        """a message of the class with as many list-valued, dict-valued and nested-message parameters as the class
        accepts and `group` (json | urlencoded) can serialise, plus list / dict extras; rich=False: parameters of
        the modelled fragment only"""
        if self._hkw is None:
            self._hkw = {}
        ck = (name, group, rich)
        if ck not in self._hkw:
            def ok(kw):
                b = attempt(lambda: cls(**copy.deepcopy(kw)))
                return b[0] == "ok" and attempt(lambda: b[1].to_json() if group == "json" else b[1].to_urlencoded())[0] == "ok"
            kw = dict(C.base_kwargs(cls))
            if not ok(kw):
                kw = {}
            cands, nstr = [], 0
            for k, ent in cls.c_param.items():
                if k == "*":
                    continue
                t1 = tier1(ent)
                if t1 in LISTK:
                    cands.append((k, ["p", "q", "r"]))
                elif t1 == "str" and nstr < 2:
                    nstr += 1
                    cands.append((k, "a b&c=d %41+é"))
                elif t1 is None and rich:
                    cands.append((k, C.plain_value(ent)))
            cands += [("x_list", ["p", "q r", "s"]), ("x_dict", {"a": 1, "b": ["c d", "e"]})]
            if rich:
                cands.append(("x_objs", [{"k": ["v", "w"]}, {"k2": {"deep": ["x"]}}]))
            for k, v in cands:
                trial = dict(kw)
                trial[k] = copy.deepcopy(v)
                if (not rich and not self.in_fragment(cls, trial)) or not ok(trial):
                    continue
                kw = trial
            self._hkw[ck] = kw
        return copy.deepcopy(self._hkw[ck])

    default_ids = frozenset()
    saved_defaults = None

    def save_defaults(self):
        """the class defaults (c_default) as they are before any history; the mutable values among them by id"""
        if self.saved_defaults is None:
            self.saved_defaults = [(c, copy.deepcopy(c.c_default)) for _, c in self.classes]
            ids = set()
            for _, c in self.classes:
                ids |= set(reach(c.c_default))
            self.default_ids = frozenset(ids)

    def restore_defaults(self):
        """a history that edited a value shared with a class default has changed the class for the rest of the
        process: put the defaults back (in place, the objects keep their identity) so that every history and every
        other family starts from the class as defined"""
        n = 0
        for c, saved in self.saved_defaults or ():
            if not strict_eq(canon(c.c_default), canon(saved)):
                n += 1
                for k in list(c.c_default):
                    if k not in saved:
                        del c.c_default[k]
                for k, v in saved.items():
                    cur = c.c_default.get(k)
                    if isinstance(cur, list) and isinstance(v, list):
                        cur[:] = copy.deepcopy(v)
                    elif isinstance(cur, dict) and isinstance(v, dict):
                        cur.clear()
                        cur.update(copy.deepcopy(v))
                    else:
                        c.c_default[k] = copy.deepcopy(v)
        if n:
            self.ctx.count("history:class-defaults-restored", n)

    def history(self, name, cls, kw, fmt, other, alg=None, model=False):
        self.save_defaults()
        try:
            self.history_(name, cls, kw, fmt, other, alg, model)
        finally:
            self.restore_defaults()

    def history_(self, name, cls, kw, fmt, other, alg=None, model=False):
        """one history in this process, for one class, one message and one wire format:
             the sender serialises its instance twice; the text is read by the class and by another class
             (baselines); both receivers and the sender edit THEIR instances in place; the same text, the text of
             the second serialisation, the text of a fresh identical message and the text of a fresh overlapping
             message are read again.
           Oracle: every later reading of a text gives what the first reading of that text gave (and, where the
           isolated cycle preserved the message, the message that was serialised); no two instances held by
           different parties share a mutable value; serialising an instance twice gives the same wire form."""
        ctx = self.ctx
        hk = self.hist_keys()
        oname, ocls = other
        ffam = self.HIST_FFAM[fmt]
        rec = {"class": name, "kwargs": canon(kw), "history": fmt, "other_class": oname, "alg": list(alg) if alg else None}
        self.cells += 1
        b = attempt(lambda: cls(**copy.deepcopy(kw)))
        if b[0] == "exc":
            ctx.count("history:construct-refused")
            ctx.case_seen(rec, False)
            return
        m = b[1]
        sent = canon(dict(m._dict))
        w = attempt(lambda: self.h_send(fmt, m, hk, alg))
        if w[0] == "exc":
            ctx.count("history:not-serialisable:" + fmt)
            ctx.case_seen(rec, False)
            return
        w = w[1]
        ctx.case_seen(rec, True)
        ctx.count("history:" + fmt)
        textual = fmt in ("dict", "from_dict", "json", "urlencoded")      # the wire form is determined by the message
        eq = form_eq if fmt == "urlencoded" else strict_eq

        def value_violation(step, want, got, c=None):
            # a difference confined to members that are a mutable class default (c_default holds a list / dict that
            # set_defaults hands to every instance) has a signature of its own
            fam = ffam
            if c is not None and want[0] == "ok" and got[0] == "ok":
                dk = [k for k in set(want[1]) | set(got[1]) if k not in want[1] or k not in got[1] or not strict_eq(want[1][k], got[1][k])]
                if dk and all(isinstance(c.c_default.get(k), (list, dict)) for k in dk):
                    fam = "class-default"
            ctx.count("violation:history:" + fam)
            if "history:" + fam not in told_h:       # one verdict per signature and history
                told_h.add("history:" + fam)
                ctx.violation("history:" + fam, "%s of %s, %s: reading the wire form gives %r where the first reading of it gave %r"
                              % (fmt, name, step, got, want), dict(rec, step=step))

        told_h = set()

        def census(step, a, la, holders):
            told = told_h
            for lb, h in holders:
                if a is None or h is None or a is h:
                    continue
                for fam, sh in (("class-default", [o for o in shared_mutables(a, h) if id(o) in self.default_ids]),
                                (ffam, [o for o in shared_mutables(a, h) if id(o) not in self.default_ids])):
                    if sh and "shared-mutable:" + fam not in told:
                        told.add("shared-mutable:" + fam)
                        ctx.violation("shared-mutable:" + fam, "%s of %s, %s: %s and %s share %d mutable value(s), e.g. %r"
                                      % (fmt, name, step, la, lb, len(sh), canon(sh[0])), dict(rec, step=step))
                        ctx.count("violation:shared-mutable:" + fam)

        w2 = attempt(lambda: self.h_send(fmt, m, hk, alg))
        # baselines: first reading of the text, by the class and by another class
        r0, s0 = self.h_recv(fmt, cls, w, hk, alg)
        b0, t0 = self.h_recv(fmt, ocls, w, hk, alg)
        preserved = s0[0] == "ok" and not [k for k in set(sent) | set(s0[1]) if k not in sent or k not in s0[1] or not eq(sent[k], s0[1][k])]
        ctx.count("history:isolated-cycle-" + ("preserves" if preserved else "differs(judged by the other families)"))
        # (a wire form that does not carry the message - the known form findings, object reprs - is not judged here)
        if preserved and (w2[0] == "exc" or (textual and not strict_eq(w2[1], w))):
            ctx.violation("history:serialise-twice:" + ffam, "%s of %s: serialising the same instance a second time gives %r, the first time %r"
                          % (fmt, name, w2[1], w), dict(rec, step="serialise twice"))
        if preserved and w2[0] == "ok" and fmt == "jwt" and alg[1] in ("HS256", "RS256") and w2[1] != w \
                and strict_eq(sent, canon(dict(m._dict))):
            ctx.violation("history:serialise-twice:" + ffam, "%s of %s: a deterministic signature over the same message gives two texts"
                          % (fmt, name), dict(rec, step="serialise twice"))
        held = [("the sender's instance", m), ("the first received instance", r0), ("the instance the other class received", b0)]
        census("first reading", r0, "the first received instance", held[:1] + held[2:])
        census("first reading", b0, "the instance the other class received", held[:1])
        # every party works on its own instance
        for _, h in held:
            if h is not None:
                ctx.count("history:values-edited-in-place", edit_in_place(h))
        e0 = ("ok", canon(dict(r0._dict))) if r0 is not None else None
        eb0 = ("ok", canon(dict(b0._dict))) if b0 is not None else None
        # later readings
        later = [("the same text read again", cls, w, s0), ("the same text read by the other class again", ocls, w, t0)]
        if w2[0] == "ok":
            later.append(("the text of the second serialisation", cls, w2[1], s0))
        fresh = attempt(lambda: cls(**copy.deepcopy(kw)))
        wf = attempt(lambda: self.h_send(fmt, fresh[1], hk, alg)) if fresh[0] == "ok" else fresh
        if wf[0] == "ok":
            if preserved and textual and not strict_eq(wf[1], w):
                ctx.violation("history:serialise-twice:" + ffam, "%s of %s: a fresh identical message is serialised as %r, the first one as %r"
                              % (fmt, name, wf[1], w), dict(rec, step="fresh identical message"))
            held.append(("the fresh sender's instance", fresh[1]))
            if not textual or strict_eq(wf[1], w):      # (a text with an object address in it is a new text every time)
                later.append(("the text of a fresh identical message", cls, wf[1], s0))
                later.append(("the text of a fresh identical message, other class", ocls, wf[1], t0))
        else:
            value_violation("fresh identical message", "a wire form", wf)
        after = {}
        for step, c, text, want in later:
            r, s = self.h_recv(fmt, c, text, hk, alg)
            ctx.count("history:later-readings")
            after[step] = (r, s)
            if not strict_eq(list(s), list(want)):
                value_violation(step, want, s, c)
            elif preserved and c is cls and (s[0] != "ok" or self.differing(fmt, sent, s[1])):
                value_violation(step + " (against the message serialised)", ("ok", sent), s, c)
            census(step, r, "the instance read at this step", held)
            held.append(("the instance of step '%s'" % step, r))
        # a fresh message whose wire text overlaps with the first one (one element more, one value changed)
        kw2 = copy.deepcopy(kw)
        for k in sorted(kw2):
            if isinstance(kw2[k], list) and kw2[k] and all(isinstance(x, str) for x in kw2[k]):
                kw2[k] = kw2[k] + ["zzz"]
                break
        kw2["x_other"] = ["only", "here"] if fmt != "urlencoded" else "only-here"
        m2 = attempt(lambda: cls(**copy.deepcopy(kw2)))
        if m2[0] == "ok" and preserved:
            sent2 = canon(dict(m2[1]._dict))
            wo = attempt(lambda: self.h_send(fmt, m2[1], hk, alg))
            if wo[0] == "ok":
                r, s = self.h_recv(fmt, cls, wo[1], hk, alg)
                ctx.count("history:overlapping-readings")
                if s[0] != "ok" or self.differing(fmt, sent2, s[1]):
                    ctx.violation("history:" + ffam, "%s of %s, a fresh overlapping message after the history: %r comes back as %r"
                                  % (fmt, name, sent2, s), dict(rec, step="overlapping message", kwargs2=canon(kw2)))
                    ctx.count("violation:history:" + ffam)
                census("overlapping message", r, "the instance read at this step", held)
        # ---- the same history for the model (deserialisation = a function of the wire form: Model/MsgHistory.v)
        if not model or fmt not in ("dict", "from_dict", "json", "urlencoded"):
            return
        r1, s1 = after["the same text read again"]
        b1, t1 = after["the same text read by the other class again"]
        outs = [s0, t0, e0, eb0, s1, t1]
        if any(o is not None and ((o[0] == "exc" and o[1] not in C.EXC) or (o[0] == "ok" and not pure_json(o[1]))) for o in outs):
            ctx.count("history:skipped-model(outside the value universe)")
            return
        if fmt == "urlencoded":
            if not all(ord(ch) < 128 for ch in w):
                return
            recv = lambda n: "HFromUrl %s %s" % (coq_str(n), coq_str(w))
        else:
            d = json.loads(w) if fmt == "json" else w
            if not pure_json(d):
                return
            recv = lambda n: "HConstruct %s %s" % (coq_str(n), coq_msg(d))

        def edits(slot, before, now):
            ev = []
            for k in before:
                if k not in now:
                    ev.append("HDel %d %s" % (slot, coq_str(k)))
            for k, v in now.items():
                if k not in before or not strict_eq(before[k], v):
                    ev.append("HSet %d %s %s" % (slot, coq_str(k), coq_pyval(v)))
            return ev
        evs, exp = [recv(name), recv(oname)], ["OMsg %s" % coq_res(s0, coq_msg), "OMsg %s" % coq_res(t0, coq_msg)]
        for slot, (o, e) in enumerate(((s0, e0), (t0, eb0))):
            if o[0] == "ok":
                ee = edits(slot, o[1], e[1])
                evs += ee
                exp += ["ONone"] * len(ee)
        evs += [recv(name), recv(oname)]
        exp += ["OMsg %s" % coq_res(s1, coq_msg), "OMsg %s" % coq_res(t1, coq_msg)]
        if r1 is not None:      # the untouched later instance is sent on
            if fmt == "urlencoded":
                t = attempt(lambda: copy.deepcopy(r1).to_urlencoded())
                if t[0] == "ok" or t[1] in C.EXC:
                    evs.append("HToUrl %s 2" % coq_str(name))
                    exp.append("OText %s" % coq_res(t, coq_str))
            else:
                t = attempt(lambda: canon(copy.deepcopy(r1).to_dict()))
                if (t[0] == "ok" and pure_json(t[1])) or (t[0] == "exc" and t[1] in C.EXC):
                    evs.append("HToDict %s 2" % coq_str(name))
                    exp.append("OMsg %s" % coq_res(t, coq_msg))
        inp = coq_list(["(%s)" % e for e in evs], "hev")
        self.cases["history"].append(("(%s, Ok %s)" % (inp, coq_list(["(%s)" % e for e in exp], "hout")), inp, rec))

    def histories(self):
        """every class x every wire format (dict by constructor and by from_dict, JSON, form encoding, signed JWT,
        encrypted JWT read by from_jwe and by from_jwt) x {a message rich in list / dict / nested-message values,
        a message of the modelled fragment} x another class reading the same wire form"""
        ctx, rng = self.ctx, self.rng
        frag = [(n, c) for n, c in self.classes if "*" not in c.c_param]
        self.save_defaults()
        crypto = set(n for n, _ in (self.classes if not ctx.quick else rng.sample(self.classes, 24)))
        for name, cls in self.classes:
            for fmt in self.HIST_FORMATS:
                if fmt.startswith("jw") and name not in crypto:
                    continue
                group = "urlencoded" if fmt == "urlencoded" else "json"
                alg = None
                if fmt == "jwt":
                    alg = rng.choice(self.HIST_SIG)
                elif fmt == "jwe":
                    alg = rng.choice(self.HIST_ENC)
                elif fmt == "jwe-from_jwt":
                    alg = rng.choice(JWE_ALGS) + (rng.choice(JWE_ENCS),)
                others = [x for x in self.classes if x[0] != name]
                self.history(name, cls, self.hist_kwargs(name, cls, group, True), fmt, rng.choice(others), alg)
                if "*" not in cls.c_param and (fmt in ("dict", "json", "urlencoded") or not ctx.quick):
                    kw = self.hist_kwargs(name, cls, group, False)
                    if self.in_fragment(cls, kw):
                        self.history(name, cls, kw, fmt, rng.choice([x for x in frag if x[0] != name]), alg, model=True)

    def deser_histories(self):
        """the nested-message deserializers called directly (deserialize_from_one_of and every parameter
        deserializer that yields a nested message): the same value (nested dict, JSON text, form text) is read,
        the holder edits the nested message it got, the value is read again"""
        from idpyoidc.message import Message
        ctx, rng = self.ctx, self.rng
        targets, qual = self.nested_targets()
        for label, fn, nc, ent, fmts in targets:
            strs = self.NESTED_STRS[:1] + rng.sample(self.NESTED_STRS[1:], 1 if ctx.quick else 3)
            for s in strs:
                for where, plain in self.nested_variants(ent, s)[: 3 if ctx.quick else None]:
                    plain = dict(plain, x_list=["p", "q", "r"], x_dict={"a": ["b", "c"]})
                    for fmt in tuple(fmts) + ("json-text",):
                        if fmt == "urlencoded":
                            t = attempt(lambda: nc(**copy.deepcopy(plain)).to_urlencoded())
                            if t[0] != "ok":
                                continue
                            mk = lambda: t[1]
                        elif fmt == "json-text":
                            mk = lambda: json.dumps(plain)
                        else:
                            mk = lambda: copy.deepcopy(plain)
                        sf = "json" if fmt == "json-text" else fmt
                        rec = {"deserializer": label, "class": qual.get(nc, nc.__name__), "format": fmt, "value": canon(mk()), "history": "deserializer"}
                        r0 = attempt(lambda: fn(mk(), sf))
                        ctx.case_seen(rec, r0[0] == "ok")
                        ctx.count("history:deserializer:" + fmt)
                        if r0[0] != "ok" or not isinstance(r0[1], Message):
                            continue
                        s0 = canon(dict(r0[1]._dict))
                        edit_in_place(r0[1])
                        r1 = attempt(lambda: fn(mk(), sf))
                        ffam = "form" if fmt == "urlencoded" else "json"
                        if r1[0] != "ok" or not isinstance(r1[1], Message) or not strict_eq(canon(dict(r1[1]._dict)), s0):
                            ctx.violation("history:" + ffam, "nested-message deserializer %s (%s): the second reading of %r gives %r, the first gave %r"
                                          % (label, fmt, canon(mk()), canon(dict(r1[1]._dict)) if r1[0] == "ok" and isinstance(r1[1], Message) else r1, s0), rec)
                            ctx.count("violation:history:" + ffam)
                            continue
                        sh = shared_mutables(r0[1], r1[1])
                        if sh:
                            ctx.violation("shared-mutable:" + ffam, "nested-message deserializer %s (%s): two readings of %r share %d mutable value(s), e.g. %r"
                                          % (label, fmt, canon(mk()), len(sh), canon(sh[0])), rec)
                            ctx.count("violation:shared-mutable:" + ffam)

    def run_model(self):
        ctx = self.ctx
        cap = 900 if ctx.quick else 10 ** 9
        for kind, ty, chk, fn in (("construct", "pystr * msg * res msg", "chk_construct", "m_construct"),
                                  ("to_dict", "pystr * msg * res msg", "chk_to_dict", "m_to_dict"),
                                  ("to_url", "pystr * msg * res pystr", "chk_to_url", "m_to_url"),
                                  ("from_url", "pystr * pystr * res msg", "chk_from_url", "m_from_url"),
                                  ("one_of", "pystr * wire * pyval * res msg", "chk_one_of", "m_one_of"),
                                  ("history", "list hev * res (list hout)", "chk_history", "m_history")):
            cs = self.cases[kind]
            kcap = cap if kind != "history" else (160 if ctx.quick else cap)      # (a history carries its wire form four times)
            if len(cs) > kcap:
                cs = self.rng.sample(cs, kcap)
            ctx.count("model-cases:" + kind, len(cs))
            C.check_cases(ctx, IMP + ["Model.MsgHistory"] if kind == "history" else IMP, ty, chk, fn, cs, kind, shard=40 if kind == "history" else 300)


def run(ctx):
    r = Run(ctx)
    ctx.count("classes", len(r.classes))
    r.witnesses()
    r.cross_class()
    r.text_layer()
    r.grid()
    r.nested()
    r.one_of_cases()
    r.histories()
    r.deser_histories()
    r.malformed()
    r.jwt()
    r.run_model()
    ctx.notes.append("%d cells; model cases: %s" % (r.cells, {k: len(v) for k, v in r.cases.items()}))


def replay(ctx, rp):
    case = rp.get("case") or {}
    if isinstance(case, dict) and "class" in case and "nested" in case and "intended" in case:
        r = Run(ctx)
        cls = dict(r.classes).get(case["class"])
        ent = cls.c_param.get(case["key"]) if cls is not None else None
        if ent is not None:
            from cryptojwt.key_jar import build_keyjar
            plain = case["intended"][0] if isinstance(case["intended"], list) else case["intended"]
            alg = case.get("jwt_alg") or "RS256"
            kj = build_keyjar([{"type": "RSA", "use": ["sig"]}, {"type": "EC", "crv": "P-256", "use": ["sig"]}])
            r.nested_cell(case["class"], cls, case["key"], ent, case["nested"], plain, case.get("mode", "instance"),
                          jwt_keys=(kj, "EC" if alg.startswith("ES") else "RSA", alg))
            return
    if isinstance(case, dict) and case.get("history") == "deserializer":
        Run(ctx).deser_histories()
        return
    if isinstance(case, dict) and "history" in case and "class" in case and "kwargs" in case:
        r = Run(ctx)
        byname = dict(r.classes)
        if case["class"] in byname and case.get("other_class") in byname:
            alg = tuple(case["alg"]) if case.get("alg") else None
            r.history(case["class"], byname[case["class"]], case["kwargs"], case["history"],
                      (case["other_class"], byname[case["other_class"]]), alg, model=True)
            r.run_model()
            return
    if isinstance(case, dict) and "class" in case and "kwargs" in case:
        r = Run(ctx)
        byname = dict(r.classes)
        if case["class"] in byname:
            r.cell(case["class"], byname[case["class"]], case["kwargs"], case.get("key"))
            r.run_model()
            return
    ctx.notes.append("replay re-runs the generator with the recorded seed")
    ctx.rng.seed(rp.get("seed", ctx.seed))
    run(ctx)
