"""C11 driver — message verification enforces the declared schema.

Real classes (every Message subclass, by introspection):
 * single-fault matrix of the generic schema: each required parameter removed / emptied, each
   enumerated parameter outside its set; Message.verify (the generic check) and the class's own verify();
 * typed-slot matrix: every declared parameter given every other JSON type (null, bool, int, float,
   str, list, dict) through the constructor (= from_dict / from_json path) and from_urlencoded;
 * truth tables of the cross-parameter rules of oidc.AuthorizationRequest (also run through the model),
   RegistrationRequest / RegistrationResponse and IdToken;
 * embedded signed objects (id_token, request, logout_token): valid, tampered, wrong key, alg none.
Correspondence: Model/Msg.v generic_verify, construct (add_value) and authz_verify by vm_compute.
Oracle (from the property text, reads the schema off the class, never calls the model).
"""
import copy
import itertools
import json
import time

import engine as E
import msg_common as C
from engine import coq_str, coq_list, coq_opt, coq_pyval
from msg_common import canon, pure_json, coq_msg, coq_res, attempt, kind_sig, tier1, spec_for, tname, fname

RULE = ("every Message subclass (introspection): base message of its required parameters; single-fault matrix "
        "(each required parameter removed, set to '', [], [''], None, 0; each enumerated parameter outside its set) "
        "against Message.verify and the class's verify(); typed-slot matrix = every declared parameter x 14 foreign "
        "values of every JSON type via constructor and from_urlencoded; full truth table (810 rows) of the "
        "oidc.AuthorizationRequest rules, tables for RegistrationRequest/Response and IdToken; signed-object "
        "matrix (valid / tampered / wrong key / alg none) for id_token, request, logout_token. A case is one "
        "(class, parameter, fault) cell; non-trivial when the class accepted the unfaulted message")
ASSUMPTIONS = ["cryptojwt JWS verification is correct (exercised: tampered and foreign-key tokens)",
               "JSON floats are outside the Gallina value universe: the float row of the type matrix is oracle-only"]

IMP = ["Lib.Base", "Lib.PyStr", "Lib.MsgSchema", "Model.Msg", "Model.MsgCheck"]
EMPTY = (None, "", [], {}, [""])


def jtype(v):
    if v is None:
        return "null"
    if isinstance(v, bool):
        return "bool"
    if isinstance(v, int):
        return "int"
    if isinstance(v, float):
        return "float"
    if isinstance(v, str):
        return "str"
    if isinstance(v, (list, tuple)):
        return "list"
    if isinstance(v, dict):
        return "dict"
    return type(v).__name__


def slot_name(ent):
    """short stable name of a typed slot: declared type / deserializer"""
    typ, _, ser, deser, null = ent
    return "%s%s" % (tname(typ), "/" + fname(deser).split(".")[-1] if deser else "")


class Run:
    def __init__(self, ctx):
        from cryptojwt.key_jar import build_keyjar
        self.ctx = ctx
        self.rng = ctx.rng
        self.classes = C.discover()
        self.byname = dict(self.classes)
        self.cases = {"verify": [], "construct": [], "authz": []}
        self.kj = build_keyjar([{"type": "RSA", "use": ["sig"]}, {"type": "EC", "crv": "P-256", "use": ["sig"]}])
        self.kj.import_jwks(self.kj.export_jwks(private=True), "https://op.example")
        self.kj.import_jwks(self.kj.export_jwks(private=True), "c")
        self.other = build_keyjar([{"type": "RSA", "use": ["sig"]}])      # a foreign signer
        self.accepting = set()

    # ------------------------------------------------------------ the schema oracle
    def schema_oracle(self, name, cls, m, rec, how, merged=False):
        """the property text, read off the class: called when verify() accepted `m`.
        Signature keys: a required parameter deleted by the request-object merge is
        accepted:required-missing, a required list holding only "" is accepted:required-empty (both
        known findings); every other acceptance of a missing / blank / not-allowed value has its own key."""
        d = m._dict
        for k, ent in cls.c_param.items():
            if k == "*":
                continue
            typ, req = ent[0], ent[1]
            if req:
                if k not in d:
                    self.ctx.violation("accepted:required-missing" if merged else "accepted:required-removed",
                                       "%s of %s accepted although required %r is absent afterwards" % (how, name, k), rec)
                elif typ is not bool and any(d[k] is e or (not isinstance(d[k], bool) and d[k] == e and type(d[k]) is type(e)) for e in EMPTY):
                    self.ctx.violation("accepted:required-empty" if d[k] == [""] else "accepted:required-blank",
                                       "%s of %s accepted although required %r is empty (%r)" % (how, name, k, d[k]), rec)
            al = cls.c_allowed_values.get(k)
            if al is not None and k in d and d[k] not in EMPTY:
                vals = d[k] if isinstance(d[k], list) else [d[k]]
                bad = [x for x in vals if x not in al]
                if bad:
                    self.ctx.violation("accepted:not-allowed-value",
                                       "%s of %s accepted although %r=%r is outside %r" % (how, name, k, d[k], al), rec)

    def class_verify(self, m, **kw):
        """("accepted", ret) | ("refused", exception class or 'False')"""
        try:
            r = m.verify(**kw)
        except Exception as e:   # noqa
            return ("refused", type(e).__name__)
        if r is False:
            return ("refused", "False")
        return ("accepted", r)

    def add_verify_case(self, name, m, rec):
        """Message.verify(m): the generic check alone, for the model"""
        from idpyoidc.message import Message
        d = canon(dict(m._dict))
        if not pure_json(d) or "*" in type(m).c_param:
            self.ctx.unmodelled += 1
            return
        out = attempt(lambda: Message.verify(copy.deepcopy(m)))
        if out[0] == "exc" and out[1] not in C.EXC:
            self.ctx.count("skipped-model:exception-class:" + out[1])
            return
        inp = "(%s, %s)" % (coq_str(name), coq_msg(d))
        res = "(Ok tt)" if out[0] == "ok" else "(Err %s)" % C.EXC[out[1]]
        self.cases["verify"].append(("(%s, %s)" % (inp, res), inp, rec))

    # ------------------------------------------------------------ A. single-fault matrix
    def base_message(self, name, cls):
        kw = C.base_kwargs(cls)
        # parameters that would need a key jar are left out of the base message when optional
        b = attempt(lambda: cls(**copy.deepcopy(kw)))
        return kw, b

    def faults(self):
        from idpyoidc.message import Message
        ctx = self.ctx
        for name, cls in self.classes:
            kw, b = self.base_message(name, cls)
            if b[0] == "exc":
                ctx.count("base-message-refused")
                continue
            m0 = b[1]
            # enumerated parameters take an allowed value in the base message
            for k, al in cls.c_allowed_values.items():
                ent = cls.c_param.get(k)
                if ent is not None and al:
                    m0._dict[k] = [al[0]] if isinstance(ent[0], list) else al[0]
            rec0 = {"class": name, "fault": None, "message": canon(dict(m0._dict))}
            g0 = attempt(lambda: Message.verify(copy.deepcopy(m0)))
            self.add_verify_case(name, m0, rec0)
            c0 = self.class_verify(copy.deepcopy(m0))
            ctx.case_seen(rec0, c0[0] == "accepted")
            ctx.count("base:generic-" + ("accepted" if g0[0] == "ok" else "refused"))
            ctx.count("base:class-" + c0[0])
            if c0[0] == "accepted":
                self.accepting.add(name)
            if g0[0] != "ok":
                ctx.notes.append("generic verify refuses the base message of %s (%s)" % (name, g0[1]))
            faults = []
            for k, ent in cls.c_param.items():
                if k == "*":
                    continue
                typ = ent[0]
                if isinstance(typ, list):
                    empties = [None, [], [""]]
                elif typ is str:
                    empties = [None, ""]
                elif typ is dict:
                    empties = [None, {}]
                else:
                    empties = [None]
                if ent[1]:
                    faults.append((k, "removed", "<del>"))
                    for e in empties:
                        faults.append((k, "emptied", e))
                else:
                    for e in empties[:2]:
                        faults.append((k, "optional-emptied", e))
                al = cls.c_allowed_values.get(k)
                if al is not None:
                    faults.append((k, "not-allowed", ["zz-not-allowed"] if isinstance(ent[0], list) else "zz-not-allowed"))
                    if isinstance(ent[0], list) and al:
                        faults.append((k, "not-allowed", [al[0], "zz-not-allowed"]))
                    faults.append((k, "allowed", [al[-1]] if isinstance(ent[0], list) and al else (al[-1] if al else "x")))
            if ctx.quick and len(faults) > 40:
                keep = [f for f in faults if f[1] in ("removed", "not-allowed")]
                rest = [f for f in faults if f[1] not in ("removed", "not-allowed")]
                faults = keep + self.rng.sample(rest, max(0, 40 - len(keep)))
            for k, what, val in faults:
                m = copy.deepcopy(m0)
                if val == "<del>":
                    m._dict.pop(k, None)
                elif what in ("emptied", "optional-emptied"):
                    try:
                        m[k] = copy.deepcopy(val)          # Message.__setitem__
                    except Exception as e:   # noqa
                        ctx.count("fault:%s:refused-at-assignment" % what)
                        continue
                    if k not in m._dict or canon(m._dict[k]) != val:
                        ctx.count("fault:%s:assignment-normalised" % what)
                        continue
                else:
                    m._dict[k] = copy.deepcopy(val)
                rec = {"class": name, "fault": [k, what, val], "message": canon(dict(m._dict))}
                self.add_verify_case(name, m, rec)
                g = attempt(lambda: Message.verify(copy.deepcopy(m)))
                mm = copy.deepcopy(m)
                cv = self.class_verify(mm)
                ctx.case_seen(rec, name in self.accepting)
                ctx.count("fault:%s:generic-%s" % (what, "accepted" if g[0] == "ok" else "refused"))
                ctx.count("fault:%s:class-%s" % (what, cv[0]))
                if g[0] == "ok":
                    self.schema_oracle(name, cls, m, rec, "Message.verify")
                if cv[0] == "accepted":
                    self.schema_oracle(name, cls, mm, rec, "verify()")

    # ------------------------------------------------------------ B. typed slots
    FOREIGN = [("null", None), ("bool", True), ("int", 7), ("int0", 0), ("float", 3.7), ("float-integral", 3.0),
               ("str", "x y"), ("str-int", "12"), ("str-int-padded", " 1_2 "), ("str-json", '{"a": 1}'),
               ("list-str", ["a", "b c"]), ("list-int", [1, 2]), ("list-dict", [{"a": 1}]), ("dict", {"a": "b"}),
               ("list-empty", []), ("dict-empty", {}), ("list-none", [None]), ("list-one", ["solo"])]

    def slot_oracle(self, name, cls, k, ent, given, stored, rec, path):
        """stored has the declared type and is `given` or a lossless coercion of it"""
        from idpyoidc.message import Message
        import typing
        typ, _, ser, deser, null = ent
        lst = isinstance(typ, list) and len(typ) == 1
        elem = typ[0] if lst else typ
        if elem is typing.Any:
            return

        def is_t(x, t):
            if t is int:
                return isinstance(x, int) and not isinstance(x, bool)
            if t is Message or (isinstance(t, type) and issubclass(t, Message)):
                # Message-typed slots: the code documents dict and str (a JWT) as serialised forms
                return isinstance(x, (t, dict, str)) if deser is None else isinstance(x, t)
            return isinstance(x, t)
        ok_type = (isinstance(stored, list) and all(is_t(x, elem) for x in stored)) if lst else is_t(stored, elem)
        if stored is None:
            if given is None and null:
                return
            sig = "slot:null-stored" if given is None else "slot:%s<-%s:none" % (slot_name(ent), jtype(given))
            self.ctx.violation(sig, "%s of %s: parameter %r (declared %s, null not allowed) given %r holds None"
                               % (path, name, k, tname(typ), given), rec)
            return
        if not ok_type:
            self.ctx.violation("slot:%s<-%s" % (slot_name(ent), jtype(given)),
                               "%s of %s: parameter %r declared %s given %r stores %r (%s)"
                               % (path, name, k, tname(typ), given, canon(stored), jtype(stored)), rec)
            return
        # lossless?
        g, s = given, canon(stored)
        lossless = False
        if json.dumps(g, sort_keys=True, default=repr) == json.dumps(s, sort_keys=True, default=repr):
            lossless = True
        elif elem is int and not lst and isinstance(g, str):
            try:
                lossless = int(g) == s
            except ValueError:
                lossless = False
        elif elem is int and not lst and isinstance(g, float):
            lossless = g == s
        elif lst and elem is str and isinstance(g, str):
            lossless = s == [g] or " ".join(s) == g
        elif lst and elem is str and isinstance(g, list) and len(g) == 1 and isinstance(g[0], str):
            lossless = " ".join(s) == g[0]
        elif isinstance(g, (dict, list)) and not g and not s:
            lossless = True
        elif lst and isinstance(g, list) and isinstance(s, list) and len(g) == len(s) and \
                all(isinstance(x, dict) and "__msg__" in x for x in s):
            lossless = all(x["d"] == y or (isinstance(y, dict) and all(k2 in x["d"] for k2 in y)) for x, y in zip(s, g))
        elif lst and isinstance(g, dict) and isinstance(s, list) and len(s) == 1:
            lossless = (s[0].get("d") if isinstance(s[0], dict) and "__msg__" in s[0] else s[0]) == g
        elif isinstance(s, dict) and "__msg__" in s:
            inner = s["d"]
            if isinstance(g, str):
                try:
                    g = json.loads(g)
                except ValueError:
                    pass
            lossless = isinstance(g, dict) and all(k2 in inner for k2 in g)
        elif elem is dict and isinstance(g, str):
            try:
                lossless = json.loads(g) == s
            except ValueError:
                lossless = False
        if not lossless:
            self.ctx.violation("slot:%s<-%s:lossy" % (slot_name(ent), jtype(given)),
                               "%s of %s: parameter %r declared %s given %r stores %r" % (path, name, k, tname(typ), given, s), rec)

    def slot_cell(self, name, cls, k, ent, tag, v):
        ctx = self.ctx
        rec = {"class": name, "param": k, "given": v, "kind": kind_sig(ent)}
        out = attempt(lambda: cls(set_defaults=False, **{k: copy.deepcopy(v)}))
        ctx.case_seen(rec, True)
        if out[0] == "exc":
            ctx.count("slot:%s:rejected" % tag)
        elif k not in out[1]._dict:
            ctx.count("slot:%s:dropped" % tag)
        else:
            ctx.count("slot:%s:stored" % tag)
            self.slot_oracle(name, cls, k, ent, v, out[1]._dict[k], rec, "construction")
        # the same cell for the model (modelled kinds, values of the pyval universe, no defaults)
        if tier1(ent) and pure_json(v) and "*" not in cls.c_param and not cls.c_default:
            res = ("ok", canon(dict(out[1]._dict))) if out[0] == "ok" else out
            if res[0] == "exc" and res[1] not in C.EXC:
                ctx.count("skipped-model:exception-class:" + res[1])
            else:
                inp = "(%s, %s)" % (coq_str(name), coq_msg({k: v}))
                self.cases["construct"].append(("(%s, %s)" % (inp, coq_res(res, coq_msg)), inp, rec))

    def form_cell(self, name, cls, k, ent, txt):
        """form encoding: only text can arrive; a typed slot must not hold text that is not a
        rendering of its type"""
        ctx = self.ctx
        typ = ent[0]
        rec = {"class": name, "param": k, "from_urlencoded": "%s=%s" % (k, txt), "kind": kind_sig(ent)}
        out = attempt(lambda: cls(set_defaults=False).from_urlencoded("%s=%s" % (k, txt)))
        ctx.case_seen(rec, True)
        if out[0] == "ok" and k in out[1]._dict:
            st = out[1]._dict[k]
            good = (typ is int and isinstance(st, int) and not isinstance(st, bool)) or (typ is bool and isinstance(st, bool))
            if isinstance(st, str):
                if typ is int:
                    try:
                        int(st)
                        good = True
                    except ValueError:
                        good = False
                else:
                    good = st in ("True", "False", "true", "false")
            if not good:
                ctx.violation("slot:%s<-form-text" % tname(typ),
                              "from_urlencoded of %s: parameter %r declared %s stores the text %r" % (name, k, tname(typ), st), rec)
            ctx.count("slot:form:stored")
        else:
            ctx.count("slot:form:rejected")

    # every listed known finding of the typed-slot clause has a fixed witness, replayed on every run
    SLOT_WITNESSES = [
        ("idpyoidc.message.oidc.RegistrationRequest", "contacts", {"a": "b"}),
        ("idpyoidc.message.oauth2.AccessTokenResponse", "scope", {"a": "b"}),
        ("idpyoidc.message.oauth2.AccessTokenResponse", "expires_in", 3.7),
        ("idpyoidc.message.oauth2.AccessTokenResponse", "access_token", None),
        ("idpyoidc.message.oidc.RegistrationRequest", "jwks", 7),
        ("idpyoidc.message.oidc.RegistrationRequest", "jwks", 3.7),
        ("idpyoidc.message.oidc.RegistrationRequest", "jwks", ["a", "b c"]),
        ("idpyoidc.message.oidc.RegistrationRequest", "jwks", "x y"),
        ("idpyoidc.message.oidc.AuthorizationRequest", "registration", "12"),
        ("idpyoidc.message.oidc.identity_assurance.Attestation", "date_of_issuance", 7),
        ("idpyoidc.message.oidc.identity_assurance.Attestation", "date_of_issuance", 3.7),
        ("idpyoidc.message.oidc.identity_assurance.CheckDetails", "time", 7),
        ("idpyoidc.message.oidc.identity_assurance.CheckDetails", "time", 3.7),
        ("idpyoidc.message.oidc.identity_assurance.Document", "document_details", {"a": "b"}),
        ("idpyoidc.message.oidc.identity_assurance.Document", "document_details", '{"a": 1}'),
        ("idpyoidc.message.oidc.identity_assurance.VerificationElement", "evidence", {"a": "b"}),
        ("idpyoidc.message.oidc.JRD", "links", {"a": "b"}),
    ]
    FORM_WITNESSES = [("idpyoidc.message.oauth2.AccessTokenResponse", "expires_in", "abc"),
                      ("idpyoidc.message.oauth2.TokenIntrospectionResponse", "active", "abc")]

    def witnesses(self):
        from idpyoidc.message import Message
        for cname, k, v in self.SLOT_WITNESSES:
            cls = self.byname.get(cname)
            if cls is None or k not in cls.c_param:
                self.ctx.notes.append("witness %s.%s no longer exists" % (cname, k))
                continue
            self.slot_cell(cname, cls, k, cls.c_param[k], "witness", v)
        for cname, k, txt in self.FORM_WITNESSES:
            cls = self.byname.get(cname)
            if cls is None or k not in cls.c_param:
                self.ctx.notes.append("witness %s.%s no longer exists" % (cname, k))
                continue
            self.form_cell(cname, cls, k, cls.c_param[k], txt)
        # a required list parameter holding only the empty string
        cls = self.byname.get("idpyoidc.message.oauth2.AuthorizationRequest")
        if cls is not None:
            m = cls(response_type="code", client_id="c")
            m["response_type"] = [""]
            rec = {"class": "idpyoidc.message.oauth2.AuthorizationRequest", "fault": ["response_type", "emptied", [""]],
                   "message": canon(dict(m._dict))}
            self.ctx.case_seen(rec, True)
            if attempt(lambda: Message.verify(copy.deepcopy(m)))[0] == "ok":
                self.schema_oracle("idpyoidc.message.oauth2.AuthorizationRequest", cls, m, rec, "Message.verify")

    def slots(self):
        ctx, rng = self.ctx, self.rng
        for name, cls in self.classes:
            params = [(k, e) for k, e in cls.c_param.items() if k != "*"]
            for k, ent in params:
                foreign = self.FOREIGN if not ctx.quick else rng.sample(self.FOREIGN, 7)
                for tag, v in foreign:
                    self.slot_cell(name, cls, k, ent, tag, v)
                if ent[0] in (int, bool):
                    for txt in ("abc", "12", "True", "1.5"):
                        self.form_cell(name, cls, k, ent, txt)

    # ------------------------------------------------------------ C. cross-parameter rules
    def authz_table(self):
        from idpyoidc.message.oidc import AuthorizationRequest, OpenIDRequest
        ctx = self.ctx
        rts = [["code"], ["id_token"], ["code", "id_token"]]
        nonces = [None, "n"]
        kws = [None, "n", "other"]
        scopes = [["openid"], ["profile"], ["openid", "offline_access"]]
        prompts = [None, ["consent"], ["none"], ["none", "consent"], ["login"]]
        displays = [None, "page", "tv"]
        rows = list(itertools.product(rts, nonces, kws, scopes, prompts, displays))
        if ctx.quick:
            rows = self.rng.sample(rows, 270)
        for cname, cls in (("idpyoidc.message.oidc.AuthorizationRequest", AuthorizationRequest),
                           ("idpyoidc.message.oidc.OpenIDRequest", OpenIDRequest)):
            for rt, nonce, kw, scope, prompt, display in rows:
                args = {"response_type": rt, "client_id": "c", "scope": scope, "redirect_uri": "https://rp/cb"}
                if nonce:
                    args["nonce"] = nonce
                if prompt:
                    args["prompt"] = prompt
                if display:
                    args["display"] = display
                m = cls(**copy.deepcopy(args))
                before = canon(dict(m._dict))
                kwargs = {"nonce": kw} if kw else {}
                rec = {"class": cname, "args": args, "verify_kwargs": kwargs}
                out = self.class_verify(m, **kwargs)
                ctx.case_seen(rec, out[0] == "accepted")
                ctx.count("authz:" + out[0])
                # oracle: the rules as the specification states them
                ok = True
                if "id_token" in rt and (not nonce or (kw and kw != nonce)):
                    ok = False
                if "openid" not in scope:
                    ok = False
                if "offline_access" in scope and not (prompt and "consent" in prompt):
                    ok = False
                if prompt and "none" in prompt and len(prompt) > 1:
                    ok = False
                if display == "tv":
                    ok = False
                if out[0] == "accepted" and not ok:
                    ctx.violation("rules:AuthorizationRequest", "verify(%r) of %s accepted %r" % (kwargs, cname, args), rec)
                if out[0] == "accepted":
                    self.schema_oracle(cname, cls, m, rec, "verify()")
                if out[0] == "refused" and ok:
                    ctx.count("authz:refused-a-conforming-request")
                # the model
                if out[0] == "accepted":
                    res = "(Ok %s)" % coq_msg(canon(dict(m._dict)))
                else:
                    if out[1] not in C.EXC:
                        ctx.count("skipped-model:exception-class:" + out[1])
                        continue
                    res = "(Err %s)" % C.EXC[out[1]]
                inp = "(%s, %s, %s)" % (coq_str(cname), coq_opt(kw, coq_str, "pystr"), coq_msg(before))
                self.cases["authz"].append(("(%s, %s)" % (inp, res), inp, rec))

    def other_rules(self):
        """RegistrationRequest / RegistrationResponse / IdToken: truth tables, oracle only"""
        from idpyoidc.message.oidc import RegistrationRequest, RegistrationResponse, IdToken
        ctx = self.ctx
        # RegistrationResponse: registration_client_uri and registration_access_token both or neither
        for uri, at in itertools.product([None, "https://op/reg?c=1"], [None, "tok"]):
            args = {"client_id": "c", "redirect_uris": ["https://rp/cb"]}
            if uri:
                args["registration_client_uri"] = uri
            if at:
                args["registration_access_token"] = at
            m = RegistrationResponse(**args)
            out = self.class_verify(m)
            rec = {"class": "RegistrationResponse", "args": args}
            ctx.case_seen(rec, out[0] == "accepted")
            ctx.count("regresp:" + out[0])
            if out[0] == "accepted":
                if ("registration_client_uri" in m) != ("registration_access_token" in m):
                    ctx.violation("rules:RegistrationResponse", "accepted with only one of registration_client_uri / registration_access_token: %r" % args, rec)
                self.schema_oracle("RegistrationResponse", RegistrationResponse, m, rec, "verify()")
        # RegistrationRequest: *_enc needs *_alg; initiate_login_uri https; auth signing alg not none
        pre = ["request_object_encryption", "id_token_encrypted_response", "userinfo_encrypted_response"]
        for p in pre:
            for alg, enc in itertools.product([None, "RSA-OAEP"], [None, "A128CBC-HS256"]):
                for extra in ({}, {"initiate_login_uri": "http://rp/login"}, {"initiate_login_uri": "https://rp/login"},
                              {"token_endpoint_auth_signing_alg": "none"}, {"token_endpoint_auth_signing_alg": "RS256"},
                              {"application_type": "tv"}, {"subject_type": "odd"}):
                    args = {"redirect_uris": ["https://rp/cb"]}
                    if alg:
                        args[p + "_alg"] = alg
                    if enc:
                        args[p + "_enc"] = enc
                    args.update(extra)
                    m = RegistrationRequest(**args)
                    out = self.class_verify(m)
                    rec = {"class": "RegistrationRequest", "args": args}
                    ctx.case_seen(rec, out[0] == "accepted")
                    ctx.count("regreq:" + out[0])
                    if out[0] == "accepted":
                        bad = []
                        for q in pre:
                            if (q + "_enc") in m and (q + "_alg") not in m:
                                bad.append(q + "_enc without _alg")
                        if "initiate_login_uri" in m and not m["initiate_login_uri"].startswith("https:"):
                            bad.append("initiate_login_uri not https")
                        if m.get("token_endpoint_auth_signing_alg") == "none":
                            bad.append("token_endpoint_auth_signing_alg none")
                        if bad:
                            ctx.violation("rules:RegistrationRequest", "accepted %r: %s" % (args, bad), rec)
                        self.schema_oracle("RegistrationRequest", RegistrationRequest, m, rec, "verify()")
        # IdToken: issuer, audience / azp, expiry, issued-at, nonce
        now = int(time.time())
        for iss_kw, aud, azp, cid, dexp, diat, nonce, nonce_kw, skew in itertools.product(
                [None, "https://op.example", "https://evil"], [["c"], ["c", "d"], ["d"]], [None, "c", "d", "z"],
                [None, "c"], [600, -600], [0, 900, -20000], [None, "n"], [None, "n", "m"], [0]):
            args = {"iss": "https://op.example", "sub": "s", "aud": aud, "exp": now + dexp, "iat": now + diat}
            if azp:
                args["azp"] = azp
            if nonce:
                args["nonce"] = nonce
            kw = {}
            if iss_kw:
                kw["iss"] = iss_kw
            if cid:
                kw["client_id"] = cid
            if nonce_kw:
                kw["nonce"] = nonce_kw
            if ctx.quick and self.rng.random() > 0.12:
                continue
            m = IdToken(**args)
            out = self.class_verify(m, **kw)
            rec = {"class": "IdToken", "args": dict(args, exp=dexp, iat=diat), "verify_kwargs": kw}
            ctx.case_seen(rec, out[0] == "accepted")
            ctx.count("idtoken:" + out[0])
            if out[0] == "accepted":
                bad = []
                if iss_kw and iss_kw != args["iss"]:
                    bad.append("issuer mismatch")
                if cid and cid not in aud:
                    bad.append("not in audience")
                if len(aud) > 1 and (not azp or azp not in aud):
                    bad.append("several audiences without a matching azp")
                if azp and cid and azp != cid:
                    bad.append("azp is another client")
                if dexp < 0:
                    bad.append("expired")
                if diat > 0 and diat > 5:
                    bad.append("issued in the future")
                if diat < -4 * 3600:
                    bad.append("issued too long ago")
                if dexp < diat:
                    bad.append("expires before it was issued")
                if nonce and nonce_kw and nonce != nonce_kw:
                    bad.append("nonce mismatch")
                if bad:
                    ctx.violation("rules:IdToken", "verify(%r) accepted %r: %s" % (kw, rec["args"], bad), rec)
                self.schema_oracle("IdToken", IdToken, m, rec, "verify()")

    # ------------------------------------------------------------ D. embedded signed objects
    def signed_objects(self):
        from idpyoidc.message import Message
        from idpyoidc.message.oidc import AccessTokenResponse, AuthorizationRequest, IdToken, MessageWithIdToken
        from idpyoidc.message.oidc.session import BackChannelLogoutRequest, LogoutToken, BACK_CHANNEL_LOGOUT_EVENT
        ctx = self.ctx
        now = int(time.time())
        iss = "https://op.example"

        def variants(payload_msg, signer_iss):
            good = payload_msg.to_jwt(key=self.kj.get_signing_key("RSA", signer_iss), algorithm="RS256")
            ec = payload_msg.to_jwt(key=self.kj.get_signing_key("EC", signer_iss), algorithm="ES256")
            h, p, s = good.split(".")
            flipped = ".".join([h, p, ("A" if s[0] != "A" else "B") + s[1:]])
            import base64
            pj = json.loads(base64.urlsafe_b64decode(p + "=" * (-len(p) % 4)))
            pj["sub"] = "mallory"
            p2 = base64.urlsafe_b64encode(json.dumps(pj).encode()).decode().rstrip("=")
            swapped = ".".join([h, p2, s])
            foreign = payload_msg.to_jwt(key=self.other.get_signing_key("RSA", ""), algorithm="RS256")
            none = payload_msg.to_jwt(key=[], algorithm="none")
            return [("valid-RS256", good, True), ("valid-ES256", ec, True), ("signature-altered", flipped, False),
                    ("payload-altered", swapped, False), ("foreign-key", foreign, False), ("alg-none", none, False),
                    ("not-a-jwt", "aaa.bbb.ccc", False)]
        idt = IdToken(iss=iss, sub="s", aud=["c"], exp=now + 600, iat=now)
        lt = LogoutToken(iss=iss, sub="s", aud=["c"], iat=now, jti="j", events={BACK_CHANNEL_LOGOUT_EVENT: {}})
        ro = Message(response_type="code", client_id="c", scope="openid", redirect_uri="https://rp/cb")
        plans = [
            ("id_token", lambda t: AccessTokenResponse(access_token="a", token_type="Bearer", id_token=t),
             dict(keyjar=self.kj, iss=iss, client_id="c"), idt, iss),
            ("id_token", lambda t: MessageWithIdToken(id_token=t), dict(keyjar=self.kj, iss=iss, client_id="c"), idt, iss),
            ("logout_token", lambda t: BackChannelLogoutRequest(logout_token=t), dict(keyjar=self.kj, iss=iss, aud="c"), lt, iss),
            ("request", lambda t: AuthorizationRequest(response_type="code", client_id="c", scope="openid",
                                                       redirect_uri="https://rp/cb", request=t), dict(keyjar=self.kj), ro, "c"),
        ]
        for claim, build, kw, payload, signer in plans:
            for tag, tok, genuine in variants(copy.deepcopy(payload), signer):
                m = build(tok)
                out = self.class_verify(m, **kw)
                rec = {"class": type(m).__name__, "embedded": claim, "variant": tag}
                ctx.case_seen(rec, out[0] == "accepted")
                ctx.count("signed:%s:%s" % (tag, out[0]))
                if out[0] == "accepted" and not genuine:
                    ctx.violation("signed-object:%s:%s" % (tag, claim), "%s accepted a %s: %s" % (type(m).__name__, claim, tag), rec)
                if out[0] == "refused" and genuine:
                    ctx.count("signed:refused-a-genuine-token")
                if out[0] == "accepted":
                    self.schema_oracle(type(m).__name__, type(m), m, rec, "verify()")
        # a request object that leaves required parameters out (the message as it stands afterwards)
        body = Message(response_type="code", client_id="c", scope="openid")
        tok = body.to_jwt(key=self.kj.get_signing_key("RSA", "c"), algorithm="RS256")
        m = AuthorizationRequest(response_type="code", client_id="c", scope="openid", redirect_uri="https://rp/cb",
                                 state="s", request=tok)
        out = self.class_verify(m, keyjar=self.kj)
        rec = {"class": "AuthorizationRequest", "embedded": "request", "variant": "request object without redirect_uri"}
        ctx.case_seen(rec, out[0] == "accepted")
        if out[0] == "accepted":
            self.schema_oracle("oidc.AuthorizationRequest", AuthorizationRequest, m, rec, "verify() with a request object", merged=True)

    def run_model(self):
        ctx = self.ctx
        cap = 1200 if ctx.quick else 10 ** 9
        for kind, ty, chk, fn in (("verify", "pystr * msg * res unit", "chk_verify", "m_verify"),
                                  ("construct", "pystr * msg * res msg", "chk_construct", "m_construct"),
                                  ("authz", "pystr * option pystr * msg * res msg", "chk_authz", "m_authz")):
            cs = self.cases[kind]
            if len(cs) > cap:
                cs = self.rng.sample(cs, cap)
            ctx.count("model-cases:" + kind, len(cs))
            C.check_cases(ctx, IMP, ty, chk, fn, cs, kind)


def run(ctx):
    r = Run(ctx)
    ctx.count("classes", len(r.classes))
    r.witnesses()
    r.faults()
    r.slots()
    r.authz_table()
    r.other_rules()
    r.signed_objects()
    r.run_model()
    ctx.count("classes-whose-verify-accepted-the-base-message", len(r.accepting))


def replay(ctx, rp):
    ctx.notes.append("replay re-runs the generator with the recorded seed")
    ctx.rng.seed(rp.get("seed", ctx.seed))
    run(ctx)
