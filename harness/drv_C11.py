"""C11 driver — message verification enforces the declared schema.

Real classes (every Message subclass, by introspection):
 * single-fault matrix of the generic schema: each required parameter removed / emptied, each
   enumerated parameter outside its set; Message.verify (the generic check) and the class's own verify();
 * typed-slot matrix: every declared parameter given every other JSON type (null, bool, int, float,
   str, list, dict) through the constructor (= from_dict / from_json path) and from_urlencoded;
 * truth tables of the cross-parameter rules of oidc.AuthorizationRequest (also run through the model),
   RegistrationRequest / RegistrationResponse and IdToken;
 * the rules over a SET of parameters (at most one of / at least one of / all or none of / X comes with all of /
   X excludes all of): every such rule of idpyoidc.message (CIBA AuthenticationRequest's three hints through
   Message.has_none_or_one_of, its `request` exclusivity and mode rule; request / request_uri; the registration
   pairs; sub / sid; post_logout_redirect_uri / id_token_hint; client_secret / client_secret_expires_at; grant types /
   redirect_uris; device_code / grant_type / client_id) on the FULL presence table of the set (2^n patterns, e.g.
   present-absent-present), the present members in every order, along every construction path (and inside a signed
   request object); the helper itself on every pattern of 0..4 names in every order; all through the model
   (Model/MsgRules.v presence / has_none_or_one_of / ciba_authn_verify / clientinfo_verify / device_verify ...);
 * oidc.AuthorizationResponse with a real signed ID Token: the full truth table of the two hash rules (code x
   access_token x c_hash right / wrong / absent / wrong width x at_hash likewise x signing algorithm x the four
   construction paths), also through the model (Model/MsgRules.v oidc_authzresp_verify_idt); the token response
   (no hash rule);
 * embedded signed objects (id_token, request, logout_token): valid, tampered, wrong key, alg none, bare
   JSON; the same wrapped in a JWE to the verifier's own encryption key (anybody can build one); with and
   without the allowed_sign_alg keyword; BackChannelLogoutRequest also against Model/MsgCheck.v bclogout_verify;
 * request objects: every class that declares a `request` parameter x complete / incomplete outer request x
   validly signed complete / incomplete object (the message as it stands after the merge) + forgeries.
 * reserved members of the verifier's own bookkeeping (`__verified_<claim>`, idpyoidc.verified_claim_name): every class
   that unpacks an embedded signed object (discovered: a validly signed object is verified and the member the copy
   appears under is noted) x reserved name x delivery form (constructor, from_dict, from_json, from_urlencoded, item
   assignment, claims of a signed JWT, CLAIM OF THE SIGNED REQUEST OBJECT) x reserved member {absent, forged claims /
   text / message object, stale: left by an earlier accepting verify() - live, after a JSON / dict round trip} x raw
   claim {absent, validly signed, signature altered, replaced by another validly signed object}; oracle: what the
   message holds under a reserved name after an accepting verify() is the content of the validly signed object it
   carried into THIS verify(), or nothing; all rows through the models of the verify() functions (Model/MsgVerified.v).
 * WHICH schema (the declared one): every class body's c_param / c_default / c_allowed_values evaluated from the SOURCE
   TEXT by value (harness/schema_decl.py) against the tables of the class objects after the whole package has been
   imported (an entry that differs = another class body / module changed this class's schema at import time: a message
   that the declaration refuses is built and verified); the tables of every class in a FRESH interpreter that imports
   only ONE module (every module of idpyoidc.message and every module that defines a Message subclass) against the
   tables after importing everything (a difference = the schema depends on the import order; the second module that
   makes it appear is searched for and a message is verified under both orders); no two classes share one dict object
   unless the second does not assign the table.  Generator and oracle of the single-fault matrix read the DECLARED tables.
Correspondence: Model/Msg.v generic_verify, construct (add_value), authz_verify and jar_verify / par_verify
(oauth2 JWTSecuredAuthorizationRequest / PushedAuthorizationRequest, signature symbolic) by vm_compute.
Oracle (from the property text, reads the schema off the class, never calls the model).
"""
import copy
import itertools
import json
import time

import engine as E
import msg_common as C
import schema_decl as S
from engine import coq_str, coq_list, coq_opt, coq_pyval
from msg_common import canon, pure_json, coq_msg, coq_res, attempt, kind_sig, tier1, spec_for, tname, fname

RULE = ("the schema every oracle below judges by is the DECLARED one: c_param / c_default / c_allowed_values of every class body "
        "evaluated from the source text by value (ast; 108 classes, fail closed) compared entry by entry with the tables of the class "
        "objects after importing the whole package (also a Coq obligation over Gen/SchemaDecl.v and Gen/Schema.v), and the tables of "
        "every class in a fresh interpreter that imports only ONE module (every module of idpyoidc.message and every module defining a "
        "Message subclass) compared with the tables after importing everything, with a directed search (second import, message whose "
        "verify() outcome differs) on a difference; no dict object shared between classes declared by different class bodies; "
        "every Message subclass (introspection): base message of its required parameters; single-fault matrix "
        "(each required parameter removed, set to '', [], [''], None, 0; each enumerated parameter outside its set) "
        "against Message.verify and the class's verify(); typed-slot matrix = every declared parameter x 14 foreign "
        "values of every JSON type via constructor and from_urlencoded; full truth table (810 rows) of the "
        "oidc.AuthorizationRequest rules, tables for RegistrationRequest/Response and IdToken; oidc.AuthorizationResponse "
        "with a signed, otherwise valid ID Token: {code, no code} x {access_token, none} x c_hash {right, of another code, "
        "absent, right value under another hash width} x at_hash likewise x {RS256, RS384, RS512, ES256, HS256} x "
        "{constructor, from_dict, from_json, from_urlencoded} (1280 rows) + rows where another rule fails as well + "
        "oidc.AccessTokenResponse (no hash rule), oracle = hashlib left hash of what the accepted response carries; "
        "rules over a set of parameters (CIBA hints at most one of 3 + request excludes the 9 inside-only parameters + mode rule, "
        "request / request_uri, registration_client_uri / registration_access_token, the three *_enc / *_alg pairs, sub / sid, "
        "post_logout_redirect_uri / id_token_hint, client_secret / client_secret_expires_at, grant_types / redirect_uris, device_code / "
        "grant_type / client_id): all 2^n presence patterns of otherwise valid messages (signed JWT members really signed) x every order "
        "of the present members x {constructor, from_dict, from_json, from_urlencoded, item assignment, inside a signed request object}, "
        "oracle = the rule as a predicate on the number of present members; Message.has_none_or_one_of on every pattern of 0..4 names "
        "x every order of the names; signed-object "
        "matrix (valid / tampered / wrong key / alg none / bare JSON, each also encrypted as a JWE to the verifier's own "
        "published encryption key, with and without the allowed_sign_alg keyword) for id_token, request, logout_token; "
        "request-object matrix "
        "for every class declaring a `request` parameter: outer request {complete, each required parameter removed, "
        "only client_id} x validly signed object {complete, each required parameter omitted, only optional, none of "
        "the required} + no object / request_uri + the forgeries of a complete object, judged on the message as it "
        "stands after verify(); reserved-member matrix: every class found to unpack an embedded signed object x reserved name "
        "(verified_claim_name) x {constructor, from_dict, from_json, from_urlencoded, item assignment, claims of a signed JWT, "
        "claim of the signed request object} x reserved member {absent, forged claims / text / object, stale after an earlier "
        "accepting verify(): live / JSON round trip / dict round trip} x raw claim {absent, validly signed, signature altered, "
        "replaced by another validly signed object}, oracle = a reserved member held after an accepting verify() is the content "
        "of the validly signed object carried into this verify(). A case is one (class, parameter, fault) cell; non-trivial "
        "when the class accepted the unfaulted message")
ASSUMPTIONS = ["cryptojwt JWS verification is correct (exercised: tampered and foreign-key tokens)",
               "JSON floats are outside the Gallina value universe: the float row of the type matrix is oracle-only",
               "the left-half hash of at_hash / c_hash is an environment function of the model: a finite table computed "
               "with hashlib for the values of the run (the oracle recomputes it with hashlib as well, never with the library)"]

IMP = ["Lib.Base", "Lib.PyStr", "Lib.MsgSchema", "Model.Msg", "Model.MsgRules", "Model.MsgCheck"]
EMPTY = (None, "", [], {}, [""])


def jtype(v):
    if v is None:
        return "null"
    if isinstance(v, bool):
        return "bool"
    if isinstance(v, int):
        return "int"
    if isinstance(v, float):
        return "float"
    if isinstance(v, str):
        return "str"
    if isinstance(v, (list, tuple)):
        return "list"
    if isinstance(v, dict):
        return "dict"
    return type(v).__name__


def slot_name(ent):
    """short stable name of a typed slot: declared type / deserializer"""
    typ, _, ser, deser, null = ent
    return "%s%s" % (tname(typ), "/" + fname(deser).split(".")[-1] if deser else "")


class Run:
    def __init__(self, ctx):
        from cryptojwt.key_jar import build_keyjar
        self.ctx = ctx
        self.rng = ctx.rng
        self.classes = C.discover()
        self.byname = dict(self.classes)
        self.cases = {"verify": [], "construct": [], "authz": [], "rules": [], "request": [], "bclogout": [], "authzresp_idt": [],
                      "setrules": [], "ciba": [], "none_or_one": []}
        self.kj = build_keyjar([{"type": "RSA", "use": ["sig"]}, {"type": "EC", "crv": "P-256", "use": ["sig"]}])
        self.kj.import_jwks(self.kj.export_jwks(private=True), "https://op.example")
        self.kj.import_jwks(self.kj.export_jwks(private=True), "c")
        self.other = build_keyjar([{"type": "RSA", "use": ["sig"]}])      # a foreign signer
        # the verifier's own encryption key pair (public half published: anybody can encrypt to it)
        self.kj.import_jwks(build_keyjar([{"type": "RSA", "use": ["enc"]}]).export_jwks(private=True), "")
        self.accepting = set()
        # the DECLARED tables (source text of the class bodies, by value) - what "its schema" means in the property
        self.decl, self.decl_owners, self.decl_refused = S.declared(self.classes)

    def tables_of(self, cls):
        """(c_param, c_allowed_values) the class DECLARES; the run-time tables only for a class whose body the
        evaluator refuses (that refusal is a broken obligation of its own: Props C11_declared_all_evaluated)"""
        d = self.decl.get(cls.__module__ + "." + cls.__qualname__)
        if d is None:
            return cls.c_param, cls.c_allowed_values
        return d["c_param"], d["c_allowed_values"]

    # ------------------------------------------------------------ the schema oracle
    # the verify() functions of known finding accepted:required-missing (generic check BEFORE the merge)
    MERGE_AFTER_CHECK = ("idpyoidc.message.oauth2.AuthorizationRequest.verify", "idpyoidc.message.oidc.AuthorizationRequest.verify")

    def merged_key(self, cls):
        """signature key for `a required parameter is absent after the request-object merge`: the recorded
        finding for exactly the classes that run oauth2 / oidc AuthorizationRequest.verify, a key of its
        own (named after the class) for every other class"""
        vf = getattr(cls, "verify")
        vname = "%s.%s" % (getattr(vf, "__module__", "?"), getattr(vf, "__qualname__", "?"))
        return "accepted:required-missing" if vname in self.MERGE_AFTER_CHECK else "accepted:required-missing:" + cls.__name__

    def schema_oracle(self, name, cls, m, rec, how, merged=False):
        """the property text, read off the class: called when verify() accepted `m`.
        Signature keys: a required parameter deleted by the request-object merge is
        accepted:required-missing (known finding, oauth2 / oidc AuthorizationRequest.verify only; any other
        class: accepted:required-missing:<class>), a required list holding only "" is
        accepted:required-empty (known finding); every other acceptance of a missing / blank / not-allowed
        value has its own key."""
        d = m._dict
        c_param, c_allowed = self.tables_of(cls)
        for k, ent in c_param.items():
            if k == "*":
                continue
            typ, req = ent[0], ent[1]
            if req:
                if k not in d:
                    self.ctx.violation(self.merged_key(cls) if merged else "accepted:required-removed",
                                       "%s of %s accepted although required %r is absent afterwards" % (how, name, k), rec)
                elif typ is not bool and any(d[k] is e or (not isinstance(d[k], bool) and d[k] == e and type(d[k]) is type(e)) for e in EMPTY):
                    self.ctx.violation("accepted:required-empty" if d[k] == [""] else "accepted:required-blank",
                                       "%s of %s accepted although required %r is empty (%r)" % (how, name, k, d[k]), rec)
            al = c_allowed.get(k)
            if al is not None and k in d and d[k] not in EMPTY:
                vals = d[k] if isinstance(d[k], list) else [d[k]]
                bad = [x for x in vals if x not in al]
                if bad:
                    self.ctx.violation("accepted:not-allowed-value",
                                       "%s of %s accepted although %r=%r is outside %r" % (how, name, k, d[k], al), rec)

    def class_verify(self, m, **kw):
        """("accepted", ret) | ("refused", exception class or 'False')"""
        try:
            r = m.verify(**kw)
        except Exception as e:   # noqa
            return ("refused", type(e).__name__)
        if r is False:
            return ("refused", "False")
        return ("accepted", r)

    def add_verify_case(self, name, m, rec):
        """Message.verify(m): the generic check alone, for the model"""
        from idpyoidc.message import Message
        d = canon(dict(m._dict))
        if not pure_json(d) or "*" in type(m).c_param:
            self.ctx.unmodelled += 1
            return
        out = attempt(lambda: Message.verify(copy.deepcopy(m)))
        if out[0] == "exc" and out[1] not in C.EXC:
            self.ctx.count("skipped-model:exception-class:" + out[1])
            return
        inp = "(%s, %s)" % (coq_str(name), coq_msg(d))
        res = "(Ok tt)" if out[0] == "ok" else "(Err %s)" % C.EXC[out[1]]
        self.cases["verify"].append(("(%s, %s)" % (inp, res), inp, rec))

    # ------------------------------------------------------------ 0. WHICH schema: declaration, run time, import order
    @staticmethod
    def short(name):
        return name[len("idpyoidc.message."):] if name.startswith("idpyoidc.message.") else name[len("idpyoidc."):] \
            if name.startswith("idpyoidc.") else name

    def entry_key(self, name, table, key):
        return "%s.%s[%s]" % (self.short(name), table, key)

    def declared_base(self, name):
        """a message that satisfies the DECLARED schema of the class: plain values for its required parameters, an
        allowed value for an enumerated one"""
        d = self.decl[name]
        kw = {k: C.plain_value(e) for k, e in d["c_param"].items() if e[1] and k != "*"}
        for k, al in d["c_allowed_values"].items():
            ent = d["c_param"].get(k)
            if k in kw and ent is not None and al:
                kw[k] = [al[0]] if isinstance(ent[0], list) else al[0]
        return kw

    def refusing_messages(self, name, table, key, strict, lax):
        """messages that a class enforcing the entry `strict` refuses and a class enforcing `lax` might accept
        (rendered entries, see schema_decl.render_entry; None = no such entry): [(what, kwargs)]"""
        if name not in self.decl:
            return []
        base = self.declared_base(name)
        ent = self.decl[name]["c_param"].get(key)
        out = []
        if table == "c_param":
            if strict is not None and "|required|" in strict and (lax is None or "|required|" not in lax):
                out.append(("required %r absent" % key, {k: v for k, v in base.items() if k != key}))
                if ent is not None and (ent[0] is str or isinstance(ent[0], list)):
                    out.append(("required %r empty" % key, dict(base, **{key: "" if ent[0] is str else []})))
        elif table == "c_allowed_values" and strict is not None:
            try:
                s_vals = json.loads(strict)
                l_vals = json.loads(lax) if lax is not None else None
            except ValueError:
                return []
            extra = ["zz-not-allowed"] if l_vals is None else [v for v in l_vals if v not in s_vals]
            for v in extra[:3]:
                out.append(("%r = %r outside the enumerated set" % (key, v),
                            dict(base, **{key: [v] if ent is not None and isinstance(ent[0], list) else v})))
        return [(w, kw) for w, kw in out if pure_json(kw)]

    def verify_here(self, cls, kw):
        try:
            r = cls(**copy.deepcopy(kw)).verify()
        except Exception as e:   # noqa
            return "refused:" + type(e).__name__
        return "accepted" if r is not False else "refused:False"

    def declared_tie(self):
        """(1) declaration against run time.  Every entry (class, table, key) on which the tables evaluated from the
        source text differ from the tables of the class objects after importing the whole package is a broken
        obligation (the same comparison is the Coq obligation C11_declared_no_drift over Gen/SchemaDecl.v and
        Gen/Schema.v); for every such entry a message that the DECLARATION refuses is verified by the real class:
        accepted = verdict `schema-differs-from-declaration:<class>.<table>[<key>]` with the message as failing input."""
        ctx = self.ctx
        self.rt_tables, self.rt_shared, self.rt_nested = S.runtime_tables(self.classes)
        ctx.count("declared:classes-evaluated", len(self.decl))
        for name, why in self.decl_refused:
            ctx.count("declared:class-refused")
            ctx.notes.append("declared schema of %s not evaluated: %s" % (name, why))
        self.drift = []
        for name, cls in self.classes:
            if name not in self.decl:
                continue
            dt = S.render_tables(self.decl[name])
            n_ent = sum(len(dt[t]) for t in S.TABLES)
            ctx.count("declared:entries-compared", n_ent)
            rec0 = {"class": name, "check": "declared-vs-runtime", "entries": n_ent}
            ctx.case_seen(rec0, n_ent > 0)
            for table, key, d_txt, r_txt in S.diff_tables(dt, self.rt_tables[name]):
                ctx.count("declared:entry-differs")
                ek = self.entry_key(name, table, key)
                self.drift.append((name, table, key, d_txt, r_txt))
                found = False
                for what, kw in self.refusing_messages(name, table, key, d_txt, r_txt):
                    out = self.verify_here(cls, kw)
                    rec = {"class": name, "check": "declared-vs-runtime", "table": table, "key": key,
                           "declared_entry": d_txt, "run_time_entry": r_txt, "message": kw, "verify": out,
                           "imports": "every module of the idpyoidc package (pkgutil.walk_packages order)",
                           "replay": "PYTHONPATH=<repo>/src python -c \"import pkgutil, importlib, idpyoidc; "
                                     "[importlib.import_module(m.name) for m in pkgutil.walk_packages(idpyoidc.__path__, 'idpyoidc.') "
                                     "if m.name != 'idpyoidc.client.oauth2.add_on.identity_assurance']; "
                                     "from %s import %s as X; print(X(**%r).verify())\"" % (cls.__module__, cls.__qualname__.split(".")[0], kw)}
                    ctx.case_seen(rec, True)
                    if out == "accepted":
                        found = True
                        ctx.violation("schema-differs-from-declaration:" + ek,
                                      "verify() of %s accepts %r (%s) although the class DECLARES %s[%r] = %s; the class object "
                                      "holds %s after the package has been imported (another class body or module changed "
                                      "this class's table at import time)" % (name, kw, what, table, key, d_txt, r_txt), rec)
                        break
                if not found:
                    ctx.broken.append("declared schema differs from the run-time table: %s: declared %s, run time %s "
                                      "(no message found that the declaration refuses and verify() accepts)" % (ek, d_txt, r_txt))

    def isolation(self):
        """(2) isolation at run time.  One fresh interpreter per module (every module of idpyoidc.message, every module
        that defines a Message subclass) imports ONLY that module; the tables of every class then loaded must equal
        the tables after importing the whole package (verdict `schema-depends-on-imports:<entry>`, failing input =
        the two import orders and a message whose verify() outcome differs between them), and in every interpreter
        two classes are one dict object only when they get the table from the same class body by plain inheritance
        (`schema-dict-shared:<table>:<classes>`)."""
        import pkgutil
        import idpyoidc.message
        ctx = self.ctx
        src = E.REPO + "/src"
        mods = {"idpyoidc.message"} | {m.name for m in pkgutil.walk_packages(idpyoidc.message.__path__, "idpyoidc.message.")}
        mods = sorted(mods | {cls.__module__ for _, cls in self.classes})
        full = [m.name for m in pkgutil.walk_packages(idpyoidc.__path__, "idpyoidc.") if m.name not in C.KNOWN_UNIMPORTABLE]
        results = S.isolation_probe([[m] for m in mods] + [full], src, python=E.PY)
        ctx.count("isolation:interpreters", len(results))
        ref = results[-1]
        # the reference itself: this process (whole package + harness) against a fresh interpreter with the whole package
        if "error" in ref or ref.get("import_errors"):
            ctx.broken.append("isolation: the whole package does not import in a fresh interpreter: %s"
                              % (ref.get("error") or ref.get("import_errors")))
        else:
            for name, _ in self.classes:
                if ref["tables"].get(name) != self.rt_tables[name]:
                    ctx.broken.append("isolation: tables of %s in this process differ from a fresh interpreter that "
                                      "imports the whole package: %s" % (name, S.diff_tables(ref["tables"].get(name) or
                                                                         {t: [] for t in S.TABLES}, self.rt_tables[name])[:3]))
        differing = []       # (module, class, table, key, isolated entry, entry after everything)
        seen_shared = set()
        byname = self.byname

        def sharing(r, order):
            for t in S.TABLES:
                for g in r["shared"][t]:
                    owners = {}
                    for n in g:
                        o = self.decl_owners.get(n, {}).get(t)
                        owners[n] = o if o is not None else r["owners"].get(n, {}).get(t, "?")
                    ctx.count("isolation:shared-dict-groups")
                    if len(set(owners.values())) > 1:
                        ks = "%s:%s" % (t, "+".join(self.short(n) for n in g))
                        if ks in seen_shared:
                            continue
                        seen_shared.add(ks)
                        rec = {"check": "shared-dict", "table": t, "classes": g, "declaring_class_of_each": owners,
                               "imports": order}
                        ctx.case_seen(rec, True)
                        ctx.violation("schema-dict-shared:" + ks,
                                      "%s of %s are ONE dict object although they are declared by different class bodies "
                                      "(%s): a change made through one class changes what the others enforce" % (t, g, owners), rec)
            for t in S.TABLES:
                ctx.count("observation:isolation:inner-list-shared-between-tables", len(r.get("nested", {}).get(t, [])))

        for r in results[:-1]:
            m = r["order"][0]
            if "error" in r:
                ctx.broken.append("isolation: interpreter for %s failed: %s" % (m, r["error"]))
                continue
            if r["import_errors"]:
                if m in C.KNOWN_UNIMPORTABLE:
                    ctx.count("isolation:known-unimportable")
                    continue
                ctx.broken.append("isolation: %s does not import on its own: %s" % (m, r["import_errors"]))
                continue
            ctx.count("isolation:modules")
            sharing(r, r["order"])
            for name, tabs in sorted(r["tables"].items()):
                if name not in self.rt_tables:
                    ctx.broken.append("isolation: class %s appears when only %s is imported but not in the whole package" % (name, m))
                    continue
                ctx.count("isolation:class-tables-compared")
                rec0 = {"check": "isolation", "imports": [m], "class": name}
                ds = S.diff_tables(tabs, self.rt_tables[name])
                ctx.case_seen(rec0, bool(tabs["c_param"]))
                for table, key, a, b in ds:
                    ctx.count("isolation:entry-differs")
                    differing.append((m, name, table, key, a, b))
        sharing({"shared": self.rt_shared, "owners": {n: {t: S.runtime_owner(c, t) for t in S.TABLES} for n, c in self.classes},
                 "nested": self.rt_nested}, "every module of the package")
        if not differing:
            return
        # directed search: which second import makes the entry change, and a message that tells the two orders apart
        by_entry = {}
        for m, name, table, key, a, b in differing:
            by_entry.setdefault((name, table, key, a, b), []).append(m)
        by_first = {}       # one round of interpreters per first module
        for ent, ms in sorted(by_entry.items(), key=lambda x: repr(x)):
            name = ent[0]
            m = byname[name].__module__ if byname[name].__module__ in ms else ms[0]
            by_first.setdefault(m, []).append((ent, ms))
        for m, ents in sorted(by_first.items()):
            msgs, probes = {}, []
            for j, ((name, table, key, a, b), ms) in enumerate(ents):
                msgs[j] = self.refusing_messages(name, table, key, a, b) + \
                    [("(reverse) " + w, kw) for w, kw in self.refusing_messages(name, table, key, b, a)]
                probes += [{"id": "%d:%d" % (j, i), "class": name, "message": kw} for i, (w, kw) in enumerate(msgs[j])]
            seconds = [x for x in mods if x != m]
            rs = S.isolation_probe([[m]] + [[m, x] for x in seconds] + [full], src, python=E.PY, probes=probes)
            ctx.count("isolation:interpreters", len(rs))
            first, last = rs[0], rs[-1]
            for j, ((name, table, key, a, b), ms) in enumerate(ents):
                ek = self.entry_key(name, table, key)
                culprit = None      # the second import that loads the least and makes the entry change
                for x, r in zip(seconds, rs[1:-1]):
                    if "error" not in r and "error" not in first and r["tables"].get(name) and any(
                            (t2, k2) == (table, key) for t2, k2, _, _ in S.diff_tables(first["tables"][name], r["tables"][name])):
                        if culprit is None or len(r["tables"]) < len(culprit["tables"]):
                            culprit = r
                after = culprit or last
                rec = {"check": "isolation", "class": name, "table": table, "key": key,
                       "imports_A": [m], "entry_A": a, "imports_B": after["order"] if culprit else "every module of the package",
                       "entry_B": b, "modules_where_A_was_seen": ms}
                hit = None
                for i, (w, kw) in enumerate(msgs[j]):
                    pid = "%d:%d" % (j, i)
                    oa, ob = first.get("probe", {}).get(pid), after.get("probe", {}).get(pid)
                    if oa is not None and ob is not None and oa != ob and "accepted" in (oa, ob):
                        hit = (w, kw, oa, ob)
                        break
                ctx.case_seen(rec, True)
                if hit:
                    w, kw, oa, ob = hit
                    rec.update({"message": kw, "verify_under_A": oa, "verify_under_B": ob,
                                "replay": "PYTHONPATH=<repo>/src python -c \"import importlib; [importlib.import_module(m) for m in <imports>]; "
                                          "from %s import %s as X; print(X(**%r).verify())\""
                                          % (byname[name].__module__, byname[name].__qualname__.split(".")[0], kw)})
                    ctx.violation("schema-depends-on-imports:" + ek,
                                  "%s of %s depends on what has been imported: with %s alone it is %s and verify() of %r is %s; after "
                                  "importing %s it is %s and the same verify() is %s (%s)"
                                  % ("%s[%r]" % (table, key), name, [m], a, kw, oa, rec["imports_B"], b, ob, w), rec)
                else:
                    ctx.broken.append("schema depends on the import order: %s is %s when only %s is imported and %s after %s "
                                      "(no message found whose verify() outcome differs)" % (ek, a, m, b, rec["imports_B"]))

    # ------------------------------------------------------------ A. single-fault matrix
    def base_message(self, name, cls):
        kw = {k: C.plain_value(e) for k, e in self.tables_of(cls)[0].items() if e[1] and k != "*"}
        # parameters that would need a key jar are left out of the base message when optional
        b = attempt(lambda: cls(**copy.deepcopy(kw)))
        return kw, b

    def faults(self):
        from idpyoidc.message import Message
        ctx = self.ctx
        for name, cls in self.classes:
            kw, b = self.base_message(name, cls)
            if b[0] == "exc":
                ctx.count("base-message-refused")
                continue
            m0 = b[1]
            c_param, c_allowed = self.tables_of(cls)
            # enumerated parameters take an allowed value in the base message
            for k, al in c_allowed.items():
                ent = c_param.get(k)
                if ent is not None and al:
                    m0._dict[k] = [al[0]] if isinstance(ent[0], list) else al[0]
            rec0 = {"class": name, "fault": None, "message": canon(dict(m0._dict))}
            g0 = attempt(lambda: Message.verify(copy.deepcopy(m0)))
            self.add_verify_case(name, m0, rec0)
            c0 = self.class_verify(copy.deepcopy(m0))
            ctx.case_seen(rec0, c0[0] == "accepted")
            ctx.count("base:generic-" + ("accepted" if g0[0] == "ok" else "refused"))
            ctx.count("base:class-" + c0[0])
            if c0[0] == "accepted":
                self.accepting.add(name)
            if g0[0] != "ok":
                ctx.notes.append("generic verify refuses the base message of %s (%s)" % (name, g0[1]))
            faults = []
            for k, ent in c_param.items():
                if k == "*":
                    continue
                typ = ent[0]
                if isinstance(typ, list):
                    empties = [None, [], [""]]
                elif typ is str:
                    empties = [None, ""]
                elif typ is dict:
                    empties = [None, {}]
                else:
                    empties = [None]
                if ent[1]:
                    faults.append((k, "removed", "<del>"))
                    for e in empties:
                        faults.append((k, "emptied", e))
                else:
                    for e in empties[:2]:
                        faults.append((k, "optional-emptied", e))
                al = c_allowed.get(k)
                if al is not None:
                    faults.append((k, "not-allowed", ["zz-not-allowed"] if isinstance(ent[0], list) else "zz-not-allowed"))
                    if isinstance(ent[0], list) and al:
                        faults.append((k, "not-allowed", [al[0], "zz-not-allowed"]))
                    faults.append((k, "allowed", [al[-1]] if isinstance(ent[0], list) and al else (al[-1] if al else "x")))
            if ctx.quick and len(faults) > 40:
                keep = [f for f in faults if f[1] in ("removed", "not-allowed")]
                rest = [f for f in faults if f[1] not in ("removed", "not-allowed")]
                faults = keep + self.rng.sample(rest, max(0, 40 - len(keep)))
            for k, what, val in faults:
                m = copy.deepcopy(m0)
                if val == "<del>":
                    m._dict.pop(k, None)
                elif what in ("emptied", "optional-emptied"):
                    try:
                        m[k] = copy.deepcopy(val)          # Message.__setitem__
                    except Exception as e:   # noqa
                        ctx.count("fault:%s:refused-at-assignment" % what)
                        continue
                    if k not in m._dict or canon(m._dict[k]) != val:
                        ctx.count("fault:%s:assignment-normalised" % what)
                        continue
                else:
                    m._dict[k] = copy.deepcopy(val)
                rec = {"class": name, "fault": [k, what, val], "message": canon(dict(m._dict))}
                self.add_verify_case(name, m, rec)
                g = attempt(lambda: Message.verify(copy.deepcopy(m)))
                mm = copy.deepcopy(m)
                cv = self.class_verify(mm)
                ctx.case_seen(rec, name in self.accepting)
                ctx.count("fault:%s:generic-%s" % (what, "accepted" if g[0] == "ok" else "refused"))
                ctx.count("fault:%s:class-%s" % (what, cv[0]))
                if g[0] == "ok":
                    self.schema_oracle(name, cls, m, rec, "Message.verify")
                if cv[0] == "accepted":
                    self.schema_oracle(name, cls, mm, rec, "verify()")

    # ------------------------------------------------------------ B. typed slots
    FOREIGN = [("null", None), ("bool", True), ("int", 7), ("int0", 0), ("float", 3.7), ("float-integral", 3.0),
               ("str", "x y"), ("str-int", "12"), ("str-int-padded", " 1_2 "), ("str-json", '{"a": 1}'),
               ("list-str", ["a", "b c"]), ("list-int", [1, 2]), ("list-dict", [{"a": 1}]), ("dict", {"a": "b"}),
               ("list-empty", []), ("dict-empty", {}), ("list-none", [None]), ("list-one", ["solo"]),
               # lists whose elements are of different types: one element of the declared type does not vouch for the rest
               ("list-mixed-str-int", ["a", 7]), ("list-mixed-int-str", [1, "b"]), ("list-mixed-str-null", ["a", None]),
               ("list-mixed-dict-str", [{"a": 1}, "s"]), ("list-mixed-str-dict-bool", ["pwd", {"otp": True}, False])]

    def slot_oracle(self, name, cls, k, ent, given, stored, rec, path):
        """stored has the declared type and is `given` or a lossless coercion of it"""
        from idpyoidc.message import Message
        import typing
        typ, _, ser, deser, null = ent
        lst = isinstance(typ, list) and len(typ) == 1
        elem = typ[0] if lst else typ
        if elem is typing.Any:
            return

        def is_t(x, t):
            if t is int:
                return isinstance(x, int) and not isinstance(x, bool)
            if t is Message or (isinstance(t, type) and issubclass(t, Message)):
                # Message-typed slots: the code documents dict and str (a JWT) as serialised forms
                return isinstance(x, (t, dict, str)) if deser is None else isinstance(x, t)
            return isinstance(x, t)
        ok_type = (isinstance(stored, list) and all(is_t(x, elem) for x in stored)) if lst else is_t(stored, elem)
        if stored is None:
            if given is None and null:
                return
            sig = "slot:null-stored" if given is None else "slot:%s<-%s:none" % (slot_name(ent), jtype(given))
            self.ctx.violation(sig, "%s of %s: parameter %r (declared %s, null not allowed) given %r holds None"
                               % (path, name, k, tname(typ), given), rec)
            return
        if not ok_type:
            self.ctx.violation("slot:%s<-%s" % (slot_name(ent), jtype(given)),
                               "%s of %s: parameter %r declared %s given %r stores %r (%s)"
                               % (path, name, k, tname(typ), given, canon(stored), jtype(stored)), rec)
            return
        # lossless?
        g, s = given, canon(stored)
        lossless = False
        if json.dumps(g, sort_keys=True, default=repr) == json.dumps(s, sort_keys=True, default=repr):
            lossless = True
        elif elem is int and not lst and isinstance(g, str):
            try:
                lossless = int(g) == s
            except ValueError:
                lossless = False
        elif elem is int and not lst and isinstance(g, float):
            lossless = g == s
        elif lst and elem is str and isinstance(g, str):
            lossless = s == [g] or " ".join(s) == g
        elif lst and elem is str and isinstance(g, list) and len(g) == 1 and isinstance(g[0], str):
            lossless = " ".join(s) == g[0]
        elif isinstance(g, (dict, list)) and not g and not s:
            lossless = True
        elif lst and isinstance(g, list) and isinstance(s, list) and len(g) == len(s) and \
                all(isinstance(x, dict) and "__msg__" in x for x in s):
            lossless = all(x["d"] == y or (isinstance(y, dict) and all(k2 in x["d"] for k2 in y)) for x, y in zip(s, g))
        elif lst and isinstance(g, dict) and isinstance(s, list) and len(s) == 1:
            lossless = (s[0].get("d") if isinstance(s[0], dict) and "__msg__" in s[0] else s[0]) == g
        elif isinstance(s, dict) and "__msg__" in s:
            inner = s["d"]
            if isinstance(g, str):
                try:
                    g = json.loads(g)
                except ValueError:
                    pass
            lossless = isinstance(g, dict) and all(k2 in inner for k2 in g)
        elif elem is dict and isinstance(g, str):
            try:
                lossless = json.loads(g) == s
            except ValueError:
                lossless = False
        if not lossless:
            self.ctx.violation("slot:%s<-%s:lossy" % (slot_name(ent), jtype(given)),
                               "%s of %s: parameter %r declared %s given %r stores %r" % (path, name, k, tname(typ), given, s), rec)

    def slot_cell(self, name, cls, k, ent, tag, v):
        ctx = self.ctx
        rec = {"class": name, "param": k, "given": v, "kind": kind_sig(ent)}
        out = attempt(lambda: cls(set_defaults=False, **{k: copy.deepcopy(v)}))
        ctx.case_seen(rec, True)
        if out[0] == "exc":
            ctx.count("slot:%s:rejected" % tag)
        elif k not in out[1]._dict:
            ctx.count("slot:%s:dropped" % tag)
        else:
            ctx.count("slot:%s:stored" % tag)
            self.slot_oracle(name, cls, k, ent, v, out[1]._dict[k], rec, "construction")
        # the same cell for the model (modelled kinds, values of the pyval universe, no defaults)
        if tier1(ent) and pure_json(v) and "*" not in cls.c_param and not cls.c_default:
            res = ("ok", canon(dict(out[1]._dict))) if out[0] == "ok" else out
            if res[0] == "exc" and res[1] not in C.EXC:
                ctx.count("skipped-model:exception-class:" + res[1])
            else:
                inp = "(%s, %s)" % (coq_str(name), coq_msg({k: v}))
                self.cases["construct"].append(("(%s, %s)" % (inp, coq_res(res, coq_msg)), inp, rec))

    def form_cell(self, name, cls, k, ent, txt):
        """form encoding: only text can arrive; a typed slot must not hold text that is not a
        rendering of its type"""
        ctx = self.ctx
        typ = ent[0]
        rec = {"class": name, "param": k, "from_urlencoded": "%s=%s" % (k, txt), "kind": kind_sig(ent)}
        out = attempt(lambda: cls(set_defaults=False).from_urlencoded("%s=%s" % (k, txt)))
        ctx.case_seen(rec, True)
        if out[0] == "ok" and k in out[1]._dict:
            st = out[1]._dict[k]
            good = (typ is int and isinstance(st, int) and not isinstance(st, bool)) or (typ is bool and isinstance(st, bool))
            if isinstance(st, str):
                if typ is int:
                    try:
                        int(st)
                        good = True
                    except ValueError:
                        good = False
                else:
                    good = st in ("True", "False", "true", "false")
            if not good:
                ctx.violation("slot:%s<-form-text" % tname(typ),
                              "from_urlencoded of %s: parameter %r declared %s stores the text %r" % (name, k, tname(typ), st), rec)
            ctx.count("slot:form:stored")
        else:
            ctx.count("slot:form:rejected")

    # every listed known finding of the typed-slot clause has a fixed witness, replayed on every run
    SLOT_WITNESSES = [
        ("idpyoidc.message.oidc.RegistrationRequest", "contacts", {"a": "b"}),
        ("idpyoidc.message.oauth2.AccessTokenResponse", "scope", {"a": "b"}),
        ("idpyoidc.message.oauth2.AccessTokenResponse", "expires_in", 3.7),
        ("idpyoidc.message.oauth2.AccessTokenResponse", "access_token", None),
        ("idpyoidc.message.oidc.RegistrationRequest", "jwks", 7),
        ("idpyoidc.message.oidc.RegistrationRequest", "jwks", 3.7),
        ("idpyoidc.message.oidc.RegistrationRequest", "jwks", ["a", "b c"]),
        ("idpyoidc.message.oidc.RegistrationRequest", "jwks", "x y"),
        ("idpyoidc.message.oidc.AuthorizationRequest", "registration", "12"),
        ("idpyoidc.message.oidc.identity_assurance.Attestation", "date_of_issuance", 7),
        ("idpyoidc.message.oidc.identity_assurance.Attestation", "date_of_issuance", 3.7),
        ("idpyoidc.message.oidc.identity_assurance.CheckDetails", "time", 7),
        ("idpyoidc.message.oidc.identity_assurance.CheckDetails", "time", 3.7),
        ("idpyoidc.message.oidc.identity_assurance.Document", "document_details", {"a": "b"}),
        ("idpyoidc.message.oidc.identity_assurance.Document", "document_details", '{"a": 1}'),
        ("idpyoidc.message.oidc.identity_assurance.VerificationElement", "evidence", {"a": "b"}),
        ("idpyoidc.message.oidc.JRD", "links", {"a": "b"}),
    ]
    FORM_WITNESSES = [("idpyoidc.message.oauth2.AccessTokenResponse", "expires_in", "abc"),
                      ("idpyoidc.message.oauth2.TokenIntrospectionResponse", "active", "abc")]

    def witnesses(self):
        from idpyoidc.message import Message
        for cname, k, v in self.SLOT_WITNESSES:
            cls = self.byname.get(cname)
            if cls is None or k not in cls.c_param:
                self.ctx.notes.append("witness %s.%s no longer exists" % (cname, k))
                continue
            self.slot_cell(cname, cls, k, cls.c_param[k], "witness", v)
        for cname, k, txt in self.FORM_WITNESSES:
            cls = self.byname.get(cname)
            if cls is None or k not in cls.c_param:
                self.ctx.notes.append("witness %s.%s no longer exists" % (cname, k))
                continue
            self.form_cell(cname, cls, k, cls.c_param[k], txt)
        # a required list parameter holding only the empty string
        cls = self.byname.get("idpyoidc.message.oauth2.AuthorizationRequest")
        if cls is not None:
            m = cls(response_type="code", client_id="c")
            m["response_type"] = [""]
            rec = {"class": "idpyoidc.message.oauth2.AuthorizationRequest", "fault": ["response_type", "emptied", [""]],
                   "message": canon(dict(m._dict))}
            self.ctx.case_seen(rec, True)
            if attempt(lambda: Message.verify(copy.deepcopy(m)))[0] == "ok":
                self.schema_oracle("idpyoidc.message.oauth2.AuthorizationRequest", cls, m, rec, "Message.verify")

    def slots(self):
        ctx, rng = self.ctx, self.rng
        for name, cls in self.classes:
            params = [(k, e) for k, e in cls.c_param.items() if k != "*"]
            for k, ent in params:
                foreign = self.FOREIGN if not ctx.quick else rng.sample(self.FOREIGN, 9)
                for tag, v in foreign:
                    self.slot_cell(name, cls, k, ent, tag, v)
                if ent[0] in (int, bool):
                    for txt in ("abc", "12", "True", "1.5"):
                        self.form_cell(name, cls, k, ent, txt)

    # ------------------------------------------------------------ C. cross-parameter rules
    def authz_table(self):
        from idpyoidc.message.oidc import AuthorizationRequest, OpenIDRequest
        ctx = self.ctx
        rts = [["code"], ["id_token"], ["code", "id_token"]]
        nonces = [None, "n"]
        kws = [None, "n", "other"]
        scopes = [["openid"], ["profile"], ["openid", "offline_access"]]
        prompts = [None, ["consent"], ["none"], ["none", "consent"], ["login"]]
        displays = [None, "page", "tv"]
        rows = list(itertools.product(rts, nonces, kws, scopes, prompts, displays))
        if ctx.quick:
            rows = self.rng.sample(rows, 270)
        for cname, cls in (("idpyoidc.message.oidc.AuthorizationRequest", AuthorizationRequest),
                           ("idpyoidc.message.oidc.OpenIDRequest", OpenIDRequest)):
            for rt, nonce, kw, scope, prompt, display in rows:
                args = {"response_type": rt, "client_id": "c", "scope": scope, "redirect_uri": "https://rp/cb"}
                if nonce:
                    args["nonce"] = nonce
                if prompt:
                    args["prompt"] = prompt
                if display:
                    args["display"] = display
                m = cls(**copy.deepcopy(args))
                before = canon(dict(m._dict))
                kwargs = {"nonce": kw} if kw else {}
                rec = {"class": cname, "args": args, "verify_kwargs": kwargs}
                out = self.class_verify(m, **kwargs)
                ctx.case_seen(rec, out[0] == "accepted")
                ctx.count("authz:" + out[0])
                # oracle: the rules as the specification states them
                ok = True
                if "id_token" in rt and (not nonce or (kw and kw != nonce)):
                    ok = False
                if "openid" not in scope:
                    ok = False
                if "offline_access" in scope and not (prompt and "consent" in prompt):
                    ok = False
                if prompt and "none" in prompt and len(prompt) > 1:
                    ok = False
                if display == "tv":
                    ok = False
                if out[0] == "accepted" and not ok:
                    ctx.violation("rules:AuthorizationRequest", "verify(%r) of %s accepted %r" % (kwargs, cname, args), rec)
                if out[0] == "accepted":
                    self.schema_oracle(cname, cls, m, rec, "verify()")
                if out[0] == "refused" and ok:
                    ctx.count("authz:refused-a-conforming-request")
                # the model
                if out[0] == "accepted":
                    res = "(Ok %s)" % coq_msg(canon(dict(m._dict)))
                else:
                    if out[1] not in C.EXC:
                        ctx.count("skipped-model:exception-class:" + out[1])
                        continue
                    res = "(Err %s)" % C.EXC[out[1]]
                inp = "(%s, %s, %s)" % (coq_str(cname), coq_opt(kw, coq_str, "pystr"), coq_msg(before))
                self.cases["authz"].append(("(%s, %s)" % (inp, res), inp, rec))

    # ------------------------------------------------------------ C2. the other classes' rules
    NOW = 1700000000

    def set_clock(self, on):
        import idpyoidc.time_util as tu
        import idpyoidc.message.oidc as mo
        import idpyoidc.message.oidc.session as ms
        if on:
            self._clock = (tu.utc_time_sans_frac, mo.utc_time_sans_frac, ms.utc_time_sans_frac)
            f = lambda: self.NOW   # noqa
            tu.utc_time_sans_frac = mo.utc_time_sans_frac = ms.utc_time_sans_frac = f
        else:
            tu.utc_time_sans_frac, mo.utc_time_sans_frac, ms.utc_time_sans_frac = self._clock

    def rule_case(self, rule, cname, args, kw, oracle, inject=None):
        """one row of a truth table: build the message, run the real verify(), hand the same row to the
        model (class_rules) and apply the rule oracle `oracle(message after, kwargs) -> [what is wrong]`
        when verify() accepted"""
        ctx = self.ctx
        cls = self.byname[cname]
        b = attempt(lambda: cls(**copy.deepcopy(args)))
        rec = {"class": cname, "rule": rule, "args": canon(args), "verify_kwargs": canon(kw), "inject": canon(inject)}
        if b[0] == "exc":
            ctx.count("rules:%s:not-constructible" % rule)
            return
        m = b[1]
        for k, v in (inject or {}).items():
            m._dict[k] = copy.deepcopy(v)
        before = canon(dict(m._dict))
        try:
            r = m.verify(**copy.deepcopy(kw))
            out = ("ok", r is not False)
        except Exception as e:   # noqa
            out = ("exc", type(e).__name__)
        accepted = out == ("ok", True)
        ctx.case_seen(rec, accepted)
        ctx.count("rules:%s:%s" % (rule, "accepted" if accepted else ("returned-False" if out[0] == "ok" else "refused")))
        if accepted:
            bad = oracle(m, kw)
            if bad:
                ctx.violation("rules:" + cname.split(".")[-1], "verify(%r) of %s accepted %r: %s"
                              % (kw, cname, before, "; ".join(bad)), rec)
            self.schema_oracle(cname, cls, m, rec, "verify()")
        after = canon(dict(m._dict))
        if not (pure_json(before) and pure_json(after) and pure_json(kw)):
            ctx.unmodelled += 1
            return
        if out[0] == "exc" and out[1] not in C.EXC:
            ctx.count("skipped-model:exception-class:" + out[1])
            return
        inp = "(%s, %s, %s, %s, %s)" % (coq_str(rule), coq_str(cname), E.coq_z(self.NOW), coq_msg(kw), coq_msg(before))
        res = "(Ok (%s, %s))" % (E.coq_bool(out[1]), coq_msg(after)) if out[0] == "ok" else "(Err %s)" % C.EXC[out[1]]
        self.cases["rules"].append(("(%s, %s)" % (inp, res), inp, rec))

    def rules_tables(self):
        import datetime
        import re
        from urllib.parse import urlsplit
        ctx, rng = self.ctx, self.rng
        quick = ctx.quick
        NOW = self.NOW
        O = "idpyoidc.message.oidc."
        self.set_clock(True)
        try:
            self._rules_tables(O, NOW, quick, rng, datetime, re, urlsplit)
        finally:
            self.set_clock(False)

    def _rules_tables(self, O, NOW, quick, rng, datetime, re, urlsplit):
        def pick(rows, n):
            """the whole table (thorough), or in the quick tier: the first row (all dimensions at their
            first, conforming, value), every single-dimension deviation from it, and a random sample"""
            rows = list(rows)
            if not quick or len(rows) <= n:
                return rows
            base = rows[0]
            single = [r for r in rows if sum(1 for a, b in zip(r, base) if a != b) <= 1]
            return single + rng.sample(rows, n)

        # ---- error_description (oauth2.ResponseMessage and every subclass that only inherits it)
        def o_resp(m, kw):
            d = m._dict.get("error_description")
            if isinstance(d, str) and not all(0x20 <= ord(c) <= 0x7e and c not in '"\\' for c in d):
                return ["error_description outside %x20-21 / %x23-5B / %x5D-7E"]
            return []
        for cname in ("idpyoidc.message.oauth2.ResponseMessage", "idpyoidc.message.oauth2.TokenErrorResponse",
                      O + "UserInfoErrorResponse"):
            for desc in (None, "Bad thing!", "bad: thing", "quote\"", "tab\t", "åä", "x" * 5, "A B!"):
                for err in (None, "invalid_request", "zz"):
                    args = {}
                    if desc is not None:
                        args["error_description"] = desc
                    if err:
                        args["error"] = err
                    self.rule_case("response", cname, args, {}, o_resp)

        # ---- oauth2 / oidc AuthorizationResponse
        def o_azr(m, kw):
            bad = o_resp(m, kw)
            d = m._dict
            if "client_id" in d and "client_id" in kw and d["client_id"] != kw["client_id"]:
                bad.append("client_id is not the expected one")
            if "iss" in d and "iss" in kw and d["iss"] != kw["iss"]:
                bad.append("iss is not the expected issuer")
            if "aud" in d and "client_id" in kw and type(m).__module__.endswith("oidc"):
                aud = d["aud"] if isinstance(d["aud"], list) else [d["aud"]]
                if kw["client_id"] not in aud and not (isinstance(d["aud"], str) and kw["client_id"] in d["aud"]):
                    bad.append("aud does not contain the client")
            return bad
        rows = itertools.product([None, "c"], [None, "c", "d"], [None, "https://i"], [None, "https://i", "https://j"],
                                 [None, "fine text", "bad:1"], [None, ["c"], ["d", "e"], ["d", "c"], "c"])
        for cid, kcid, iss, kiss, desc, aud in pick(rows, 160):
            args = {"code": "x"}
            kw = {}
            if cid:
                args["client_id"] = cid
            if iss:
                args["iss"] = iss
            if desc:
                args["error_description"] = desc
            if kcid:
                kw["client_id"] = kcid
            if kiss:
                kw["iss"] = kiss
            if aud is None or aud == ["c"]:
                self.rule_case("authzresp-oauth2", "idpyoidc.message.oauth2.AuthorizationResponse", dict(args), kw, o_azr)
            if aud is not None:
                args["aud"] = aud
            self.rule_case("authzresp-oidc", O + "AuthorizationResponse", args, kw, o_azr)

        # ---- RegistrationResponse
        def o_regresp(m, kw):
            return (["only one of registration_client_uri / registration_access_token"]
                    if ("registration_client_uri" in m) != ("registration_access_token" in m) else []) + o_resp(m, kw)
        for uri, at, desc in itertools.product([None, "https://op/reg?c=1"], [None, "tok"], [None, "fine", "bad:1"]):
            args = {"client_id": "c", "redirect_uris": ["https://rp/cb"]}
            if uri:
                args["registration_client_uri"] = uri
            if at:
                args["registration_access_token"] = at
            if desc:
                args["error_description"] = desc
            self.rule_case("regresp", O + "RegistrationResponse", args, {}, o_regresp)

        # ---- RegistrationRequest
        pre = ["request_object_encryption", "id_token_encrypted_response", "userinfo_encrypted_response"]

        def o_regreq(m, kw):
            bad = []
            for q in pre:
                if (q + "_enc") in m and (q + "_alg") not in m:
                    bad.append(q + "_enc without _alg")
            if "initiate_login_uri" in m and not str(m["initiate_login_uri"]).startswith("https:"):
                bad.append("initiate_login_uri not https")
            if m.get("token_endpoint_auth_signing_alg") == "none":
                bad.append("token_endpoint_auth_signing_alg none")
            return bad
        ae = [(None, None), ("RSA-OAEP", None), (None, "A128GCM"), ("RSA-OAEP", "A256GCM")]
        rows = itertools.product(ae, ae, ae, [None, "http://rp/login", "https://rp/login", "https:", "HTTPS://rp"],
                                 [None, "none", "RS256"], [None, "tv"])
        for p0, p1, p2, ilu, tesa, app in pick(rows, 250):
            args = {"redirect_uris": ["https://rp/cb"]}
            for q, (a, e) in zip(pre, (p0, p1, p2)):
                if a:
                    args[q + "_alg"] = a
                if e:
                    args[q + "_enc"] = e
            if ilu:
                args["initiate_login_uri"] = ilu
            if tesa:
                args["token_endpoint_auth_signing_alg"] = tesa
            if app:
                args["application_type"] = app
            self.rule_case("regreq", O + "RegistrationRequest", args, {}, o_regreq)

        # ---- ProviderConfigurationResponse
        def o_pcr(m, kw):
            bad = o_resp(m, kw)
            d = m._dict
            u = urlsplit(d["issuer"])
            if "allow_http" not in kw and u.scheme != "https":
                bad.append("issuer is not https")
            if u.query or u.fragment:
                bad.append("issuer has a query or fragment")
            if "scopes_supported" in d and "openid" not in d["scopes_supported"]:
                bad.append("scopes_supported lacks openid")
            if "none" in d.get("token_endpoint_auth_signing_alg_values_supported", []):
                bad.append("none among token_endpoint_auth_signing_alg_values_supported")
            if all(a.lower() == "none" for a in d["id_token_signing_alg_values_supported"]):
                bad.append("no real id_token signing algorithm")
            # the code flow and every hybrid flow (a response type that contains the word code) need a token endpoint
            if any("code" in rt.split(" ") for rt in d["response_types_supported"]) and "token_endpoint" not in d:
                bad.append("code / hybrid response type without token_endpoint")
            return bad
        issuers = ["https://op.example", "http://op.example", "HTTPS://op.example", "https://op.example/path",
                   "https://op.example?x=1", "https://op.example#frag", "https://op.example/p?", "https://op.example/#",
                   "op.example", "https:op", "ftp://x", "://x", "1https://x", "https://op.example/a?b#c", "h+t.p-s://x",
                   "https://op.example/a#?b", "https", "https://[::1]/x", "https://op.exämple"]
        rts = [["code"], ["id_token"], ["id_token", "token id_token"], ["code id_token"], ["code token", "code id_token token"],
               ["token", "xcodex"], ["none"], ["id_token", "code id_token"], ["id_token token", "code token"]]
        tes = [None, "https://op/token"]
        scopes = [None, ["openid"], ["profile"], ["openid", "a!b"], ["openid", "sp ace"], ["openid", "back\\slash"],
                  ["openid", "tilde~{"], ["profile", "openid", "x\"y"]]
        tealgs = [None, ["RS256"], ["none"], ["RS256", "none"]]
        idalgs = [["RS256"], ["none"], ["None", "NONE"], ["none", "ES256"], ["HS256"]]
        descs = [None, "Bad thing!", "bad: thing"]

        def pcr(iss, rt, te, sc, ta, ia, allow, desc):
            args = {"issuer": iss, "authorization_endpoint": "https://op/a", "jwks_uri": "https://op/j",
                    "response_types_supported": rt, "subject_types_supported": ["public"],
                    "id_token_signing_alg_values_supported": ia}
            if te:
                args["token_endpoint"] = te
            if sc is not None:
                args["scopes_supported"] = sc
            if ta is not None:
                args["token_endpoint_auth_signing_alg_values_supported"] = ta
            if desc:
                args["error_description"] = desc
            self.rule_case("pcr", O + "ProviderConfigurationResponse", args, {"allow_http": True} if allow else {}, o_pcr)
        b = ("https://op.example", ["code"], "https://op/token", ["openid"], ["RS256"], ["RS256"], False, None)
        for rt, te in itertools.product(rts, tes):                      # every response-type set x token_endpoint
            pcr(b[0], rt, te, *b[3:])
        for iss, allow in itertools.product(issuers, [False, True]):    # every issuer shape x allow_http
            pcr(iss, b[1], b[2], b[3], b[4], b[5], allow, None)
        for sc in scopes:
            pcr(b[0], b[1], b[2], sc, b[4], b[5], False, None)
        for ta, ia in itertools.product(tealgs, idalgs):
            pcr(b[0], b[1], b[2], b[3], ta, ia, False, None)
        for d in descs:
            pcr(*b[:7], d)
        for row in pick(itertools.product(issuers[:8], rts, tes, scopes[:4], tealgs[:3], idalgs[:3], [False, True], descs[:2]),
                        200 if quick else 4000):
            pcr(*row)

        # ---- OpenIDSchema: birthdate formats, None values
        bd_re = re.compile(r"^(\d{4})-(1[0-2]|0[1-9]|[1-9])-(3[01]|[12]\d|0[1-9]| ?[1-9])$")

        def o_openid(m, kw):
            bad = o_resp(m, kw)
            d = m._dict
            if any(v is None for v in d.values()):
                bad.append("a parameter holds None")
            bd = d.get("birthdate")
            if isinstance(bd, str):
                ok = False
                mt = bd_re.match(bd)
                if mt:
                    y, mo_, da = int(mt.group(1)), int(mt.group(2)), int(mt.group(3))
                    try:
                        datetime.date(y if y else 1904, mo_, da)
                        ok = True
                    except ValueError:
                        ok = False
                elif re.match(r"^\d{4}$", bd) and int(bd) >= 1:
                    ok = True
                if not ok:
                    bad.append("birthdate is not YYYY-MM-DD, YYYY or 0000-MM-DD")
            return bad
        bds = [None, "1990-01-31", "1990-1-1", "1990-02-29", "2000-02-29", "1900-02-29", "2004-2-29", "0000-02-29",
               "0000-02-30", "0000-12-25", "0000", "0001", "9999", "1990", "199", "19900", "1990-13-01", "1990-00-10",
               "1990-01-00", "1990-01-32", "1990-04-31", "1990-01- 5", "1990-01-5 ", "1990- 1-05", "abcd", "1990-01",
               "1990-01-01-01", "٢٠٢٠", "1990-011-1", "1990-1-011", "-1990", "1990-02-28", "1990-06-30",
               "1990-06-31", "0000-01-01", "0000-1-1", "0000-00-10", "1990-10-10", "1990-12-31", "1990-09-31",
               "0000-04-31", "0000-2-29", "2100-02-29", "2400-02-29", "1990-1-31", "1990-11-31", "1990/01/01", "1990-01-1O"]
        for bd in bds:
            for none_val in (False, True):
                args = {"sub": "s"}
                if bd is not None:
                    args["birthdate"] = bd
                inj = {"nickname": None} if none_val else None
                self.rule_case("openid", O + "OpenIDSchema", args, {}, o_openid, inject=inj)

        # ---- IdToken
        def o_idt(m, kw):
            d = m._dict
            bad = []
            skew = kw.get("skew", 0)
            if "iss" in kw and kw["iss"] != d.get("iss"):
                bad.append("issuer mismatch")
            aud = d.get("aud", [])
            if "client_id" in kw and kw["client_id"] not in aud:
                bad.append("not in audience")
            if len(aud) > 1 and d.get("azp") not in aud:
                bad.append("several audiences without a matching azp")
            if "azp" in d and "client_id" in kw and d["azp"] != kw["client_id"]:
                bad.append("azp is another client")
            if d["exp"] < NOW - skew:
                bad.append("expired")
            if d["iat"] > NOW + skew:
                bad.append("issued in the future")
            if d["iat"] + kw.get("nonce_storage_time", 4 * 3600) < NOW - skew:
                bad.append("issued too long ago")
            if d["exp"] < d["iat"]:
                bad.append("expires before it was issued")
            if "nonce" in kw and "nonce" in d and kw["nonce"] != d["nonce"]:
                bad.append("nonce mismatch")
            return bad
        rows = itertools.product([None, "https://op.example", "https://evil"], [["c"], ["c", "d"], ["d"], ["d", "c", "e"]],
                                 [None, "c", "d", "z"], [None, "c"], [600, -600, -1, 0, 1], [0, 900, -20000, 1, -14400, -14401],
                                 [None, "n"], [None, "n", "m"], [None, 1000], [None, 100])
        for iss_kw, aud, azp, cid, dexp, diat, nonce, nonce_kw, skew, storage in pick(rows, 350):
            args = {"iss": "https://op.example", "sub": "s", "aud": aud, "exp": NOW + dexp, "iat": NOW + diat}
            if azp:
                args["azp"] = azp
            if nonce:
                args["nonce"] = nonce
            kw = {}
            for k, v in (("iss", iss_kw), ("client_id", cid), ("nonce", nonce_kw), ("skew", skew), ("nonce_storage_time", storage)):
                if v is not None:
                    kw[k] = v
            self.rule_case("idtoken", O + "IdToken", args, kw, o_idt)

        # ---- JsonWebToken / AuthnToken
        def o_jwt(m, kw):
            d = m._dict
            bad = []
            skew = kw.get("skew", 0)
            if "exp" in d and d["exp"] < NOW - skew:
                bad.append("expired")
            if "iat" in d and d["iat"] > NOW + skew:
                bad.append("issued in the future")
            if "nbf" in d and d["nbf"] > NOW + skew:
                bad.append("not valid yet")
            if "aud" in d and "aud" in kw and kw["aud"] not in d["aud"]:
                bad.append("not among the audience")
            if "iss" in d and "iss" in kw and kw["iss"] != d["iss"]:
                bad.append("wrong issuer")
            return bad
        rows = itertools.product([None, 600, -600, 0], [None, 0, 900, 1], [None, -10, 900, 0], [None, ["c"], ["d", "c"], ["d"]],
                                 [None, "c", "z"], [None, "i"], [None, "i", "j"], [None, 1000])
        for dexp, diat, dnbf, aud, aud_kw, iss, iss_kw, skew in pick(rows, 300):
            args = {}
            for k, v in (("exp", dexp), ("iat", diat), ("nbf", dnbf)):
                if v is not None:
                    args[k] = NOW + v
            if aud:
                args["aud"] = aud
            if iss:
                args["iss"] = iss
            kw = {}
            for k, v in (("aud", aud_kw), ("iss", iss_kw), ("skew", skew)):
                if v is not None:
                    kw[k] = v
            self.rule_case("jwt", O + "JsonWebToken", args, kw, o_jwt)
            if quick and rng.random() < 0.8:
                continue
            a2 = dict(args)
            a2.pop("nbf", None)
            a2.setdefault("iss", "i")
            a2.setdefault("aud", ["c"])
            a2.setdefault("exp", NOW + 600)
            a2.update(sub="s", jti="j")
            self.rule_case("jwt", O + "AuthnToken", a2, kw, o_jwt)

        # ---- LogoutToken
        EV = "http://schemas.openid.net/event/backchannel-logout"

        def o_logout(m, kw):
            d = m._dict
            bad = []
            if "nonce" in d:
                bad.append("nonce present")
            if d.get("events") != {EV: {}}:
                bad.append("events is not exactly the back-channel logout event with an empty object")
            if "sub" not in d and "sid" not in d:
                bad.append("neither sub nor sid")
            if "aud" in kw and kw["aud"] not in d["aud"]:
                bad.append("not among the audience")
            if "iss" in kw and kw["iss"] != d["iss"]:
                bad.append("wrong issuer")
            if "iat" in d and d["iat"] > NOW + kw.get("skew", 0):
                bad.append("issued in the future")
            return bad
        events = [{EV: {}}, {}, {EV: {}, "x": {}}, {"other": {}}, {EV: {"a": 1}}, {EV: []}, {"x": {}, EV: {}}]
        rows = itertools.product([False, True], events, ["sub", "sid", "both", "neither"], [None, "c", "z"],
                                 [None, "https://op.example", "https://evil"], [0, 900, 1], [None, 1000], [["c"], ["d", "c"]])
        for nonce, ev, ss, aud_kw, iss_kw, diat, skew, aud in pick(rows, 300):
            args = {"iss": "https://op.example", "aud": aud, "iat": NOW + diat, "jti": "j", "events": ev}
            if ss in ("sub", "both"):
                args["sub"] = "s"
            if ss in ("sid", "both"):
                args["sid"] = "sid1"
            if nonce:
                args["nonce"] = "n"
            kw = {}
            for k, v in (("aud", aud_kw), ("iss", iss_kw), ("skew", skew)):
                if v is not None:
                    kw[k] = v
            self.rule_case("logout", O + "session.LogoutToken", args, kw, o_logout)

        # ---- EndSessionRequest (without id_token_hint; with one: signed-object matrix)
        def o_end(m, kw):
            return ["post_logout_redirect_uri without id_token_hint"] \
                if "post_logout_redirect_uri" in m and "id_token_hint" not in m else []
        for plr, state, loc in itertools.product([None, "https://rp/out"], [None, "s"], [None, ["en", "fr"]]):
            args = {}
            if plr:
                args["post_logout_redirect_uri"] = plr
            if state:
                args["state"] = state
            if loc:
                args["ui_locales"] = loc
            self.rule_case("endsession", O + "session.EndSessionRequest", args, {}, o_end)

    # ------------------------------------------------------------ C4. rules over a SET of parameters
    # "at most one of / at least one of / all or none of / X comes with all of / X excludes all of" a set of
    # parameters.  Every such rule of idpyoidc.message (found by reading every verify() and the helpers of Message):
    #   backchannel_authentication.AuthenticationRequest  at most one of id_token_hint / login_hint / login_hint_token
    #                                                     (Message.has_none_or_one_of); `request` excludes every
    #                                                     parameter that is not client authentication; ping / push
    #                                                     mode comes with client_notification_token
    #   oauth2.JWTSecuredAuthorizationRequest             at least one of request / request_uri
    #   oidc.RegistrationResponse                         all or none of registration_client_uri / registration_access_token
    #   oidc.RegistrationRequest                          <p>_enc comes with <p>_alg, three pairs
    #   session.LogoutToken                               at least one of sub / sid
    #   session.EndSessionRequest                         post_logout_redirect_uri comes with id_token_hint
    #   oauth2.OauthClientInformationResponse             client_secret comes with client_secret_expires_at
    #   oauth2.OauthClientMetadata (+ subclass)           grant_types authorization_code / implicit come with redirect_uris
    #   oauth2.device_authorization.AccessTokenRequest    device_code comes with grant_type AND client_id
    # (TokenExchangeRequest, RefreshAccessTokenRequest and the CIBA TokenRequest have no rule at the message level.)
    # For each: the FULL presence table over the set (2^n patterns of otherwise valid messages; a member that has to
    # be a signed JWT is one), the present members given in every order, along every construction path.  Oracle: the
    # rule as a predicate on the NUMBER of present members - never the library's helper.
    @staticmethod
    def at_most_one(pres):
        return sum(1 for p in pres if p) <= 1

    @staticmethod
    def at_least_one(pres):
        return sum(1 for p in pres if p) >= 1

    @staticmethod
    def all_or_none(pres):
        return sum(1 for p in pres if p) in (0, len(pres))

    @staticmethod
    def comes_with_all(a, pres):
        return (not a) or sum(1 for p in pres if p) == len(pres)

    @staticmethod
    def excludes_all(a, pres):
        return (not a) or sum(1 for p in pres if p) == 0

    SET_PATHS = ("constructor", "from_dict", "from_json", "from_urlencoded", "setitem")

    def set_orders(self, names, cap=6):
        """the orders in which the present members are given: every permutation (up to `cap`), else the listed
        order, its reverse and random ones"""
        names = list(names)
        perms = list(itertools.permutations(names))
        if len(perms) <= cap:
            return perms
        return [tuple(names), tuple(reversed(names))] + [tuple(self.rng.sample(names, len(names))) for _ in range(cap - 2)]

    @staticmethod
    def set_build(cls, path, items):
        """the message holding `items` (ordered [(name, value)]) along one construction path"""
        args = {k: copy.deepcopy(v) for k, v in items}
        if path == "constructor":
            return cls(**args)
        if path == "no-defaults":
            return cls(set_defaults=False, **args)
        if path == "from_dict":
            return cls().from_dict(args)
        if path == "from_json":
            return cls().from_json(json.dumps(args))
        if path == "from_urlencoded":
            return cls().from_urlencoded(cls(**args).to_urlencoded())
        if path == "setitem":
            m = cls()
            for k, v in args.items():
                m[k] = v
            return m
        raise ValueError(path)

    @staticmethod
    def short_jws(v):
        """the model never reads a compact serialisation: in the model's copy of a message a JWS text is abbreviated
        to its fingerprint (distinct texts keep distinct names), at every depth"""
        import hashlib
        if isinstance(v, str) and len(v) > 80 and v.count(".") >= 2 and v.startswith("eyJ"):
            return "jws:" + hashlib.sha256(v.encode()).hexdigest()[:24]
        if isinstance(v, dict):
            return {k: Run.short_jws(x) for k, x in v.items()}
        if isinstance(v, list):
            return [Run.short_jws(x) for x in v]
        return v

    def set_row(self, tag, cname, path, items, kw, rules, rec, jar=None, observe=(), conforming=None, model=None, merged=False):
        """one row of a presence table.  rules: [(name, predicate(present?) -> bool, 'given' | 'after' | 'both')]
        where present? is a function name -> bool on the message as given / as it stands after verify();
        observe: [(name, predicate, 'given' | 'after')] counted, never a verdict (what a specification asks beyond the class's own
        rule); model(before, after, out, rec) hands the row to the Gallina model."""
        ctx = self.ctx
        cls = self.byname[cname]
        rec = dict(rec, **{"class": cname, "set_rule": tag, "path": path, "given_in_order": canon([list(i) for i in items]),
                           "verify_kwargs": canon(kw)})
        b = attempt(lambda: self.set_build(cls, path, items))
        if b[0] == "exc":
            ctx.count("set:%s:not-constructible:%s" % (tag, path))
            return None
        m = b[1]
        before = canon(dict(m._dict))
        kwargs = dict(copy.deepcopy(kw))
        if jar is not None:
            kwargs["keyjar"] = jar
        try:
            r = m.verify(**kwargs)
            out = ("ok", r is not False)
        except Exception as e:   # noqa
            out = ("exc", type(e).__name__)
        accepted = out == ("ok", True)
        after = canon(dict(m._dict))
        ctx.case_seen(rec, accepted)
        ctx.count("set:%s:%s" % (tag, "accepted" if accepted else ("returned-False" if out[0] == "ok" else "refused:" + out[1])))
        short = cname.split(".")[-1]
        if accepted:
            for name, pred, where in rules:
                views = (("given", before), ("after", after)) if where == "both" else ((where, before if where == "given" else after),)
                for wname, view in views:
                    if not pred(lambda k, _v=view: k in _v):
                        ctx.violation("set-rule:%s:%s" % (short, name),
                                      "verify(%s) of %s accepted %r (%s, parameters given in the order %s) although the rule `%s` "
                                      "does not hold of the message %s" % (", ".join(sorted(kwargs)), cname, self.short_jws(before), path,
                                                                          [k for k, _ in items], name,
                                                                          "as given" if wname == "given" else "as it stands afterwards"), rec)
            for name, pred, where in observe:
                if not pred(lambda k, _v=(before if where == "given" else after): k in _v):
                    ctx.count("observation:set:%s:accepted-although:%s" % (tag, name))
            self.schema_oracle(cname, cls, m, rec, "verify()", merged=merged)
        elif conforming:
            ctx.count("set:%s:refused-a-conforming-message" % tag)
            self.set_refused_conforming.append("%s %s %s: %s" % (tag, path, [k for k, _ in items], out[1]))
        if model is not None:
            model(before, after, out, rec)
        return out

    def set_model_rules(self, rule, cname, kw):
        """model hook: Model/MsgRules.v class_rules (rule set `rule`) through Model/MsgCheck.v chk_rules"""
        def hook(before, after, out, rec):
            ctx = self.ctx
            if not (pure_json(before) and pure_json(after) and pure_json(kw)):
                ctx.unmodelled += 1
                return
            if out[0] == "exc" and out[1] not in C.EXC:
                ctx.count("skipped-model:exception-class:" + out[1])
                return
            inp = "(%s, %s, %s, %s, %s)" % (coq_str(rule), coq_str(cname), E.coq_z(self.NOW), coq_msg(kw), coq_msg(before))
            res = "(Ok (%s, %s))" % (E.coq_bool(out[1]), coq_msg(after)) if out[0] == "ok" else "(Err %s)" % C.EXC[out[1]]
            self.cases["setrules"].append(("(%s, %s)" % (inp, res), inp, rec))
        return hook

    CIBA = "idpyoidc.message.oidc.backchannel_authentication.AuthenticationRequest"
    CIBA_JWT = "idpyoidc.message.oidc.backchannel_authentication.AuthenticationRequestJWT"

    def set_model_ciba(self, kw, rt_claims, ht):
        """model hook: Model/MsgRules.v ciba_authn_verify.  rt_claims: the claims of the (validly signed) request
        object or None; ht: (alg, claims) of the (validly signed) id_token_hint or None"""
        def hook(before, after, out, rec):
            ctx = self.ctx
            before, after = self.short_jws(before), self.short_jws(after)
            if not (pure_json(before) and pure_json(after) and pure_json(kw)):
                ctx.unmodelled += 1
                return
            if out[0] == "exc" and out[1] not in C.EXC:
                ctx.count("skipped-model:exception-class:" + out[1])
                return
            # the two terms shared by hundreds of rows are defined once in front of every case file (self.ciba_prelude)
            rt = "TJunk" if rt_claims is None else ("ciba_ro_tok" if rt_claims is self.ciba_shared_ro else
                                                    "(TJws SigValid %s %s)" % (coq_str("RS256"), coq_msg(self.short_jws(rt_claims))))
            htt = "TJunk" if ht is None else "ciba_ht_tok"
            inp = "(%s, %s, %s, %s, %s, %s, %s)" % (coq_str(self.CIBA), coq_str(self.CIBA_JWT), coq_str(self.IDT), coq_msg(kw),
                                                    rt, htt, coq_msg(before))
            res = "(Ok %s)" % self.coq_msg_obj(after) if out[0] == "ok" else "(Err %s)" % C.EXC[out[1]]
            term = "(%s, %s)" % (inp, res)
            if out == ("ok", False):
                ctx.count("skipped-model:ciba-returned-False")
                return
            self.cases["ciba"].append((term, inp, rec))
        return hook

    def verify_is(self, cls, *owners):
        """the class runs the verify() defined by one of `owners` (qualified names)"""
        vf = getattr(cls, "verify")
        return "%s.%s" % (getattr(vf, "__module__", "?"), getattr(vf, "__qualname__", "?")) in owners

    def set_rules(self):
        self.set_refused_conforming = []
        self.ciba_shared_ro = None
        self.set_clock(True)
        try:
            self._set_ciba()
            self._set_request_pair()
            self._set_pairs()
            self._set_helper()
        finally:
            self.set_clock(False)
        if self.set_refused_conforming:
            self.ctx.notes.append("set rules: %d conforming messages were refused, e.g. %s"
                                  % (len(self.set_refused_conforming), "; ".join(self.set_refused_conforming[:5])))
        obs = sorted(k for k in self.ctx.distribution if k.startswith("observation:set:"))
        if obs:
            self.ctx.notes.append("set rules, observations (accepted although a specification asks for more than the class's "
                                  "own rule; not a verdict): " + "; ".join("%s x%d" % (k[len("observation:set:"):], self.ctx.distribution[k]) for k in obs))

    # ---- the helper of the base class, as a function of (claims, message)
    def _set_helper(self):
        from idpyoidc.message import Message
        ctx = self.ctx
        import re
        helpers = [n for n in dir(Message) if re.match(r"^(has|only|any|all|none|one)_.*_of$", n)]
        ctx.count("set:helpers-of-Message", len(helpers))
        for h in helpers:
            if h != "has_none_or_one_of":
                ctx.notes.append("Message.%s: a set helper this check has no oracle for" % h)
        if "has_none_or_one_of" not in helpers:
            ctx.notes.append("Message.has_none_or_one_of no longer exists")
            return
        top = 4 if ctx.quick else 6
        for n in range(0, top + 1):
            names = ["p%d" % i for i in range(n)]
            for row in itertools.product((False, True), repeat=n):
                present = [k for k, on in zip(names, row) if on]
                # the claims in every order; the message holds the present ones in the opposite order
                for claims in self.set_orders(names, cap=24 if n <= 4 else 8):
                    m = Message(**{k: "v" for k in reversed(present)})
                    rec = {"helper": "Message.has_none_or_one_of", "claims": list(claims), "present": present}
                    out = attempt(lambda: m.has_none_or_one_of(list(claims)))
                    want = len(present) <= 1
                    ctx.case_seen(rec, True)
                    ctx.count("set:helper:%s" % (out[1] if out[0] == "ok" else "raised"))
                    if out[0] != "ok" or bool(out[1]) != want:
                        ctx.violation("set-rule:Message.has_none_or_one_of",
                                      "Message(%s).has_none_or_one_of(%r) answered %r: %d of the named parameters are present"
                                      % (", ".join(present), list(claims), out[1], len(present)), rec)
                    if out[0] == "ok":
                        inp = "(%s, %s)" % (coq_list([coq_str(c) for c in claims], "pystr"), coq_msg(canon(dict(m._dict))))
                        self.cases["none_or_one"].append(("(%s, (Ok %s))" % (inp, E.coq_bool(bool(out[1]))), inp, rec))

    # ---- CIBA authentication request
    def _set_ciba(self):
        from idpyoidc.message.oidc import IdToken
        ctx, rng = self.ctx, self.rng
        cls = self.byname.get(self.CIBA)
        jcls = self.byname.get(self.CIBA_JWT)
        if cls is None or jcls is None:
            ctx.notes.append("the CIBA authentication request classes no longer exist")
            return
        NOW, iss = self.NOW, self.HASH_ISS
        HINTS = ["id_token_hint", "login_hint", "login_hint_token"]
        idt = IdToken(iss=iss, sub="diana", aud=["c"], exp=NOW + 600, iat=NOW).to_jwt(
            key=self.kj.get_signing_key("RSA", iss), algorithm="RS256")
        hdr, idt_claims = self.jwt_parts(idt)
        ht = (hdr["alg"], idt_claims)
        VAL = {"id_token_hint": idt, "login_hint": "mail:diana@example.org", "login_hint_token": "hint.token.value",
               "scope": ["openid"], "client_notification_token": "8d67dc78-7faa-4d41-aabd-67707b374255",
               "acr_values": ["loa2"], "binding_message": "W4SCT", "user_code": "1234", "requested_expiry": 120}
        OUTSIDE_OK = ["client_id", "client_assertion_type", "client_assertion", "request"]
        inside = [k for k in cls.c_param if k not in OUTSIDE_OK and k != "*"]
        for k in inside:
            VAL.setdefault(k, C.plain_value(cls.c_param[k]))

        def hints_rule(has):
            return self.at_most_one([has(h) for h in HINTS])

        def request_rule(has):
            return self.excludes_all(has("request"), [has(k) for k in inside])

        def mode_rule(kw):
            return lambda has: self.comes_with_all(kw.get("mode") in ("ping", "push"), [has("client_notification_token")])
        # what CIBA Core 7.1 asks beyond the class's rule: exactly one hint
        observe = [("no-hint-at-all (CIBA Core 7.1: one and only one)", lambda has: sum(1 for h in HINTS if has(h)) >= 1, "after")]

        def request_object(members):
            claims = {"iss": "c", "aud": [iss], "exp": NOW + 600, "nbf": NOW, "iat": NOW, "jti": "j%d" % rng.randrange(10 ** 6)}
            claims.update({k: VAL[k] for k in members})
            tok = jcls(**copy.deepcopy(claims)).to_jwt(key=self.kj.get_signing_key("RSA", "c"), algorithm="RS256")
            return tok, self.jwt_parts(tok)[1]

        def rules_for(kw):
            return [("at most one of id_token_hint / login_hint / login_hint_token", hints_rule, "both"),
                    ("request excludes every parameter that is not client authentication", request_rule, "given"),
                    ("ping / push mode comes with client_notification_token", mode_rule(kw), "after")]
        # -- the hint table: 2^3 patterns x every order of the present hints x construction path x mode
        base = [("scope", VAL["scope"]), ("client_id", "c"), ("binding_message", VAL["binding_message"])]
        for row in itertools.product((False, True), repeat=3):
            present = [h for h, on in zip(HINTS, row) if on]
            for order in self.set_orders(present):
                for path in self.SET_PATHS + ("request-object",):
                    for mode, with_cnt in ((None, False), ("ping", True), ("push", False), ("poll", False)):
                        for base_first in (True, False):
                            if not base_first and (mode is not None or path in ("from_urlencoded",)):
                                continue
                            kw = {"mode": mode} if mode else {}
                            extra = [("client_notification_token", VAL["client_notification_token"])] if with_cnt else []
                            rec = {"hints_present": dict(zip(HINTS, row)), "mode": mode}
                            ok = len(present) <= 1 and (mode != "push" or with_cnt)
                            if path == "request-object":
                                members = ["scope", "binding_message"] + [k for k, _ in extra]
                                members = (members + list(order)) if base_first else (list(order) + members)
                                tok, claims = request_object(members)
                                items = [("client_id", "c"), ("request", tok)]
                                rec["request_object_claims"] = self.short_jws(claims)
                                rec["delivery"] = "the hints inside the signed request object"
                                self.set_row("ciba-hints", self.CIBA, "constructor", items, kw, rules_for(kw), rec, jar=self.kj,
                                             observe=observe, conforming=ok,
                                             model=self.set_model_ciba(kw, claims, ht if "id_token_hint" in present else None))
                                continue
                            hints = [(h, VAL[h]) for h in order]
                            items = (base + extra + hints) if base_first else (hints + base + extra)
                            self.set_row("ciba-hints", self.CIBA, path, items, kw, rules_for(kw), rec, jar=self.kj,
                                         observe=observe, conforming=ok,
                                         model=self.set_model_ciba(kw, None, ht if "id_token_hint" in present else None))
        # -- `request` x every subset of the parameters that belong inside it (2 x 2^n rows), one random order each
        ro_tok, ro_claims = request_object(["scope", "login_hint", "binding_message"])
        self.ciba_shared_ro = ro_claims
        self.ciba_prelude = ("Definition ciba_ht_tok : token := (TJws SigValid %s %s).\nDefinition ciba_ro_tok : token := (TJws SigValid %s %s).\n"
                             % (coq_str(ht[0]), coq_msg(ht[1]), coq_str("RS256"), coq_msg(self.short_jws(ro_claims))))
        for with_request in (False, True):
            for row in itertools.product((False, True), repeat=len(inside)):
                present = [k for k, on in zip(inside, row) if on]
                mode = rng.choice([None, "ping", "push", "poll"])
                kw = {"mode": mode} if mode else {}
                items = [(k, VAL[k]) for k in present] + [("client_id", "c")] + ([("request", ro_tok)] if with_request else [])
                rng.shuffle(items)
                rec = {"request": with_request, "present": present, "mode": mode}
                if with_request:
                    rec["request_object_claims"] = self.short_jws(ro_claims)
                self.set_row("ciba-request", self.CIBA, rng.choice(["constructor", "from_dict", "from_json", "setitem"]), items, kw,
                             rules_for(kw), rec, jar=self.kj, observe=observe,
                             model=self.set_model_ciba(kw, ro_claims if with_request else None,
                                                       ht if "id_token_hint" in present else None))

    # ---- request / request_uri
    def _set_request_pair(self):
        from idpyoidc.message import Message
        ctx = self.ctx
        for name, cls in self.classes:
            if "request" not in cls.c_param or "request_uri" not in cls.c_param or tier1(cls.c_param["request"]) != "str":
                continue
            vf = cls.verify
            rule = self.REQUEST_RULES.get("%s.%s" % (getattr(vf, "__module__", "?"), getattr(vf, "__qualname__", "?")))
            req = [k for k, e in cls.c_param.items() if e[1] and k != "*"]
            full = {k: self.RO_VALUES.get(k, C.plain_value(cls.c_param[k])) for k in req}
            full.setdefault("client_id", "c")
            tok = Message(**copy.deepcopy(full)).to_jwt(key=self.kj.get_signing_key("RSA", "c"), algorithm="RS256")
            VAL = {"request": tok, "request_uri": "https://rp.example/ro.jwt"}
            rules = [("at least one of request / request_uri", lambda has: self.at_least_one([has("request"), has("request_uri")]),
                      "given")] if rule == "jar" else []
            # OIDC Core 6 / RFC 9101: the two MUST NOT be used together - no verify() of the package says so
            observe = [("request together with request_uri (OIDC Core 6: MUST NOT both be used)",
                        lambda has: not (has("request") and has("request_uri")), "given")]
            for row in itertools.product((False, True), repeat=2):
                present = [k for k, on in zip(("request", "request_uri"), row) if on]
                for order in self.set_orders(present):
                    for path in self.SET_PATHS:
                        for base_first in (True, False):
                            pair = [(k, VAL[k]) for k in order]
                            items = (list(full.items()) + pair) if base_first else (pair + list(full.items()))
                            rec = {"present": dict(zip(("request", "request_uri"), row))}

                            def model(before, after, out, rec, name=name, with_obj=row[0]):
                                if rule != "jar":
                                    return
                                o = ("accepted", True) if out == ("ok", True) else ("refused", out[1] if out[0] == "exc" else "False")
                                tt = "(TJws SigValid %s %s)" % (coq_str("RS256"), coq_msg(full)) if with_obj else "TJunk"
                                self.set_request_case(name, tt, self.short_jws(before), self.short_jws(after), o, rec)
                            self.set_row("request-pair" if rule == "jar" else "request-pair:no-rule", name, path, items, {}, rules, rec,
                                         jar=self.kj, observe=observe, conforming=bool(present) if rule == "jar" else None, model=model,
                                         merged=row[0])

    def set_request_case(self, name, tok_term, before, after, out, rec):
        """Model/Msg.v jar_verify through chk_request, from canonical messages"""
        ctx = self.ctx
        if out[0] == "accepted":
            res = "(Ok %s)" % self.coq_msg_obj(after)
        elif out[1] in C.EXC:
            res = "(Err %s)" % C.EXC[out[1]]
        else:
            ctx.count("skipped-model:exception-class:" + out[1])
            return
        if not (pure_json(before) and pure_json(after)):
            ctx.unmodelled += 1
            return
        inp = "(%s, %s, %s, %s, %s)" % (coq_str("jar"), coq_str(name), coq_str(self.RO_CLASS), tok_term, coq_msg(before))
        self.cases["request"].append(("(%s, %s)" % (inp, res), inp, rec))

    # ---- the pair / triple rules of the other classes
    def _set_pairs(self):
        from idpyoidc.message.oidc import IdToken
        ctx, rng = self.ctx, self.rng
        NOW, iss = self.NOW, self.HASH_ISS
        O = "idpyoidc.message.oidc."
        A = "idpyoidc.message.oauth2."

        def table(tag, cname, members, values, base, rules, kw=None, jar=None, paths=None, rule_model=None, observe=(),
                  conforming=None, model_if=None):
            """the full presence table of `members`: every pattern x every order of the present members x every path x
            the other parameters in front / behind"""
            if cname not in self.byname:
                ctx.notes.append("set rules: class %s no longer exists" % cname)
                return
            for row in itertools.product((False, True), repeat=len(members)):
                present = [k for k, on in zip(members, row) if on]
                for order in self.set_orders(present):
                    for path in (paths or self.SET_PATHS):
                        for base_first in (True, False):
                            mem = [(k, values[k]) for k in order]
                            items = (list(base) + mem) if base_first else (mem + list(base))
                            rec = {"present": dict(zip(members, row))}
                            has0 = lambda k, _p=set(present) | {b for b, _ in base}: k in _p   # noqa
                            conf = conforming(has0) if conforming else None
                            use_model = rule_model is not None and (model_if is None or model_if(has0))
                            self.set_row(tag, cname, path, items, kw or {}, rules, rec, jar=jar, observe=observe, conforming=conf,
                                         model=self.set_model_rules(rule_model, cname, {}) if use_model else None)

        # RegistrationResponse: all or none
        RR = ["registration_client_uri", "registration_access_token"]
        table("regresp", O + "RegistrationResponse", RR, {"registration_client_uri": "https://op/reg?c=1", "registration_access_token": "tok"},
              [("client_id", "c"), ("redirect_uris", ["https://rp/cb"])],
              [("all or none of registration_client_uri / registration_access_token", lambda has: self.all_or_none([has(k) for k in RR]), "both")],
              rule_model="regresp", conforming=lambda has: self.all_or_none([has(k) for k in RR]))
        # LogoutToken: at least one of sub / sid
        EV = "http://schemas.openid.net/event/backchannel-logout"
        table("logout-sub-sid", O + "session.LogoutToken", ["sub", "sid"], {"sub": "s", "sid": "sid1"},
              [("iss", iss), ("aud", ["c"]), ("iat", NOW), ("jti", "j"), ("events", {EV: {}})],
              [("at least one of sub / sid", lambda has: self.at_least_one([has("sub"), has("sid")]), "both")],
              paths=("constructor", "from_dict", "from_json", "setitem"), rule_model="logout",
              conforming=lambda has: has("sub") or has("sid"))
        # EndSessionRequest: post_logout_redirect_uri comes with id_token_hint (a signed, valid ID Token)
        idt = IdToken(iss=iss, sub="s", aud=["c"], exp=NOW + 600, iat=NOW).to_jwt(key=self.kj.get_signing_key("RSA", iss), algorithm="RS256")
        table("endsession", O + "session.EndSessionRequest", ["post_logout_redirect_uri", "id_token_hint"],
              {"post_logout_redirect_uri": "https://rp/out", "id_token_hint": idt}, [("state", "st")],
              [("post_logout_redirect_uri comes with id_token_hint",
                lambda has: self.comes_with_all(has("post_logout_redirect_uri"), [has("id_token_hint")]), "both")],
              kw={"iss": iss, "client_id": "c"}, jar=self.kj, rule_model="endsession",
              conforming=lambda has: has("id_token_hint") or not has("post_logout_redirect_uri"),
              model_if=lambda has: not has("id_token_hint"))
        # OauthClientInformationResponse (and whatever inherits its verify): client_secret comes with client_secret_expires_at
        for name, cls in self.classes:
            if self.verify_is(cls, A + "OauthClientInformationResponse.verify"):
                table("clientinfo", name, ["client_secret", "client_secret_expires_at"], {"client_secret": "s3cret", "client_secret_expires_at": 0},
                      [(k, v) for k, v in C.base_kwargs(cls).items()],
                      [("client_secret comes with client_secret_expires_at",
                        lambda has: self.comes_with_all(has("client_secret"), [has("client_secret_expires_at")]), "both")],
                      rule_model="clientinfo", conforming=lambda has: has("client_secret_expires_at") or not has("client_secret"))
            # ... and the metadata rule (RFC 7591 2: redirect_uris for the redirect-based grant types)
            if self.verify_is(cls, A + "OauthClientInformationResponse.verify", A + "OauthClientMetadata.verify"):
                rm = "clientinfo" if self.verify_is(cls, A + "OauthClientInformationResponse.verify") else "clientmeta"
                for gt in (None, [], ["authorization_code"], ["implicit"], ["refresh_token"], ["refresh_token", "implicit"],
                           ["client_credentials", "authorization_code", "refresh_token"]):
                    for with_ru in (False, True):
                        for flip in (False, True):
                            for path in ("constructor", "from_dict", "from_json", "setitem"):
                                items = list(C.base_kwargs(cls).items()) + ([("grant_types", gt)] if gt is not None else []) \
                                    + ([("redirect_uris", ["https://rp/cb"])] if with_ru else [])
                                if flip:
                                    items.reverse()
                                needs = bool(gt) and bool(set(gt) & {"authorization_code", "implicit"})
                                self.set_row("clientmeta", name, path, items, {},
                                             [("a redirect-based grant type comes with redirect_uris",
                                               lambda has, _n=needs: self.comes_with_all(_n, [has("redirect_uris")]), "both")],
                                             {"grant_types": gt, "redirect_uris": with_ru}, conforming=with_ru or not needs,
                                             model=self.set_model_rules(rm, name, {}))
        # device_authorization.AccessTokenRequest: device_code comes with grant_type AND client_id
        DEV = A + "device_authorization.AccessTokenRequest"
        DM = ["device_code", "grant_type", "client_id"]
        table("device", DEV, DM, {"device_code": "dc-1", "grant_type": "urn:ietf:params:oauth:grant-type:device_code", "client_id": "c"},
              [("code", "x"), ("redirect_uri", "https://rp/cb")],
              [("device_code comes with grant_type and client_id",
                lambda has: self.comes_with_all(has("device_code"), [has("grant_type"), has("client_id")]), "after")],
              paths=("constructor", "no-defaults", "from_dict", "from_json", "from_urlencoded", "setitem"), rule_model="device")
        # RegistrationRequest: the three (alg, enc) pairs, 4^3 presence patterns, both orders
        pre = ["request_object_encryption", "id_token_encrypted_response", "userinfo_encrypted_response"]
        RQ = O + "RegistrationRequest"
        names = [q + s for q in pre for s in ("_alg", "_enc")]
        vals = {n: ("RSA-OAEP" if n.endswith("_alg") else "A128GCM") for n in names}
        for row in itertools.product((False, True), repeat=len(names)):
            present = [k for k, on in zip(names, row) if on]
            for order in (present, list(reversed(present)), rng.sample(present, len(present))):
                for path in ("constructor", "from_json"):
                    items = [("redirect_uris", ["https://rp/cb"])] + [(k, vals[k]) for k in order]
                    rules = [("%s_enc comes with %s_alg" % (q, q),
                              lambda has, _q=q: self.comes_with_all(has(_q + "_enc"), [has(_q + "_alg")]), "both") for q in pre]
                    ok = all((q + "_alg") in present or (q + "_enc") not in present for q in pre)
                    self.set_row("regreq-enc-alg", RQ, path, items, {}, rules, {"present": dict(zip(names, row))}, conforming=ok,
                                 model=self.set_model_rules("regreq", RQ, {}))
        # TokenExchangeRequest: RFC 8693 2.1 ties actor_token_type to actor_token; the class has no verify() of its own
        TX = A + "TokenExchangeRequest"
        if TX in self.byname:
            for row in itertools.product((False, True), repeat=2):
                present = [k for k, on in zip(("actor_token", "actor_token_type"), row) if on]
                for order in self.set_orders(present):
                    items = list(C.base_kwargs(self.byname[TX]).items()) + [(k, "urn:ietf:params:oauth:token-type:access_token" if k.endswith("type") else "tok") for k in order]
                    self.set_row("token-exchange-actor:no-rule", TX, "constructor", items, {}, [], {"present": present},
                                 observe=[("actor_token without actor_token_type or the reverse (RFC 8693 2.1; enforced by the token endpoint)",
                                           lambda has: has("actor_token") == has("actor_token_type"), "given")])

    # ------------------------------------------------------------ C3. code <-> c_hash, access_token <-> at_hash
    HASH_ISS = "https://op.example"
    AZR = "idpyoidc.message.oidc.AuthorizationResponse"
    ATR = "idpyoidc.message.oidc.AccessTokenResponse"
    IDT = "idpyoidc.message.oidc.IdToken"
    HASH_ALGS = (("RS256", "RSA"), ("RS384", "RSA"), ("RS512", "RSA"), ("ES256", "EC"), ("HS256", "oct"))

    @staticmethod
    def ref_left_hash(value, bits):
        """the reference (OIDC Core 3.3.2.11 / 3.2.2.9): base64url without padding of the left-most half of the
        SHA-<bits> hash of the ASCII text.  hashlib only, never the library's left_hash"""
        import base64
        import hashlib
        h = hashlib.new("sha" + bits, value.encode("ascii")).digest()
        return base64.urlsafe_b64encode(h[:len(h) // 2]).decode("ascii").rstrip("=")

    @staticmethod
    def jwt_parts(txt):
        """(header, claims) of a compact JWS, decoded here (base64 + json only)"""
        import base64
        h, p = txt.split(".")[:2]
        dec = lambda x: json.loads(base64.urlsafe_b64decode(x + "=" * (-len(x) % 4)))   # noqa
        return dec(h), dec(p)

    def hash_oracle(self, cname, m, kw, rec):
        """the property text, on the message as it stands after an accepting verify() of an oidc authorization
        response that carries a SIGNED ID Token: a code in the response is bound to the token by c_hash, an
        access token by at_hash - each on its own, whatever else the response carries.  Reads the response and
        the token's own header / claims; knows nothing of how the row was generated."""
        d = m._dict
        tok = d.get("id_token")
        if not isinstance(tok, str):
            return
        hdr, claims = self.jwt_parts(tok)
        alg = hdr.get("alg", "")
        if alg == "none" or alg[-3:] not in ("256", "384", "512"):
            return
        for param, claim, key in (("code", "c_hash", "c_hash"), ("access_token", "at_hash", "at_hash")):
            if param not in d:
                continue
            want = self.ref_left_hash(d[param], alg[-3:])
            if claims.get(claim) != want:
                self.ctx.violation("rules:%s:%s" % (cname.split(".")[-1], key),
                                   "verify(%s) of %s accepted a response with %s=%r and an ID Token (alg %s) whose %s is %r; "
                                   "the left hash of the %s is %r"
                                   % (", ".join(sorted(kw)), cname, param, d[param], alg, claim, claims.get(claim), param, want), rec)

    def idt_response_case(self, cname, path, args, kw, jar, hash_tbl, rec, inject=None, conforming=None):
        """one response with a signed ID Token: build it along `path`, run the real verify(keyjar=jar, **kw), apply the
        hash oracle (authorization response), hand the row to the model (Model/MsgRules.v oidc_authzresp_verify_idt /
        oidc_tokenresp_verify_idt through Model/MsgCheck.v chk_authzresp_idt).  `hash_tbl`: the Gallina name of the
        hash table (defined in self.idt_prelude)"""
        from urllib.parse import urlencode
        ctx = self.ctx
        cls = self.byname[cname]
        is_authz = cname == self.AZR
        build = {"constructor": lambda: cls(**copy.deepcopy(args)),
                 "from_dict": lambda: cls().from_dict(copy.deepcopy(args)),
                 "from_json": lambda: cls().from_json(json.dumps(args)),
                 "from_urlencoded": lambda: cls().from_urlencoded(cls(**copy.deepcopy(args)).to_urlencoded())}[path]
        b = attempt(build)
        rec = dict(rec, **{"class": cname, "path": path, "args": canon(args), "verify_kwargs": canon(kw), "inject": canon(inject)})
        if b[0] == "exc":
            ctx.count("idt-hash:not-constructible:" + path)
            return
        m = b[1]
        for k, v in (inject or {}).items():
            m._dict[k] = copy.deepcopy(v)
        before = canon(dict(m._dict))
        try:
            r = m.verify(keyjar=jar, **copy.deepcopy(kw))
            out = ("ok", r is not False)
        except Exception as e:   # noqa
            out = ("exc", type(e).__name__)
        accepted = out == ("ok", True)
        tag = "authz" if is_authz else "token"
        ctx.case_seen(rec, accepted)
        ctx.count("idt-hash:%s:%s" % (tag, "accepted" if accepted else ("returned-False" if out[0] == "ok" else "refused:" + out[1])))
        if accepted:
            if is_authz:
                self.hash_oracle(cname, m, kw, rec)
            self.schema_oracle(cname, cls, m, rec, "verify()")
            vt = m._dict.get("__verified_id_token")
            if "id_token" in m._dict and isinstance(m._dict["id_token"], str):
                # what is stored as the verified token is what was signed
                _, claims = self.jwt_parts(m._dict["id_token"])
                got = canon(vt)["d"] if vt is not None and hasattr(vt, "_dict") else None
                norm = lambda d: None if d is None else {k: ([v] if k == "aud" and isinstance(v, str) else v) for k, v in d.items()}  # noqa
                if norm(got) != norm(claims):
                    ctx.violation("id-token:verified-content", "verify() of %s stores %r as the verified ID Token, the signed "
                                  "token says %r" % (cname, got, claims), rec)
        elif conforming:
            ctx.count("idt-hash:refused-a-conforming-response")
            ctx.notes.append("idt-hash: a conforming response was refused (%s): %r" % (out[1], rec.get("row")))
        # ---- the model
        after = canon(dict(m._dict))
        tok = args.get("id_token")
        if not (pure_json(before) and pure_json(kw)):
            ctx.unmodelled += 1
            return
        if out[0] == "exc" and out[1] not in C.EXC:
            ctx.count("skipped-model:exception-class:" + out[1])
            return
        if isinstance(tok, str):
            hdr, claims = self.jwt_parts(tok)
            if not pure_json(claims):
                ctx.unmodelled += 1
                return
            tok_term = "(TJws SigValid %s %s)" % (coq_str(hdr["alg"]), coq_msg(claims))
            names = {claims.get("iss"), kw.get("iss"), self.HASH_ISS, "c"}
            issuers = sorted(i for i in names if isinstance(i, str) and i in jar)
        else:
            tok_term, issuers = "TJunk", []
        # the model never reads the compact serialisation (the token's content is handed over symbolically): in
        # the model's copy of the message the text is abbreviated to its fingerprint (a 700-character literal in
        # each of 1000 case terms is what costs time in coqc); distinct texts keep distinct names
        def short(d):
            import hashlib
            v = d.get("id_token")
            return dict(d, id_token="jws:" + hashlib.sha256(v.encode()).hexdigest()[:24]) if isinstance(v, str) else d
        inp = "(%s, %s, %s, %s, %s, %s, %s, %s, %s)" % (
            E.coq_bool(is_authz), coq_str(cname), coq_str(self.IDT), E.coq_z(self.NOW), coq_msg(kw),
            coq_list([coq_str(i) for i in issuers], "pystr"), hash_tbl, tok_term, coq_msg(short(before)))
        res = "(Ok (%s, %s))" % (E.coq_bool(out[1]), self.coq_msg_obj(short(after))) if out[0] == "ok" else "(Err %s)" % C.EXC[out[1]]
        term = "(%s, %s)" % (inp, res)
        if term in self._idt_terms:        # the four construction paths give the same message: one model case
            ctx.count("idt-hash:model-case-shared-between-paths")
            return
        self._idt_terms.add(term)
        self.cases["authzresp_idt"].append((term, inp, rec))

    def hash_tables(self):
        """oidc.AuthorizationResponse.verify: the FULL truth table of the two hash rules
             code present / absent  x  access_token present / absent
             x  c_hash  right / of another code / absent / right value under the wrong hash width
             x  at_hash likewise
             x  signing algorithm of the ID Token (the hash width follows it)
             x  construction path (constructor, from_dict, from_json, from_urlencoded of the serialised response)
           with real signed ID Tokens that are otherwise valid (issuer known to the key jar, audience, times);
           rows where another ID Token rule fails as well (order of the checks), the keywords, the `aud` extra, a
           stale marker; oidc.AccessTokenResponse.verify (no hash rule: accepted whatever the hashes say)."""
        self.set_clock(True)
        try:
            self._hash_tables()
        finally:
            self.set_clock(False)

    def _hash_tables(self):
        from idpyoidc.message.oidc import IdToken
        ctx, rng = self.ctx, self.rng
        NOW, iss = self.NOW, self.HASH_ISS
        self._idt_terms = set()
        # HS*: the issuer's symmetric key lives in a key jar of its own (the shared one stays asymmetric-only)
        kj_sym = self.kj.copy()
        kj_sym.add_symmetric(iss, "".join(rng.choice("abcdefghijklmnopqrstuvwxyz0123456789") for _ in range(48)), ["sig"])
        alphabet = "ABCDEFGHIJKLMNOPQRSTUVWXYZabcdefghijklmnopqrstuvwxyz0123456789-._~+/="
        word = lambda n: "".join(rng.choice(alphabet) for _ in range(n))   # noqa
        code, code2, atok, atok2 = "c" + word(22), "c" + word(22), "t" + word(30), "t" + word(30)
        # the hash function is environment of the model: a finite table (bits, value, digest) computed with hashlib,
        # defined once in front of every case file
        rows = [(b_, v, self.ref_left_hash(v, b_)) for b_ in ("256", "384", "512") for v in (code, code2, atok, atok2)]
        self.idt_prelude = "Definition idt_hash_tbl : list (pystr * pystr * pystr) := %s.\n" % coq_list(
            ["(%s, %s, %s)" % (coq_str(b_), coq_str(v), coq_str(dg)) for b_, v, dg in rows], "(pystr * pystr * pystr)")
        tbl = "idt_hash_tbl"

        def claim_value(variant, value, other, bits):
            return {"right": lambda: self.ref_left_hash(value, bits), "wrong": lambda: self.ref_left_hash(other, bits),
                    "absent": lambda: None,
                    "other-bits": lambda: self.ref_left_hash(value, "512" if bits == "256" else "256")}[variant]()

        def token(alg, kt, cv, av, **over):
            jar = kj_sym if kt == "oct" else self.kj
            claims = {"iss": iss, "sub": "s", "aud": ["c"], "exp": NOW + 600, "iat": NOW}
            ch, ah = claim_value(cv, code, code2, alg[-3:]), claim_value(av, atok, atok2, alg[-3:])
            if ch is not None:
                claims["c_hash"] = ch
            if ah is not None:
                claims["at_hash"] = ah
            claims.update(over)
            claims = {k: v for k, v in claims.items() if v is not None}
            return jar, IdToken(**claims).to_jwt(key=jar.get_signing_key(kt, iss), algorithm=alg)

        def response(with_code, with_token, jwt, **extra):
            args = {"state": "st"}
            if with_code:
                args["code"] = code
            if with_token:
                args.update(access_token=atok, token_type="Bearer")
            if jwt is not None:
                args["id_token"] = jwt
            args.update(extra)
            return args
        VARIANTS = ("right", "wrong", "absent", "other-bits")
        PATHS = ("constructor", "from_dict", "from_json", "from_urlencoded")
        kw0 = {"iss": iss, "client_id": "c"}
        # ---- the full truth table
        for alg, kt in self.HASH_ALGS:
            for cv, av in itertools.product(VARIANTS, VARIANTS):
                jar, jwt = token(alg, kt, cv, av)
                for with_code, with_token in itertools.product((True, False), (True, False)):
                    conforming = (cv == "right" or not with_code) and (av == "right" or not with_token)
                    for path in PATHS:
                        row = {"alg": alg, "code": with_code, "access_token": with_token, "c_hash": cv, "at_hash": av}
                        self.idt_response_case(self.AZR, path, response(with_code, with_token, jwt), kw0, jar, tbl,
                                               {"row": row}, conforming=conforming)
        # ---- order of the checks: another rule of the ID Token (or of the response) fails as well
        others = [("token-iss-other-known", {"iss": "c"}, {}, {}, None), ("token-iss-unknown", {"iss": "https://unknown.example"}, {}, {}, None),
                  ("token-expired", {"exp": NOW - 600}, {}, {}, None), ("token-aud-other", {"aud": ["d"]}, {}, {}, None),
                  ("token-aud-two-no-azp", {"aud": ["c", "d"]}, {}, {}, None),
                  ("token-nonce-other", {"nonce": "n"}, {"nonce": "m"}, {}, None), ("token-nonce-right", {"nonce": "n"}, {"nonce": "n"}, {}, None),
                  ("kw-skew", {"exp": NOW - 10}, {"skew": 100}, {}, None),
                  ("kw-allowed-alg-same", {}, {"allowed_sign_alg": "RS256"}, {}, None),
                  ("kw-allowed-alg-other", {}, {"allowed_sign_alg": "ES256"}, {}, None),
                  ("kw-no-iss-no-client", {}, None, {}, None),
                  ("response-iss-other", {}, {}, {"iss": "https://other.example"}, None),
                  ("response-iss-same", {}, {}, {"iss": iss}, None),
                  ("response-client-other", {}, {}, {"client_id": "d"}, None),
                  ("response-aud-not-me", {}, {}, {"aud": ["d", "e"]}, None), ("response-aud-me", {}, {}, {"aud": ["d", "c"]}, None),
                  ("response-error-description-bad", {}, {}, {"error_description": "bad:1"}, None),
                  ("stale-marker", {}, {}, {}, {"__verified_id_token": "stale"})]
        for tag, over, kwx, extra, inject in others:
            for cv, av in (("right", "right"), ("wrong", "right"), ("right", "wrong"), ("absent", "absent")):
                jar, jwt = token("RS256", "RSA", cv, av, **over)
                kw = {} if kwx is None else dict(kw0, **kwx)
                for path in ("constructor", "from_json"):
                    self.idt_response_case(self.AZR, path, response(True, True, jwt, **extra), kw, jar, tbl,
                                           {"row": {"other": tag, "c_hash": cv, "at_hash": av}}, inject=inject)
        # a response without any ID Token: nothing to bind
        for with_code, with_token in itertools.product((True, False), (True, False)):
            for path in PATHS:
                self.idt_response_case(self.AZR, path, response(with_code, with_token, None), kw0, self.kj, tbl,
                                       {"row": {"id_token": None, "code": with_code, "access_token": with_token}})
        # ---- the token response: verify_id_token without check_hash - no hash rule applies
        for alg, kt in (("RS256", "RSA"), ("ES256", "EC")):
            for cv, av in itertools.product(("absent", "right", "wrong"), ("right", "wrong", "absent")):
                jar, jwt = token(alg, kt, cv, av)
                for with_code in (False, True):          # `code` is an extra of the token response
                    for path in PATHS:
                        args = response(with_code, True, jwt)
                        self.idt_response_case(self.ATR, path, args, kw0, jar, tbl,
                                               {"row": {"alg": alg, "code-extra": with_code, "c_hash": cv, "at_hash": av}}, conforming=True)

    # ------------------------------------------------------------ D. embedded signed objects
    def token_variants(self, payload_msg, signer_iss):
        """[(tag, token, genuine?)]: a signed object and its forgeries"""
        good = payload_msg.to_jwt(key=self.kj.get_signing_key("RSA", signer_iss), algorithm="RS256")
        ec = payload_msg.to_jwt(key=self.kj.get_signing_key("EC", signer_iss), algorithm="ES256")
        h, p, s = good.split(".")
        flipped = ".".join([h, p, ("A" if s[0] != "A" else "B") + s[1:]])
        import base64
        pj = json.loads(base64.urlsafe_b64decode(p + "=" * (-len(p) % 4)))
        pj["sub"] = "mallory"
        p2 = base64.urlsafe_b64encode(json.dumps(pj).encode()).decode().rstrip("=")
        swapped = ".".join([h, p2, s])
        foreign = payload_msg.to_jwt(key=self.other.get_signing_key("RSA", ""), algorithm="RS256")
        none = payload_msg.to_jwt(key=[], algorithm="none")
        bare = payload_msg.to_json()

        def jwe(text):
            """what an outsider can do: encrypt anything to the verifier's published encryption key"""
            from cryptojwt.jwe.jwe import JWE
            return JWE(text, alg="RSA-OAEP", enc="A128CBC-HS256").encrypt(self.kj.get_encrypt_key("RSA", ""))
        # (tag, token, carries a valid signature of the expected issuer?, symbolic shape for the model)
        plain = [("valid-RS256", good, True, ("jws", "SigValid", "RS256")), ("valid-ES256", ec, True, ("jws", "SigValid", "ES256")),
                 ("signature-altered", flipped, False, ("jws", "SigBad", "RS256")),
                 ("payload-altered", swapped, False, ("jws", "SigBad", "RS256")),
                 ("foreign-key", foreign, False, ("jws", "SigBad", "RS256")), ("alg-none", none, False, ("jws", "SigNone", "none")),
                 ("not-a-jwt", "aaa.bbb.ccc", False, ("junk",)), ("bare-json", bare, False, ("json",))]
        wrapped = [("jwe:" + t, jwe(tok), g, ("jwe", sh)) for t, tok, g, sh in plain
                   if t in ("valid-RS256", "bare-json", "alg-none", "foreign-key", "signature-altered")]
        return plain + wrapped

    @staticmethod
    def coq_token(shape, payload):
        """Model/Msg.v `token` for a variant of `payload` (the claims)"""
        if shape[0] == "jwe":
            return "(TJwe %s)" % Run.coq_token(shape[1], payload)
        if shape[0] == "jws":
            return "(TJws %s %s %s)" % (shape[1], coq_str(shape[2]), coq_msg(payload))
        if shape[0] == "json":
            return "(TJson %s)" % coq_msg(payload)
        return "TJunk"

    def signed_objects(self):
        from idpyoidc.message import Message
        from idpyoidc.message.oidc import AccessTokenResponse, AuthorizationRequest, IdToken, MessageWithIdToken
        from idpyoidc.message.oidc.session import BackChannelLogoutRequest, LogoutToken, BACK_CHANNEL_LOGOUT_EVENT
        ctx = self.ctx
        now = int(time.time())
        iss = "https://op.example"

        variants = self.token_variants
        idt = IdToken(iss=iss, sub="s", aud=["c"], exp=now + 600, iat=now)
        lt = LogoutToken(iss=iss, sub="s", aud=["c"], iat=now, jti="j", events={BACK_CHANNEL_LOGOUT_EVENT: {}})
        ro = Message(response_type="code", client_id="c", scope="openid", redirect_uri="https://rp/cb")
        plans = [
            ("id_token", lambda t: AccessTokenResponse(access_token="a", token_type="Bearer", id_token=t),
             dict(keyjar=self.kj, iss=iss, client_id="c"), idt, iss),
            ("id_token", lambda t: MessageWithIdToken(id_token=t), dict(keyjar=self.kj, iss=iss, client_id="c"), idt, iss),
            ("logout_token", lambda t: BackChannelLogoutRequest(logout_token=t), dict(keyjar=self.kj, iss=iss, aud="c"), lt, iss),
            ("request", lambda t: AuthorizationRequest(response_type="code", client_id="c", scope="openid",
                                                       redirect_uri="https://rp/cb", request=t), dict(keyjar=self.kj), ro, "c"),
        ]
        # the keyword by which the caller names the one signing algorithm it expects (the relying party passes
        # it for id_token and logout_token; the request classes have no such keyword at the message level)
        ALLOWED = {"id_token": ("allowed_sign_alg", "RS256"), "logout_token": ("allowed_sign_alg", "RS256")}
        for claim, build, kw0, payload, signer in plans:
            for tag, tok, genuine, shape in variants(copy.deepcopy(payload), signer):
                for with_kw in ([False, True] if claim in ALLOWED else [False]):
                    kw = dict(kw0)
                    if with_kw:
                        kw[ALLOWED[claim][0]] = ALLOWED[claim][1]
                    m = build(tok)
                    before = canon(dict(m._dict))
                    out = self.class_verify(m, **kw)
                    sfx = ":" + ALLOWED[claim][0] if with_kw else ""
                    rec = {"class": type(m).__name__, "embedded": claim, "variant": tag,
                           "verify_kwargs": {k: v for k, v in kw.items() if k != "keyjar"}, "claims": payload.to_dict()}
                    ctx.case_seen(rec, out[0] == "accepted")
                    ctx.count("signed:%s%s:%s" % (tag, sfx, out[0]))
                    if out[0] == "accepted" and not genuine:
                        ctx.violation("signed-object:%s:%s%s" % (tag, claim, sfx),
                                      "%s.verify(%s) accepted a %s that carries no valid signature of its issuer: %s"
                                      % (type(m).__name__, ", ".join(sorted(kw)), claim, tag), rec)
                    if out[0] == "refused" and genuine:
                        ctx.count("signed:refused-a-genuine-token")
                    if out[0] == "accepted":
                        self.schema_oracle(type(m).__name__, type(m), m, rec, "verify()")
                    if claim == "logout_token":
                        self.bclogout_case(m, before, out, kw, shape, payload, now, rec)
        # a request object that leaves required parameters out (the message as it stands afterwards)
        body = Message(response_type="code", client_id="c", scope="openid")
        tok = body.to_jwt(key=self.kj.get_signing_key("RSA", "c"), algorithm="RS256")
        m = AuthorizationRequest(response_type="code", client_id="c", scope="openid", redirect_uri="https://rp/cb",
                                 state="s", request=tok)
        out = self.class_verify(m, keyjar=self.kj)
        rec = {"class": "AuthorizationRequest", "embedded": "request", "variant": "request object without redirect_uri"}
        ctx.case_seen(rec, out[0] == "accepted")
        if out[0] == "accepted":
            self.schema_oracle("oidc.AuthorizationRequest", AuthorizationRequest, m, rec, "verify() with a request object", merged=True)

    # ------------------------------------------------------------ E. request objects: the message as it stands afterwards
    RO_VALUES = {"response_type": "code", "client_id": "c", "scope": "openid", "redirect_uri": "https://rp/cb",
                 "state": "s", "nonce": "n"}
    REQUEST_RULES = {"idpyoidc.message.oauth2.JWTSecuredAuthorizationRequest.verify": "jar",
                     "idpyoidc.message.oauth2.PushedAuthorizationRequest.verify": "par"}
    RO_CLASS = "idpyoidc.message.oauth2.AuthorizationRequest"

    @staticmethod
    def coq_msg_obj(d):
        """a canonical message whose values may be nested message objects (the verified request object)"""
        def val(v):
            if isinstance(v, dict) and set(v) == {"__msg__", "d"}:
                return "(VObj %s)" % coq_msg(v["d"])
            return coq_pyval(v)
        return coq_list(["(%s, %s)" % (coq_str(k), val(v)) for k, v in d.items()], "(pystr * pyval)")

    def request_objects(self):
        """every class (introspection) that declares a `request` parameter x outer request {complete, each
        required parameter removed, only client_id} x validly signed request object {complete, each required
        parameter omitted, only an optional parameter, empty} + without request / with request_uri.  Oracle:
        the schema oracle on the message as it stands after an accepting verify(); the verified object is
        the signed one.  Correspondence (the two oauth2 overrides with a model): Model/Msg.v jar_verify /
        par_verify."""
        from idpyoidc.message import Message
        ctx = self.ctx
        n_sig = 0
        for name, cls in self.classes:
            ent = cls.c_param.get("request")
            if ent is None or tier1(ent) != "str":
                continue
            ctx.count("request-object:classes")
            vf = cls.verify
            rule = self.REQUEST_RULES.get("%s.%s" % (getattr(vf, "__module__", "?"), getattr(vf, "__qualname__", "?")))
            req = [k for k, e in cls.c_param.items() if e[1] and k != "*"]
            full = {k: self.RO_VALUES.get(k, C.plain_value(cls.c_param[k])) for k in req}
            full.setdefault("client_id", "c")
            opt = {"state": "s"} if "state" in cls.c_param else {}
            outers = [("complete", dict(full, **opt))] + [("without:" + r, {k: v for k, v in dict(full, **opt).items() if k != r}) for r in req] \
                + [("only-client_id", {"client_id": "c"})]
            objects = [("complete", dict(full, **opt))] + [("omits:" + r, {k: v for k, v in dict(full, **opt).items() if k != r}) for r in req] \
                + [("only-optional", dict(opt) or {"x_other": "v"}), ("omits-all-required", {k: v for k, v in dict(full, **opt).items() if k not in req} or {"x_other": "v"})]
            cells = [(o, ro) for o in outers for ro in objects] + [(o, None) for o in outers] + [(("request_uri", dict(outers[0][1], request_uri="https://rp/ro")), None)]
            # a complete request with a complete object and its forgeries: accepted only with a valid signature
            # (oidc.AuthorizationRequest itself is a row of the signed-object matrix above)
            if name != "idpyoidc.message.oidc.AuthorizationRequest":
                for tag, tok, genuine, shape in self.token_variants(Message(**copy.deepcopy(objects[0][1])), "c"):
                    b = attempt(lambda: cls(**dict(copy.deepcopy(outers[0][1]), request=tok)))
                    if b[0] == "exc":
                        ctx.count("request-object:not-constructible")
                        continue
                    before = canon(dict(b[1]._dict))
                    out = self.class_verify(b[1], keyjar=self.kj)
                    if rule is not None:
                        self.request_case(rule, name, self.coq_token(shape, objects[0][1]), before, b[1], out,
                                          {"class": name, "embedded": "request", "variant": tag})
                    rec = {"class": name, "embedded": "request", "variant": tag, "outer_args": outers[0][1],
                           "object_claims": objects[0][1]}
                    ctx.case_seen(rec, out[0] == "accepted")
                    ctx.count("signed:%s:%s" % (tag, out[0]))
                    if out[0] == "accepted" and not genuine:
                        # alg none: accepted by every one of these classes on the unchanged tree (recorded findings
                        # signed-object:alg-none:request:<module.Class>; same root cause as the oidc.AuthorizationRequest
                        # row: Message.from_jwt checks no signature for alg none unless allowed algorithms are passed)
                        ctx.violation("signed-object:%s:request:%s" % (tag, name.replace("idpyoidc.message.", "")),
                                      "%s.verify(keyjar=...) accepted a request object: %s" % (name, tag), rec)
                    if out[0] == "accepted":
                        self.schema_oracle(name, cls, b[1], rec, "verify() with a request object", merged=True)
            for (otag, outer), obj in cells:
                args = dict(outer)
                payload = None
                if obj is not None:
                    n_sig += 1
                    kt, alg = (("RSA", "RS256"), ("EC", "ES256"))[n_sig % 2]
                    payload = obj[1]
                    args["request"] = Message(**copy.deepcopy(payload)).to_jwt(key=self.kj.get_signing_key(kt, "c"), algorithm=alg)
                b = attempt(lambda: cls(**copy.deepcopy(args)))
                rec = {"class": name, "outer": otag, "request_object": obj[0] if obj else None,
                       "outer_args": {k: v for k, v in outer.items()}, "object_claims": payload}
                if b[0] == "exc":
                    ctx.count("request-object:not-constructible")
                    continue
                m = b[1]
                before = canon(dict(m._dict))
                out = self.class_verify(m, keyjar=self.kj)
                after = canon(dict(m._dict))
                ctx.case_seen(rec, out[0] == "accepted")
                ctx.count("request-object:%s:%s" % ("with-object" if obj else "no-object", out[0]))
                if out[0] == "accepted":
                    # the class's own rule (RFC 9101): a JWT-secured request carries `request` or `request_uri`
                    if rule == "jar" and "request" not in before and "request_uri" not in before:
                        ctx.violation("rules:" + cls.__name__, "verify() of %s accepted %r: neither request nor request_uri"
                                      % (name, before), rec)
                    self.schema_oracle(name, cls, m, rec, "verify() with a request object (%s)" % obj[0] if obj else "verify()",
                                       merged=obj is not None)
                    vr = after.get("__verified_request")
                    if obj is not None and vr is not None and isinstance(vr, dict) and "d" in vr:
                        got = {k: (v if not isinstance(v, list) else " ".join(map(str, v))) for k, v in vr["d"].items()}
                        want = {k: (v if not isinstance(v, list) else " ".join(map(str, v))) for k, v in payload.items()}
                        if got != want:
                            ctx.violation("request-object:verified-content", "verify() of %s stores %r as the verified request "
                                          "object, the signed object says %r" % (name, vr["d"], payload), rec)
                if rule is not None:
                    tok_term = "(TJws SigValid %s %s)" % (coq_str(alg), coq_msg(payload)) if payload is not None else "TJunk"
                    self.request_case(rule, name, tok_term, before, m, out, rec)

    def request_case(self, rule, name, tok_term, before, m, out, rec):
        """one verify() of a request-object class for the model (Model/Msg.v jar_verify / par_verify over the
        symbolic token)"""
        ctx = self.ctx
        after = canon(dict(m._dict))
        if out[0] == "accepted":
            res = "(Ok %s)" % self.coq_msg_obj(after)
        elif out[1] in C.EXC:
            res = "(Err %s)" % C.EXC[out[1]]
        else:
            ctx.count("skipped-model:exception-class:" + out[1])
            return
        if not (pure_json(before) and pure_json(after)):
            ctx.unmodelled += 1
            return
        inp = "(%s, %s, %s, %s, %s)" % (coq_str(rule), coq_str(name), coq_str(self.RO_CLASS), tok_term, coq_msg(before))
        self.cases["request"].append(("(%s, %s)" % (inp, res), inp, rec))

    def bclogout_case(self, m, before, out, kw, shape, payload, now, rec):
        """one BackChannelLogoutRequest.verify() for the model (Model/MsgCheck.v bclogout_verify).  The claims are
        handed to the model as the token object holds them: a JSON-text parameter (`events`) in parsed form
        (trusted JSON text layer, as everywhere in the message model)"""
        ctx = self.ctx
        after = canon(dict(m._dict))
        kwj = {k: v for k, v in kw.items() if k != "keyjar"}
        if out[0] == "accepted":
            res = "(Ok %s)" % self.coq_msg_obj(after)
        elif out[1] in C.EXC:
            res = "(Err %s)" % C.EXC[out[1]]
        else:
            ctx.count("skipped-model:exception-class:" + out[1])
            return
        inp = "(%s, %s, %s, %s, %s, %s)" % (coq_str("idpyoidc.message.oidc.session.BackChannelLogoutRequest"),
                                           coq_str("idpyoidc.message.oidc.session.LogoutToken"), E.coq_z(now), coq_msg(kwj),
                                           self.coq_token(shape, canon(dict(payload._dict))), coq_msg(before))
        self.cases["bclogout"].append(("(%s, %s)" % (inp, res), inp, rec))

    # ------------------------------------------------------------ F. reserved members: the verifier's own bookkeeping
    # "an embedded signed object (request object, ID token, logout token) is accepted only with a valid signature", about
    # the message AS IT STANDS AFTER VERIFICATION: verify() stores the parsed content of the embedded object under a
    # reserved member (idpyoidc.verified_claim_name(claim) = "__verified_<claim>") that the code running after it reads
    # as "the verified ID Token / request object / logout token".  A message can ALREADY hold such a member when it is
    # presented to verify(): the peer wrote the name into the wire form, or an earlier verify() left it there and the
    # raw claim has been removed / damaged / replaced since.  Afterwards, whatever the message holds under a reserved
    # name must be the content of an object whose signature was verified in THIS verification, or nothing.
    EMBEDDED = ("id_token", "id_token_hint", "request", "logout_token")
    V_ISS = "https://op.example"
    V_IMP = IMP + ["Model.MsgVerified"]
    V_KINDS = (("v_idt", "idt_resp_case * res (bool * msg)", "chk_authzresp_idt", "m_authzresp_idt"),
               ("v_esr", "esr_case * res (bool * msg)", "chk_endsession_hint", "m_endsession_hint"),
               ("v_request", "request_case * res msg", "chk_request_v", "m_request_v"),
               ("v_ciba", "ciba_case * res msg", "chk_ciba_v", "m_ciba_v"),
               ("v_bclogout", "bclogout_case * res msg", "chk_bclogout", "m_bclogout"),
               ("v_authz", "pystr * option pystr * msg * res msg", "chk_authz_v", "m_authz_v"))

    @staticmethod
    def claims_norm(d):
        """claims for comparison: a one-element list and its element, a space-separated text and its list are the
        same value (aud, scope, response_type)"""
        if not isinstance(d, dict):
            return d
        # a nested value (the `events` member of a logout token: JSON text / dict / message, depending on the path) is
        # compared by its JSON form
        def nested(v):
            if isinstance(v, dict) and set(v) == {"__msg__", "d"}:
                v = v["d"]
            if isinstance(v, str):
                try:
                    v = json.loads(v)
                except ValueError:
                    pass
            return json.dumps(v, sort_keys=True, default=str)
        return {k: (tuple(str(x) for x in v) if isinstance(v, list) and all(isinstance(x, (str, int)) for x in v)
                    else tuple(v.split(" ")) if isinstance(v, str) and not v.startswith("{") else v if isinstance(v, (int, bool)) or v is None
                    else nested(v))
                for k, v in d.items()}

    @staticmethod
    def pure_obj(d):
        """a canonical message whose top-level values are JSON values or message objects with JSON content"""
        return all(pure_json(v) or (isinstance(v, dict) and set(v) == {"__msg__", "d"} and pure_json(v["d"])) for v in d.values()) \
            and all(isinstance(k, str) and pure_json(k) for k in d)

    def emb_kwargs(self, claim):
        return {"id_token": {"iss": self.V_ISS, "client_id": "c"}, "id_token_hint": {"iss": self.V_ISS, "client_id": "c"},
                "logout_token": {"iss": self.V_ISS, "aud": "c"}, "request": {}}[claim]

    def emb_object(self, cls, claim, who):
        """a validly signed embedded object of the kind `claim`: (compact text, claims); `who` in A, B: two different
        valid objects"""
        from idpyoidc.message import Message
        from idpyoidc.message.oidc import IdToken
        from idpyoidc.message.oidc.session import LogoutToken, BACK_CHANNEL_LOGOUT_EVENT
        NOW, iss = self.NOW, self.V_ISS
        sub = {"A": "alice", "B": "bob"}[who]
        if claim in ("id_token", "id_token_hint"):
            payload, signer = IdToken(iss=iss, sub=sub, aud=["c"], exp=NOW + 600, iat=NOW), iss
        elif claim == "logout_token":
            payload, signer = LogoutToken(iss=iss, sub=sub, aud=["c"], iat=NOW, jti="j" + who, events={BACK_CHANNEL_LOGOUT_EVENT: {}}), iss
        else:
            req = {k: self.RO_VALUES.get(k, C.plain_value(e)) for k, e in cls.c_param.items() if e[1] and k != "*"}
            req.setdefault("client_id", "c")
            # the claims a request object carries as a JWT (the CIBA request object's class requires them)
            req.update({"iss": "c", "aud": [iss], "exp": NOW + 600, "nbf": NOW, "iat": NOW, "jti": "j" + who})
            req.update({"state": "s" + who} if "state" in cls.c_param else {"x_object": who})
            req.pop(claim, None)
            payload, signer = Message(**req), "c"
        txt = payload.to_jwt(key=self.kj.get_signing_key("RSA", signer), algorithm="RS256")
        return txt, self.jwt_parts(txt)[1]

    def emb_bases(self, cls, claim):
        """outer messages to carry the embedded object in: the class's required parameters, and - for a request
        object - the stub that carries nothing but the client and the object"""
        full = {k: self.RO_VALUES.get(k, C.plain_value(e)) for k, e in cls.c_param.items() if e[1] and k != "*" and k != claim}
        if "client_id" in cls.c_param:
            full.setdefault("client_id", "c")
        out = [full]
        if claim == "request" and full != {"client_id": "c"}:
            out.append({"client_id": "c"})
        return out

    def discover_embedding(self):
        """[(class name, class, raw claim, outer base, verify kwargs, A, B, reserved names)] for every Message
        subclass x declared parameter named like an embedded signed object whose verify() - given an otherwise valid
        message with a validly signed object - leaves the object's content in the message under some member: that
        member and verified_claim_name(claim) are the reserved names of the pair."""
        from idpyoidc import verified_claim_name
        from idpyoidc.message import Message
        ctx = self.ctx
        pairs = []
        for name, cls in self.classes:
            for claim in self.EMBEDDED:
                if claim not in cls.c_param:
                    continue
                kw = self.emb_kwargs(claim)
                found = None
                for base in self.emb_bases(cls, claim):
                    b = attempt(lambda: (self.emb_object(cls, claim, "A"), self.emb_object(cls, claim, "B")))
                    if b[0] == "exc":
                        break
                    A, B = b[1]
                    mb = attempt(lambda: cls(**dict(copy.deepcopy(base), **{claim: A[0]})))
                    if mb[0] == "exc":
                        continue
                    m = mb[1]
                    had = {k for k, v in m._dict.items() if isinstance(v, Message)}
                    out = self.class_verify(m, keyjar=self.kj, **kw)
                    if out[0] != "accepted":
                        continue
                    written = sorted(k for k, v in m._dict.items() if isinstance(v, Message) and k not in had
                                     and self.claims_norm(canon(v)["d"]) == self.claims_norm(A[1]))
                    if written:
                        found = (base, written, A, B)
                        break
                if found is None:
                    ctx.count("reserved:declares-but-does-not-unpack:%s" % claim)
                    continue
                base, written, A, B = found
                # reserved = the name verified_claim_name gives; anything else verify() wrote the copy under is injected
                # as well but judged as an observation only (nothing reads it as "verified")
                names = [verified_claim_name(claim)] + sorted(set(written) - {verified_claim_name(claim)})
                pairs.append((name, cls, claim, base, kw, A, B, names))
                ctx.count("reserved:embedding-pairs")
                ctx.count("reserved:embedding:%s:%s -> %s" % (self.short(name), claim, ",".join(written)))
        return pairs

    def reserved_members(self):
        self.set_clock(True)
        try:
            self._reserved_members()
        finally:
            self.set_clock(False)

    def _reserved_members(self):
        """every class that embeds a signed object (discovered) x every reserved name of the pair
             x delivery form {constructor, from_dict, from_json, from_urlencoded, item assignment, claims of a signed JWT}
             x reserved member {absent, forged: a dict of plausible claims / a text / a message object,
                                stale: left by an earlier accepting verify() of this message - on the live object,
                                after a JSON round trip, after a dict round trip}
             x raw claim {absent, validly signed A, signature altered, replaced by another validly signed object B}
           (a request class that also declares request_uri: raw-absent rows with and without request_uri).
           Oracle, on the message as it stands after an ACCEPTING verify(): a reserved member present afterwards holds the
           claims of the raw object the message carried INTO this verify(), and that object is one of the validly signed
           ones.  Every row also goes to the model of its verify() (Model/MsgRules.v, Model/Msg.v, Model/MsgCheck.v,
           Model/MsgVerified.v) where one exists."""
        from urllib.parse import urlencode
        from idpyoidc.message import Message
        ctx = self.ctx
        self.v_tokens, self.v_terms = {}, set()
        for k, _, _, _ in self.V_KINDS:
            self.cases[k] = []
        pairs = self.discover_embedding()
        self.v_pairs = pairs
        if not pairs:
            ctx.broken.append("reserved members: no class was found that unpacks an embedded signed object")
        FORGED = {"iss": self.V_ISS, "sub": "victim", "aud": ["c"], "exp": self.NOW + 3600, "iat": self.NOW, "client_id": "c",
                  "response_type": "code", "scope": "openid", "redirect_uri": "https://attacker.example/cb"}
        from idpyoidc import verified_claim_name
        for name, cls, claim, base, kw, A, B, names in pairs:
            bad = A[0][:-4] + ("AAAA" if A[0][-4:] != "AAAA" else "BBBB")
            RAW = {"absent": None, "valid": A[0], "bad-signature": bad, "replaced": B[0]}
            genuine = {A[0]: A[1], B[0]: B[1]}
            # every reserved name of the class (one per embedded claim the class unpacks) is watched in every row
            watch = [(verified_claim_name(p[2]), p[2]) for p in pairs if p[0] == name]
            for p in pairs:
                if p[0] == name:
                    genuine.update({p[5][0]: p[5][1], p[6][0]: p[6][1]})
            unreserved = names[1:]
            companions = [{}] + ([{"request_uri": "https://rp/ro"}] if claim == "request" and "request_uri" in cls.c_param else [])

            def args_of(raw, comp):
                a = dict(copy.deepcopy(base), **comp)
                if RAW[raw] is not None:
                    a[claim] = RAW[raw]
                return a

            def judge(m, rec):
                """run the real verify(), the oracle, the model hand-off"""
                before_live = dict(m._dict)
                before = canon(before_live)
                raw0 = before_live.get(claim)
                out = self.class_verify(m, keyjar=self.kj, **copy.deepcopy(kw))
                after_live = dict(m._dict)
                accepted = out[0] == "accepted"
                ctx.case_seen(rec, accepted)
                ctx.count("reserved:%s:%s" % (rec["reserved"].split(":")[0], "accepted" if accepted else "refused:" + str(out[1])))
                if accepted:
                    for n, cl in watch:
                        if n not in after_live:
                            continue
                        held = after_live[n]
                        shown = canon(held)
                        raw_n = before_live.get(cl)
                        if not (isinstance(raw_n, str) and raw_n in genuine):
                            ctx.violation("verified-copy:unverified-kept:%s:%s" % (self.short(name), cl),
                                          "verify(%s) of %s accepted a message that carried %s under %r and %s; afterwards the message "
                                          "holds %r under %r - the content of no object whose signature this verification checked"
                                          % (", ".join(["keyjar"] + sorted(kw)), name,
                                             "nothing" if n not in before else repr(self.short_jws(before[n])), n,
                                             "no %r at all" % cl if raw_n is None else "a %r that is not validly signed" % cl,
                                             self.short_jws(shown), n),
                                          dict(rec, message_before=self.short_jws(before), message_after=self.short_jws(canon(after_live))))
                        else:
                            got = shown["d"] if isinstance(held, Message) else shown
                            # names of the verifier's own bookkeeping are no claims of the object: a copy that leaves
                            # them out (or carries them nested) is still the content of the signed object
                            strip = lambda d: {k: v for k, v in d.items() if not k.startswith(verified_claim_name(""))} if isinstance(d, dict) else d  # noqa
                            if self.claims_norm(strip(got)) != self.claims_norm(strip(genuine[raw_n])):
                                ctx.violation("verified-copy:differs-from-signed:%s:%s" % (self.short(name), cl),
                                              "verify() of %s accepted; afterwards %r holds %r, the signed %r the message carried says %r"
                                              % (name, n, self.short_jws(got), cl, genuine[raw_n]),
                                              dict(rec, message_before=self.short_jws(before), message_after=self.short_jws(canon(after_live))))
                    for n in unreserved:
                        # a copy under a name outside the verified_claim_name scheme (nothing reads it as verified)
                        if n in after_live and not (isinstance(raw0, str) and raw0 in genuine):
                            ctx.count("observation:copy-under-unreserved-name-kept-without-verification:%s:%s" % (self.short(name), n))
                    if isinstance(raw0, str) and raw0 in genuine and not any(n in after_live for n, _ in watch):
                        ctx.count("reserved:accepted-without-a-verified-copy")
                    self.schema_oracle(name, cls, m, rec, "verify()", merged=claim == "request")
                self.reserved_model(name, cls, claim, kw, genuine, before, canon(after_live), raw0, out, rec)
                return out

            def build(form, args, n, forged):
                """the message holding `args` and (n is not None) the reserved member n = forged, along one delivery form"""
                extra = {} if n is None else {n: forged}
                if form == "constructor":
                    return cls(**dict(copy.deepcopy(args), **copy.deepcopy(extra)))
                if form == "from_dict":
                    return cls().from_dict(dict(copy.deepcopy(args), **copy.deepcopy(extra)))
                if form == "from_json":
                    return cls().from_json(json.dumps(dict(args, **extra)))
                if form == "from_urlencoded":
                    flat = {k: (" ".join(v) if isinstance(v, list) else v) for k, v in args.items()}
                    return cls().from_urlencoded(urlencode(dict(flat, **{k: (v if isinstance(v, str) else json.dumps(v)) for k, v in extra.items()})))
                if form == "setitem":
                    m = cls(**copy.deepcopy(args))
                    for k, v in extra.items():
                        m[k] = copy.deepcopy(v)
                    return m
                if form == "jwt-claims":
                    txt = Message(**dict(copy.deepcopy(args), **copy.deepcopy(extra))).to_jwt(
                        key=self.kj.get_signing_key("RSA", "c"), algorithm="RS256")
                    return cls().from_jwt(txt, keyjar=self.kj, key=self.kj.get_signing_key("RSA", "c"))
                raise ValueError(form)

            FORMS = ("constructor", "from_dict", "from_json", "from_urlencoded", "setitem", "jwt-claims")
            # ---- reserved member absent: the plain rows (raw claim x constructor / from_json)
            for raw in ("absent", "valid", "bad-signature"):
                for comp in (companions if raw == "absent" else [{}]):
                    for form in ("constructor", "from_json"):
                        rec = {"class": name, "embedded": claim, "reserved": "absent", "raw_claim": raw, "form": form,
                               "args": self.short_jws(args_of(raw, comp)), "verify_kwargs": kw}
                        b = attempt(lambda: build(form, args_of(raw, comp), None, None))
                        if b[0] == "exc":
                            ctx.count("reserved:not-constructible:" + form)
                            continue
                        judge(b[1], rec)
            # ---- forged by the peer: the reserved name inside the wire form
            for n in names:
                for raw in ("absent", "valid", "bad-signature"):
                    for comp in (companions if raw == "absent" else [{}]):
                        for form in FORMS:
                            shapes = [("claims", FORGED)] + ([("text", "forged")] if form in ("constructor", "from_urlencoded") else []) \
                                + ([("object", Message(**FORGED))] if form == "setitem" else [])
                            for stag, forged in shapes:
                                rec = {"class": name, "embedded": claim, "reserved": "forged:%s" % stag, "reserved_name": n,
                                       "raw_claim": raw, "form": form, "args": self.short_jws(args_of(raw, comp)),
                                       "forged_member": canon(forged), "verify_kwargs": kw}
                                b = attempt(lambda: build(form, args_of(raw, comp), n, forged))
                                if b[0] == "exc":
                                    ctx.count("reserved:not-constructible:" + form)
                                    continue
                                if n not in b[1]._dict:
                                    ctx.count("reserved:dropped-by-the-delivery-form:" + form)
                                judge(b[1], rec)
            # ---- forged by the peer, delivered as a CLAIM OF THE (validly signed) REQUEST OBJECT: the classes that unpack
            #      a request object merge its claims into the message
            if claim == "request":
                others = sorted({verified_claim_name(c) for c in self.EMBEDDED} | {n for p in pairs if p[0] == name for n in p[7]})
                for n in others:
                    payload = dict(A[1], **{n: FORGED})
                    txt = Message(**copy.deepcopy(payload)).to_jwt(key=self.kj.get_signing_key("RSA", "c"), algorithm="RS256")
                    genuine[txt] = self.jwt_parts(txt)[1]
                    for form in ("constructor", "from_json", "from_urlencoded"):
                        args = dict(copy.deepcopy(base), **{claim: txt})
                        rec = {"class": name, "embedded": claim, "reserved": "forged:claim-of-the-signed-request-object", "reserved_name": n,
                               "raw_claim": "valid", "form": form, "args": self.short_jws(args), "object_claims": payload, "verify_kwargs": kw}
                        b = attempt(lambda: build(form, args, None, None))
                        if b[0] == "exc":
                            ctx.count("reserved:not-constructible:" + form)
                            continue
                        judge(b[1], rec)
            # ---- stale: left by an earlier accepting verify() of the same message
            for raw in ("absent", "valid", "bad-signature", "replaced"):
                for comp in (companions if raw == "absent" else [{}]):
                    for carry in ("live", "json-round-trip", "dict-round-trip"):
                        m = cls(**args_of("valid", {}))
                        first = self.class_verify(m, keyjar=self.kj, **copy.deepcopy(kw))
                        if first[0] != "accepted" or not any(n in m._dict for n in names):
                            ctx.count("reserved:stale:first-verification-left-nothing")
                            continue
                        m._dict.pop(claim, None)
                        if RAW[raw] is not None:
                            m[claim] = RAW[raw]
                        for k, v in comp.items():
                            m[k] = v
                        if carry != "live":
                            b = attempt(lambda: cls().from_json(m.to_json()) if carry == "json-round-trip" else cls().from_dict(m.to_dict()))
                            if b[0] == "exc":
                                ctx.count("reserved:not-constructible:" + carry)
                                continue
                            m = b[1]
                        rec = {"class": name, "embedded": claim, "reserved": "stale:%s" % carry, "raw_claim": raw,
                               "history": ["%s(%s).verify(%s) -> accepted" % (cls.__name__, self.short_jws(args_of("valid", {})), ", ".join(["keyjar"] + sorted(kw))),
                                           "raw claim %r: %s%s" % (claim, {"absent": "deleted", "valid": "kept", "bad-signature": "signature altered",
                                                                           "replaced": "replaced by another validly signed object"}[raw],
                                                                   ", %r set" % comp if comp else ""),
                                           {"live": "same object", "json-round-trip": "to_json() -> from_json()",
                                            "dict-round-trip": "to_dict() -> from_dict()"}[carry], "verify() again"],
                               "verify_kwargs": kw}
                        judge(m, rec)

    def v_token(self, claims):
        """the symbolic token of a validly signed object, defined once in front of the case files"""
        # a JSON-text claim (`events` of a logout token) in parsed form, as the token object holds it (trusted JSON
        # text layer, as in bclogout_case)
        if isinstance(claims.get("events"), str):
            claims = dict(claims, events=json.loads(claims["events"]))
        key = json.dumps(claims, sort_keys=True)
        if key not in self.v_tokens:
            self.v_tokens[key] = ("vtok_%d" % len(self.v_tokens), "(TJws SigValid %s %s)" % (coq_str("RS256"), coq_msg(self.short_jws(claims))))
        return self.v_tokens[key][0]

    V_OWNERS = {"idpyoidc.message.oidc.AccessTokenResponse.verify": "tokenresp",
                "idpyoidc.message.oidc.AuthorizationResponse.verify": "authzresp",
                "idpyoidc.message.oidc.session.EndSessionRequest.verify": "esr",
                "idpyoidc.message.oauth2.JWTSecuredAuthorizationRequest.verify": "jar",
                "idpyoidc.message.oauth2.PushedAuthorizationRequest.verify": "par",
                "idpyoidc.message.oidc.backchannel_authentication.AuthenticationRequest.verify": "ciba",
                "idpyoidc.message.oidc.session.BackChannelLogoutRequest.verify": "bclogout",
                "idpyoidc.message.oidc.AuthorizationRequest.verify": "authz"}

    def reserved_model(self, name, cls, claim, kw, genuine, before, after, raw0, out, rec):
        """one row of the reserved-member matrix for the model of the verify() the class runs"""
        ctx = self.ctx
        vf = cls.verify
        owner = self.V_OWNERS.get("%s.%s" % (getattr(vf, "__module__", "?"), getattr(vf, "__qualname__", "?")))
        if owner is None:
            ctx.count("reserved:oracle-only:" + self.short(name))
            return
        if raw0 is not None and not (isinstance(raw0, str) and raw0 in genuine):
            ctx.count("reserved:model-skipped:the-exceptions-of-cryptojwt-are-outside-the-model")
            return
        before, after = self.short_jws(before), self.short_jws(after)
        if not (self.pure_obj(before) and self.pure_obj(after) and pure_json(kw)):
            ctx.unmodelled += 1
            return
        if out[0] == "refused" and out[1] != "False" and out[1] not in C.EXC:
            ctx.count("skipped-model:exception-class:" + str(out[1]))
            return
        tok = "TJunk" if raw0 is None else self.v_token(genuine[raw0])
        issuers = coq_list([coq_str(i) for i in sorted({self.V_ISS, "c"}) if i in self.kj], "pystr")
        mb, ma = self.coq_msg_obj(before), self.coq_msg_obj(after)
        err = None if out[0] == "accepted" or out[1] == "False" else "(Err %s)" % C.EXC[out[1]]
        res_bm = err or "(Ok (%s, %s))" % (E.coq_bool(out[0] == "accepted"), ma)
        res_m = err or ("(Ok %s)" % ma if out[0] == "accepted" else None)
        if owner in ("tokenresp", "authzresp"):
            kind, res = "v_idt", res_bm
            inp = "(%s, %s, %s, %s, %s, %s, (@nil (pystr * pystr * pystr)), %s, %s)" % (
                E.coq_bool(owner == "authzresp"), coq_str(name), coq_str(self.IDT), E.coq_z(self.NOW), coq_msg(kw), issuers, tok, mb)
        elif owner == "esr":
            kind, res = "v_esr", res_bm
            inp = "(%s, %s, %s, %s, %s, %s, %s)" % (coq_str(name), coq_str(self.IDT), E.coq_z(self.NOW), coq_msg(kw), issuers, tok, mb)
        elif owner in ("jar", "par"):
            kind, res = "v_request", res_m
            inp = "(%s, %s, %s, %s, %s)" % (coq_str(owner), coq_str(name), coq_str(self.RO_CLASS), tok, mb)
        elif owner == "ciba":
            kind, res = "v_ciba", res_m
            rt, ht = (tok, "TJunk") if claim == "request" else ("TJunk", tok)
            inp = "(%s, %s, %s, %s, %s, %s, %s)" % (coq_str(name), coq_str(self.CIBA_JWT), coq_str(self.IDT), coq_msg(kw), rt, ht, mb)
        elif owner == "bclogout":
            kind, res = "v_bclogout", res_m
            inp = "(%s, %s, %s, %s, %s, %s)" % (coq_str(name), coq_str("idpyoidc.message.oidc.session.LogoutToken"), E.coq_z(self.NOW),
                                               coq_msg(kw), tok, mb)
        else:
            if any(k in before for k in ("request", "id_token_hint", "request_uri")):
                ctx.count("reserved:oracle-only:oidc.AuthorizationRequest-with-an-embedded-object")
                return
            kind, res = "v_authz", res_m
            inp = "(%s, None, %s)" % (coq_str(name), mb)
        if res is None:
            ctx.count("skipped-model:returned-False")
            return
        term = "(%s, %s)" % (inp, res)
        if term in self.v_terms:
            ctx.count("reserved:model-case-shared-between-forms")
            return
        self.v_terms.add(term)
        self.cases[kind].append((term, inp, rec))

    def run_model(self):
        ctx = self.ctx
        for kind, ty, chk, fn in (("verify", "pystr * msg * res unit", "chk_verify", "m_verify"),
                                  ("construct", "pystr * msg * res msg", "chk_construct", "m_construct"),
                                  # the request classes: verify() = clear_verified_claims, then the transcribed body (Model/MsgVerified.v)
                                  ("authz", "pystr * option pystr * msg * res msg", "chk_authz_v", "m_authz_v"),
                                  ("rules", "rules_case * res (bool * msg)", "chk_rules", "m_rules"),
                                  ("request", "request_case * res msg", "chk_request_v", "m_request_v"),
                                  ("bclogout", "bclogout_case * res msg", "chk_bclogout", "m_bclogout"),
                                  ("authzresp_idt", "idt_resp_case * res (bool * msg)", "chk_authzresp_idt", "m_authzresp_idt"),
                                  # the presence tables of the set rules: always evaluated in full, never sampled
                                  ("setrules", "rules_case * res (bool * msg)", "chk_rules", "m_rules"),
                                  ("ciba", "ciba_case * res msg", "chk_ciba_v", "m_ciba_v"),
                                  ("none_or_one", "list pystr * msg * res bool", "chk_none_or_one", "m_none_or_one")):
            cs = self.cases[kind]
            cap = (1200 if kind != "rules" else 4000) if ctx.quick else 10 ** 9
            if kind in ("setrules", "ciba", "none_or_one"):
                cap = 10 ** 9
            if len(cs) > cap:
                cs = self.rng.sample(cs, cap)
            ctx.count("model-cases:" + kind, len(cs))
            if kind == "authzresp_idt":
                C.check_cases(ctx, IMP, ty, chk, fn, cs, kind, shard=60, prelude=getattr(self, "idt_prelude", ""))
                continue
            if kind in ("setrules", "ciba"):
                C.check_cases(ctx, self.V_IMP if kind == "ciba" else IMP, ty, chk, fn, cs, kind, shard=100,
                              prelude=getattr(self, "ciba_prelude", "") if kind == "ciba" else "")
                continue
            C.check_cases(ctx, self.V_IMP if kind in ("authz", "request") else IMP, ty, chk, fn, cs, kind)
        # the reserved-member matrix: always evaluated in full, never sampled
        prelude = "".join("Definition %s : token := %s.\n" % nt for nt in getattr(self, "v_tokens", {}).values())
        for kind, ty, chk, fn in self.V_KINDS:
            cs = self.cases.get(kind, [])
            ctx.count("model-cases:" + kind, len(cs))
            C.check_cases(ctx, self.V_IMP, ty, chk, fn, cs, kind, shard=80, prelude=prelude)


def run(ctx):
    r = Run(ctx)
    ctx.count("classes", len(r.classes))
    r.declared_tie()
    r.isolation()
    r.witnesses()
    r.faults()
    r.slots()
    r.authz_table()
    r.rules_tables()
    r.set_rules()
    r.signed_objects()
    r.request_objects()
    r.hash_tables()
    r.reserved_members()
    r.run_model()
    ctx.count("classes-whose-verify-accepted-the-base-message", len(r.accepting))


def replay(ctx, rp):
    ctx.notes.append("replay re-runs the generator with the recorded seed")
    ctx.rng.seed(rp.get("seed", ctx.seed))
    run(ctx)
