"""C12 driver — provider and relying party interoperate over the whole configuration space.

Every case is one COMPLETE flow of this library's relying party (StandAloneClient, real services, real add-ons)
against this library's provider (real endpoints), in one process, through harness/rp_op_c12.py:

    dynamic discovery (provider_config endpoint) -> static registration (the provider-side client record is
    what the RP instance says it uses) -> RP init_authorization -> [PAR endpoint / request_uri fetch] ->
    authorization endpoint -> delivery (query / fragment / form_post) -> RP finalize (token endpoint with the
    cell's client authentication, userinfo endpoint) -> RP introspection service -> RP refresh

For every flow
  * the observed outcome (completed, or the place where it stopped) is compared with Model/Interop.v
    (`flow_outcome`, evaluated by vm_compute inside coqc)                      [model <-> implementation]
  * for a completed flow every observed view (token response, introspection, userinfo, ID Token, relying party,
    JWT access token) is compared with the model's projection of the provider's session record (`chk_views`)
  * an oracle written from the property text (no model): the flow completes for every combination both halves
    advertise; the artefacts honour the configuration (algorithms, token formats, delivery mode, redirect URI);
    client, subject, scope, nonce and expiry agree between ALL views, pairwise.
  * requested scope vs granted scope: the flows also ask for scope values the provider does not know, for values the
    operator has not put into the client's allowed_scopes (or the client record has no allowed_scopes at all), and
    refresh with a narrower (or re-widened) scope.  The oracle computes the granted scope on its own (requested &
    advertised by the provider & allowed for the client; for a refresh: the scope the refresh request states) and
    every scope statement it can read - provider grant, the access token's record, authorization response, token /
    refresh response, relying-party state, JWT access-token claim, introspection - must be exactly that; the model
    computes it from the regenerated op_scopes (`chk_grant`, `chk_refresh_scoped`).
"""
import base64
import json
import os
import random
import sys
import time
from concurrent.futures import ProcessPoolExecutor

import engine as E
from engine import coq_str, coq_list, coq_bool, coq_z, coq_n, coq_opt

RULE = ("one case = one full RP<->OP flow (discovery, static registration, authorization [plain | request object | "
        "request_uri | PAR], delivery, token, userinfo, introspection, refresh) for one cell of response_type x "
        "response_mode x token-endpoint auth method x opaque/JWT access token x opaque/JWT refresh token x ID Token "
        "signing alg x ID Token encryption alg/enc x userinfo signing alg x userinfo encryption alg/enc x request "
        "transport x PKCE method, with per-flow random user, scope set, claims request, clock latency, secret "
        "length, RP response-type configuration, and the requested-vs-granted dimension: {every requested scope granted, "
        "scope values unknown to the provider, values outside the client's allowed_scopes, both, client record without "
        "allowed_scopes} x refresh {as recorded, narrowed, narrowed then restated, narrowed twice}, enumerated for every "
        "response type (scope matrix) and a dimension of the pairwise array.  quick: (1) the limit matrix - every cell class in which exactly one "
        "named limit of the model applies, enumerated (single-fault matrix), plus negotiation-fallback cells; (2) a "
        "pairwise covering array (greedy, seeded) of the limit-free sub-space over algorithm FAMILIES with the "
        "concrete algorithm drawn round-robin so that every individual value of every dimension occurs; thorough: "
        "every cell of the sub-products transport x auth x (type, mode) x offline, ID Token alg cells, userinfo "
        "sig x enc cells, token-format cells, PKCE x transport cells.  A case is non-trivial when the flow reached "
        "the provider; distinct = distinct (cell, inputs).")
ASSUMPTIONS = [
    "real cryptographic interoperability of every algorithm pair is exercised on the real libraries, not proved: "
    "the model only decides whether a key of the right family is where the code looks for it (partial)",
    "C12_views_model: sub_of (user, client) is an arbitrary function of the environment (C18); the granted scope is "
    "filter_scopes of (regenerated provider scopes, the client's allowed_scopes, requested scope) - "
    "C12_granted_scope, C12_scope_views_granted - tied to the code by chk_grant / chk_refresh_scoped on every flow; "
    "the nonce is returned unchanged and bound to the state (C08/C09); checked on every flow by the oracle",
    "requested vs granted: deny_unknown_scopes stays at the provider's default (off; regenerated "
    "op_deny_unknown_scopes); the operator's allowed_scopes contain only scope values the provider knows and always "
    "openid; a narrowed refresh keeps openid and offline_access; two refresh rounds per flow (the scope a refresh "
    "token 'stands for' is the originally granted scope in both)",
    "validated configuration (harness/rp_op_c12.py): provider states response_types_supported / scopes_supported "
    "explicitly; key jars hold RSA, EC P-256/384/521/secp256k1 and OKP keys with 'alg' annotations that work "
    "around cryptojwt 1.11 pick_key (ES512 -> P-521, Ed448 first); the PAR add-on authenticates with the "
    "token-endpoint method when that is a secret/JWT method, else client_secret_basic",
    "the user is authenticated by NoAuthn; HTTP is an in-process dispatcher (status, body, content-type)",
    "lifetime dimension (Model/InteropLifetime.v, C12_lifetime_*): the model's handler object is the one the "
    "configuration made, before and after every mint (handler_stamp) - tied to the code by chk_lifetimes on every "
    "sequence of flows driven on one real provider instance; visited usage rules: access-token rule empty (handler "
    "lifetime) or with expires_in, provider-wide or per client; the refresh-token rule always names what it mints and "
    "always states expires_in (provider-wide, or the client's own laid over it) - a rule that is NOT empty and states "
    "no expires_in is outside the visited class (there the session record keeps expires_at = 0)",
]

MODES = [None, "query", "fragment", "form_post"]
TRANSPORTS = ["plain", "request", "request_uri", "par"]
SCOPES = ["profile", "email", "address", "phone", "offline_access"]
# the six scope values the validated configuration makes the provider know / advertise and (unless a flow says
# otherwise) allows the client
PROVIDER_SCOPES = ["openid", "profile", "email", "address", "phone", "offline_access"]
# values the provider does not know (a different case is a different scope value)
UNKNOWN_SCOPES = ["calendar", "urn:c12:read", "Email", "profile.write", "offline"]
SCOPE_KINDS = ["full", "unknown", "not_allowed", "both", "unset"]
# per refresh round: "-" nothing asked, "n" narrower than granted, "nn" narrower still, "g" the granted scope restated
REFRESH_PATTERNS = [("n", "-"), ("-", "n"), ("n", "g"), ("n", "nn")]
USERS = ["diana", "babs", "upper"]
CLAIMS = [None,
          {"id_token": {"email": {"essential": True}}},
          {"userinfo": {"phone_number": None, "nickname": None}},
          {"id_token": {"given_name": None}, "userinfo": {"email": {"essential": True}}}]
NOW = 1_700_000_000


def repaired_flags():
    """the repaired_* flags of Model/Interop.v (one per recorded finding that has a repair): the generator follows
    them when it sorts cells into limit-free ones and limit cells; verdicts never depend on them"""
    import re
    txt = open(os.path.join(E.COQ, "Model", "Interop.v")).read()
    return {m.group(1): m.group(2) == "true"
            for m in re.finditer(r"^Definition repaired_(\w+) : bool := (true|false)\.", txt, re.M)}


REPAIRED = repaired_flags()


# ------------------------------------------------------------------ dimension tables (read from the library)
def tables():
    from idpyoidc.client.oidc import authorization as c_az, access_token as c_at, userinfo as c_ui
    from idpyoidc.client.claims import oidc as c_claims
    from idpyoidc.client import defaults as c_def
    from cryptojwt.jws.utils import alg2keytype as sig_kty
    from cryptojwt.jwe.utils import alg2keytype as enc_kty

    def v(x):
        return list(x() if callable(x) else x)
    t = {
        # every response type both halves can be configured with, not only the `_supports` default
        "rt": list(c_def.DEFAULT_RESPONSE_MODE.keys()),
        "rt_default": v(c_az.Authorization._supports["response_types_supported"]),
        "rm": v(c_az.Authorization._supports["response_modes_supported"]),
        "auth": v(c_at.AccessToken._supports["token_endpoint_auth_methods_supported"]),
        "idt_sig": v(c_claims.Claims._supports["id_token_signing_alg_values_supported"]),
        "idt_enc_alg": v(c_claims.Claims._supports["id_token_encryption_alg_values_supported"]),
        "idt_enc_enc": v(c_claims.Claims._supports["id_token_encryption_enc_values_supported"]),
        "ui_sig": v(c_ui.UserInfo._supports["userinfo_signing_alg_values_supported"]),
        "ui_enc_alg": v(c_ui.UserInfo._supports["userinfo_encryption_alg_values_supported"]),
        "ui_enc_enc": v(c_ui.UserInfo._supports["userinfo_encryption_enc_values_supported"]),
        "pkce": list(c_def.CC_METHOD.keys()),
    }

    def sfam(a):
        k = sig_kty(a)
        if k == "RSA":
            return "PS" if a.startswith("PS") else "RS"
        return {"EC": "ES", "OKP": "Ed", "oct": "HS"}[k]
    t["sig_fam"] = {a: sfam(a) for a in set(t["idt_sig"]) | set(t["ui_sig"])}
    t["enc_fam"] = {a: {"RSA": "RSA", "EC": "ECDH", "oct": "KW"}[enc_kty(a)]
                    for a in set(t["idt_enc_alg"]) | set(t["ui_enc_alg"])}
    return t


# ------------------------------------------------------------------ what the generator knows about the limits
# (used ONLY to organise generation: which cells go to the pairwise array and which to the limit matrix;
#  verdicts come from the model comparison and from the oracle)
def py_limits(c, offline, T, claims=False):
    rts = c["rt"].split(" ")
    out = []
    if not REPAIRED.get("par_request_class") and c["transport"] == "par" and claims:
        out.append("par_claims")
    if (c["rm"] == "fragment" and c["rt"] == "code") or (c["rm"] == "query" and c["rt"] != "code"):
        out.append("mode")
    if not c.get("op_explicit", True) and c["rt"] != "code":
        out.append("shadow")
    R = REPAIRED
    redeems = "code" in rts and "token" not in rts        # the RP goes to the token endpoint
    if not R.get("hs_sign") and T["sig_fam"].get(c["idt_sig"]) == "HS" and ("id_token" in rts or redeems):
        out.append("hs_idt")
    if c.get("idt_enc") and ("id_token" in rts or redeems):
        if not R.get("idt_enc"):
            out.append("idt_enc")
        elif T["enc_fam"].get(c["idt_enc"][0]) == "KW" and c["secret_len"] not in (16, 24, 32):
            out.append("kw_idt")
    has_at = c["rt"] != "id_token"
    if not R.get("hs_sign") and has_at and c["ui_sig"] and T["sig_fam"].get(c["ui_sig"]) == "HS":
        out.append("hs_ui")
    if has_at and c["ui_enc"] and T["enc_fam"].get(c["ui_enc"][0]) == "KW" and c["secret_len"] not in (16, 24, 32):
        out.append("kw")
    if not R.get("byref") and c["transport"] in ("request_uri", "par") and "id_token" in rts:
        out.append("byref_nonce")
    if not R.get("byref") and c["transport"] in ("request_uri", "par") and offline:
        out.append("byref_consent")
    if not R.get("par_issuer_audience") and c["transport"] == "par" and c["auth"] in ("client_secret_jwt", "private_key_jwt"):
        out.append("par_jwt")
    return out


# ------------------------------------------------------------------ one flow (runs in a worker process)
def _b64json(p):
    try:
        return json.loads(base64.urlsafe_b64decode(p + "=" * (-len(p) % 4)))
    except Exception:
        return None


def jose_shape(tok):
    """('jws', header, payload) | ('jwe', header, None) | ('opaque', None, None)"""
    if not isinstance(tok, str):
        return ("opaque", None, None)
    parts = tok.split(".")
    if len(parts) == 3:
        h, p = _b64json(parts[0]), _b64json(parts[1])
        if isinstance(h, dict) and "alg" in h and isinstance(p, dict):
            return ("jws", h, p)
    if len(parts) == 5:
        h = _b64json(parts[0])
        if isinstance(h, dict) and "enc" in h:
            return ("jwe", h, None)
    return ("opaque", None, None)


def scope_list(x):
    if x is None:
        return None
    if isinstance(x, str):
        x = x.split(" ")
    return sorted(s for s in x if s)


def one(x):
    if isinstance(x, list):
        return x[0] if len(x) == 1 else " ".join(x)
    return x


def fill_record(rec, job, pair, obs):
    """the record of one COMPLETED flow: artefacts, the provider's session record, every view (also after each
    refresh round), and every statement about the expiry of the tokens (expiry_views)"""
    cell = job["cell"]
    rec["outcome"] = {"where": "ok", "stage": obs["stages"][-1], "detail": ""}
    rec["stages"] = obs["stages"]
    rec["advertised_scopes"] = obs.get("advertised_scopes")
    rec["op_requested"] = scope_list((obs.get("op_grant") or {}).get("requested"))
    rec["rp_requested"] = scope_list(obs.get("rp_scope"))
    fin = obs["finalize"]
    st = obs["rp_state"]
    has_token = fin.get("token") is not None
    rec["has_token"] = has_token
    rec["at_from"], rec["idt_from"] = obs["access_token_from"], obs["id_token_from"]
    # ---- artefacts
    rec["delivery"] = obs["delivery"]
    rec["delivered_to"] = obs["delivered_to"]
    rec["delivered_keys"] = obs["delivered_keys"]
    rec["rp_callbacks"] = obs["rp_callbacks"]
    rec["rp_redirect_uri"] = st.get("redirect_uri")
    rec["authz_query_keys"] = obs["authz_query_keys"]
    rec["rp_use"] = {k: v for k, v in obs["rp_use"].items() if k in (
        "token_endpoint_auth_method", "id_token_signed_response_alg", "id_token_encrypted_response_alg",
        "id_token_encrypted_response_enc", "userinfo_signed_response_alg", "userinfo_encrypted_response_alg",
        "userinfo_encrypted_response_enc", "response_types", "response_modes")}
    kind, h, p = jose_shape(obs["raw_id_token"])
    rec["id_token_shape"] = kind
    rec["id_token_outer_header"] = h
    rec["id_token_verified_alg"] = (obs.get("id_token_jws_header") or {}).get("alg")
    rec["id_token_verified_jwe"] = obs.get("id_token_jwe_header")
    if obs.get("userinfo_wire"):
        ct, body = obs["userinfo_wire"]
        k2, h2, _ = jose_shape(body)
        rec["userinfo_wire"] = {"content_type": ct.split(";")[0].strip(), "shape": k2, "header": h2}
    else:
        rec["userinfo_wire"] = None
    at = fin.get("token")
    rec["access_token_shape"] = jose_shape(at)[0] if at else None
    rtok = (obs.get("token_response") or {}).get("refresh_token")
    rec["refresh_token_shape"] = jose_shape(rtok)[0] if rtok else None
    # ---- the provider's session record
    g = obs.get("op_grant") or {}
    toks = obs.get("op_tokens") or []
    at_rec = next((t for t in toks if t["class"] == "access_token" and t["value"] == at), None) if at else None
    idt_rec = next((t for t in toks if t["class"] == "id_token" and t["value"] == obs["raw_id_token"]), None)
    # idt_exp: the expiry the provider WROTE INTO the ID Token; idt_exp_recorded: what its session database holds
    issued_exp = p.get("exp") if kind == "jws" else (fin.get("id_token") or {}).get("exp")
    rec["session"] = {"client": g.get("client_id"), "sub": g.get("sub"), "scope": scope_list(g.get("scope")),
                      "nonce": g.get("nonce"), "at_exp": at_rec["expires_at"] if at_rec else None,
                      "idt_exp": issued_exp,
                      "idt_exp_recorded": idt_rec["expires_at"] if idt_rec else None,
                      "at_scope": scope_list(at_rec["scope"]) if at_rec else None,
                      "user": g.get("user_id")}
    tt = obs.get("token_times") or []
    rec["now_op"], rec["now_rp"] = (tt[0] if tt else (job.get("t_start", NOW), job.get("t_start", NOW)))
    # ---- views
    views = {}
    idt = fin.get("id_token") or {}
    if fin.get("id_token") is not None:
        views["id_token"] = {"client": one(idt.get("aud")), "sub": idt.get("sub"), "nonce": idt.get("nonce"),
                             "idt_exp": idt.get("exp")}
    # hashes in the ID Token that arrived in the authorization response, and what arrived with it
    k0, h0, p0 = jose_shape(obs["delivered"].get("id_token"))
    rec["front_id_token"] = ({"hashes": [h for h in ("c_hash", "at_hash") if h in (p0 or {})],
                              "with": [a for a in ("code", "access_token") if a in obs["delivered"]],
                              "shape": k0} if "id_token" in obs["delivered"] else None)
    vidt = st.get("__verified_id_token") or {}
    rp_sub = st.get("sub") or vidt.get("sub")
    views["rp"] = {"client": obs["rp_client_id"], "sub": rp_sub, "scope": scope_list(st.get("scope")),
                   "nonce": st.get("nonce"), "at_exp": st.get("__expires_at"), "idt_exp": vidt.get("exp")}
    rec["rp_sub_bound"] = rp_sub in (pair.rp.get_context().cstate._map or {})
    rec["rp_nonce_sent"] = obs.get("rp_nonce")
    if has_token:
        # the response that carried the access token: the token response, or the authorization response
        tr = (obs.get("token_response") or {}) if rec["at_from"] == "token" else obs["delivered"]
        views["token_response"] = {"scope": scope_list(tr.get("scope")),
                                   "at_exp": (rec["now_op"] + int(tr["expires_in"])) if "expires_in" in tr else None}
        ui = fin.get("userinfo") or {}
        views["userinfo"] = {"sub": ui.get("sub")}
        rec["userinfo_claims"] = sorted(ui.keys())
        ir = obs.get("introspection")
        if ir is not None:
            views["introspection"] = {"client": ir.get("client_id"), "sub": ir.get("sub"),
                                      "scope": scope_list(ir.get("scope")), "at_exp": ir.get("exp")}
            rec["introspection_active"] = ir.get("active")
        ks, hs, ps = jose_shape(at)
        if ks == "jws":
            views["jwt_access_token"] = {"client": ps.get("client_id"), "sub": ps.get("sub"),
                                         "scope": scope_list(ps.get("scope")), "at_exp": ps.get("exp")}
    views["delivered"] = {"scope": scope_list(obs["delivered"].get("scope")), "client": obs["delivered"].get("client_id")}
    rec["views"] = views
    # ---- refresh rounds: the same observation points, read again for the refreshed tokens
    rounds = []
    for rd in obs.get("refresh_rounds") or []:
        tr, st2 = rd["token_response"], rd["rp_state"]
        new_at, new_idt = tr.get("access_token"), tr.get("id_token")
        toks2 = rd.get("op_tokens") or []
        at2 = next((t for t in toks2 if t["class"] == "access_token" and t["value"] == new_at), None)
        idt2 = next((t for t in toks2 if t["class"] == "id_token" and t["value"] == new_idt), None) if new_idt else None
        g2 = rd.get("op_grant") or {}
        k3, h3, p3 = jose_shape(new_idt)
        vidt2 = st2.get("__verified_id_token") or {}
        tt2 = rd.get("token_times") or []
        n_op, n_rp = tt2[0] if tt2 else (None, None)
        sess2 = {"client": g2.get("client_id"), "sub": g2.get("sub"), "scope": scope_list(g2.get("scope")),
                 "nonce": g2.get("nonce"), "at_exp": at2["expires_at"] if at2 else None,
                 "idt_exp": (p3.get("exp") if k3 == "jws" else vidt2.get("exp")) if new_idt else None,
                 "idt_exp_recorded": idt2["expires_at"] if idt2 else None,
                 "at_scope": scope_list(at2["scope"]) if at2 else None, "user": g.get("user_id")}
        v2 = {"token_response": {"scope": scope_list(tr.get("scope")),
                                 "at_exp": (n_op + int(tr["expires_in"])) if ("expires_in" in tr and n_op is not None) else None},
              "rp": {"client": obs["rp_client_id"], "sub": st2.get("sub") or vidt2.get("sub"),
                     "scope": scope_list(st2.get("scope")), "nonce": st2.get("nonce"),
                     "at_exp": st2.get("__expires_at"), "idt_exp": vidt2.get("exp") if new_idt else None}}
        if new_idt:
            v2["id_token"] = {"client": one(vidt2.get("aud")), "sub": vidt2.get("sub"), "nonce": vidt2.get("nonce"),
                              "idt_exp": vidt2.get("exp")}
        if "userinfo" in rd:
            v2["userinfo"] = {"sub": rd["userinfo"].get("sub")}
        ir2 = rd.get("introspection")
        if ir2 is not None:
            v2["introspection"] = {"client": ir2.get("client_id"), "sub": ir2.get("sub"),
                                   "scope": scope_list(ir2.get("scope")), "at_exp": ir2.get("exp")}
        k4, h4, p4 = jose_shape(new_at)
        if k4 == "jws":
            v2["jwt_access_token"] = {"client": p4.get("client_id"), "sub": p4.get("sub"),
                                      "scope": scope_list(p4.get("scope")), "at_exp": p4.get("exp")}
        rounds.append({"round": rd["round"], "cell": cell, "scope": job["scope"], "has_token": new_at is not None,
                       "at_from": "token" if new_at else None, "idt_from": "token" if new_idt else None,
                       "session": sess2, "views": v2, "now_op": n_op, "now_rp": n_rp,
                       "rp_holds_new_token": st2.get("access_token") == new_at,
                       "asked_scope": scope_list(rd.get("asked_scope")),
                       "request_scope": scope_list(rd.get("request_scope")),
                       "introspection_active": (ir2 or {}).get("active"),
                       "access_token_shape": k4, "userinfo_error": rd.get("userinfo_error"),
                       "refresh_token_shape": jose_shape(tr.get("refresh_token"))[0] if tr.get("refresh_token") else None})
    rec["refresh_rounds"] = rounds
    rec["expiry"] = expiry_views(rec, obs)
    return rec


# ---- every statement about the EXPIRY of the tokens of one flow, read where each half keeps / shows it
def _iat_exp(d):
    if not isinstance(d, dict) or d.get("exp") is None:
        return None
    return [d.get("iat"), d.get("exp")]


def _session_times(tokens, cls, value):
    t = next((t for t in tokens or [] if t["class"] == cls and t["value"] == value), None) if value else None
    return [t["issued_at"], t["expires_at"]] if t else None


def _jwt_times(tok):
    k, _, p = jose_shape(tok)
    return _iat_exp(p) if k == "jws" else None


def expiry_views(rec, obs):
    """one entry per minting event of the flow (the flow itself, then every refresh round): the provider's and the
    relying party's clocks, and what each view says about the access token and the refresh token minted then:
    expires_in of the response, the relying party's __expires_at, (issued_at, expires_at) of the provider's session
    record, (iat, exp) INSIDE a JWT-formatted token, (iat, exp) reported by introspection"""
    out = []
    at = (obs.get("finalize") or {}).get("token")
    if not at:
        return out
    from_token = rec["at_from"] == "token"
    tr = (obs.get("token_response") or {}) if from_token else obs["delivered"]
    rft = (obs.get("token_response") or {}).get("refresh_token") if from_token else None
    toks = obs.get("op_tokens") or []
    out.append({"tag": "", "now_op": rec["now_op"], "now_rp": rec["now_rp"], "has_rf": bool(rft),
                "rf_asked": obs.get("introspection_refresh") is not None,
                "response": int(tr["expires_in"]) if tr.get("expires_in") is not None else None,
                "rp": obs["rp_state"].get("__expires_at"),
                "session": _session_times(toks, "access_token", at), "jwt": _jwt_times(at),
                "introspection": _iat_exp(obs.get("introspection")),
                "rf_session": _session_times(toks, "refresh_token", rft), "rf_jwt": _jwt_times(rft) if rft else None,
                "rf_introspection": _iat_exp(obs.get("introspection_refresh"))})
    for rd in obs.get("refresh_rounds") or []:
        tr2 = rd.get("token_response") or {}
        at2, rf2 = tr2.get("access_token"), tr2.get("refresh_token")
        tt = rd.get("token_times") or []
        if not at2 or not tt:
            continue
        toks2 = rd.get("op_tokens") or []
        out.append({"tag": ":refresh%d" % rd["round"], "now_op": tt[0][0], "now_rp": tt[0][1], "has_rf": bool(rf2),
                    "rf_asked": False,
                    "response": int(tr2["expires_in"]) if tr2.get("expires_in") is not None else None,
                    "rp": rd["rp_state"].get("__expires_at"),
                    "session": _session_times(toks2, "access_token", at2), "jwt": _jwt_times(at2),
                    "introspection": _iat_exp(rd.get("introspection")),
                    "rf_session": _session_times(toks2, "refresh_token", rf2), "rf_jwt": _jwt_times(rf2) if rf2 else None,
                    "rf_introspection": None})
    return out


# lifetimes of the provider every ordinary flow runs on (rp_op_c12.AUTHZ over the srv.op_conf handler defaults)
def default_life_cfg():
    import rp_op_c12 as B
    ur = B.AUTHZ["kwargs"]["grant_config"]["usage_rules"]
    return {"handler": {"at": 3600, "rf": 86400},
            "provider": {"at": ur["access_token"].get("expires_in"), "rf": ur["refresh_token"].get("expires_in")},
            "client": {"at": None, "rf": None}, "client_id": B.CLIENT_ID}


def instance_authz(rules):
    """the provider's authz configuration with provider-wide usage rules.  Access tokens: the rule states a lifetime
    (rules["at"] = seconds) or is empty (None: the token handler's lifetime applies).  Refresh tokens: the rule says
    what a refresh token may mint (as rp_op_c12.AUTHZ: access token, refresh token, ID Token) and always states a
    lifetime (rules["rf"]) - see ASSUMPTIONS for rules that are not empty and state none."""
    return {"class": "idpyoidc.server.authz.AuthzHandling", "kwargs": {"grant_config": {"usage_rules": {
        "authorization_code": {"supports_minting": ["access_token", "refresh_token", "id_token"], "max_usage": 1,
                               "expires_in": 300},
        "access_token": {} if rules.get("at") is None else {"expires_in": rules["at"]},
        "refresh_token": {"supports_minting": ["access_token", "refresh_token", "id_token"], "expires_in": rules["rf"]}},
        "expires_in": 43200}}}


def client_usage_rules(rules):
    out = {}
    if rules.get("at") is not None:
        out["access_token"] = {"expires_in": rules["at"]}
    if rules.get("rf") is not None:
        out["refresh_token"] = {"expires_in": rules["rf"]}
    return out or None


def run_instance_job(job):
    """ONE provider instance, several clients registered with it (each with its own relying party and, perhaps, its
    own token_usage_rules), and a SEQUENCE of complete flows of these clients driven one after the other on that
    instance.  Returns one record per flow (the records of ordinary flows, plus the instance and the position)."""
    import logging
    import warnings
    logging.disable(logging.CRITICAL)
    warnings.simplefilter("ignore")
    import rp_op_c12 as B
    import srv
    inst = job["instance"]
    clock = srv.Clock(NOW).install()
    recs = []
    try:
        pairs, first = [], None
        try:
            for cl in inst["clients"]:
                pr = B.Pair(cl["cell"], clock=clock, client_id=cl["id"], share=first,
                            token_usage_rules=client_usage_rules(cl["rules"]), authz=instance_authz(inst["provider"]),
                            lifetimes={"token": inst["handler"]["at"], "refresh": inst["handler"]["rf"]})
                first = first or pr
                pairs.append(pr)
        except Exception as e:
            return [{"cell": inst["clients"][0]["cell"], "scope": [], "claims": None, "user": "", "latency": 0,
                     "kind": job.get("kind", ""), "instance": inst, "position": 0,
                     "outcome": {"where": "harness", "stage": "harness", "detail": "%s: %s" % (type(e).__name__, str(e)[:400])}}]
        started = set()
        for pos, fl in enumerate(inst["sequence"]):
            cl = inst["clients"][fl["client"]]
            pair = pairs[fl["client"]]
            pair.latency = fl.get("latency", 0)
            clock.tick(fl.get("gap", 0))
            fjob = {"cell": cl["cell"], "scope": fl["scope"], "claims": fl.get("claims"), "user": fl["user"],
                    "latency": fl.get("latency", 0), "kind": job.get("kind", ""), "t_start": clock.now}
            rec = {"cell": cl["cell"], "scope": fl["scope"], "claims": fl.get("claims"), "user": fl["user"],
                   "latency": fl.get("latency", 0), "kind": job.get("kind", ""), "allowed": None, "refresh_scopes": None,
                   "instance": inst, "position": pos, "t_start": clock.now,
                   "life_cfg": {"handler": inst["handler"], "provider": inst["provider"], "client": cl["rules"],
                                "client_id": cl["id"]}}
            t0 = time.time()
            try:
                obs = B.run_flow(pair, fl["scope"], claims=fl.get("claims"), user=fl["user"],
                                 setup=fl["client"] not in started, introspect_refresh=True)
                started.add(fl["client"])
                fill_record(rec, fjob, pair, obs)
            except B.FlowFailure as f:
                started.add(fl["client"])
                rec["outcome"] = {"where": f.where, "stage": f.stage, "detail": f.detail[:500]}
            except Exception as e:
                rec["outcome"] = {"where": "harness", "stage": "harness", "detail": "%s: %s" % (type(e).__name__, str(e)[:400])}
            rec["wall"] = round(time.time() - t0, 3)
            recs.append(rec)
        return recs
    finally:
        clock.uninstall()
        B.clean_requests_dir()


def run_job(job):
    """job: {cell, scope, claims, user, latency}.  Returns a compact JSON-able record (an instance job: a list of
    records, one per flow of its sequence)."""
    if "instance" in job:
        return run_instance_job(job)
    import logging
    import warnings
    logging.disable(logging.CRITICAL)
    warnings.simplefilter("ignore")
    import rp_op_c12 as B
    import srv
    cell = job["cell"]
    clock = srv.Clock(NOW).install()
    rec = {"cell": cell, "scope": job["scope"], "claims": job["claims"], "user": job["user"],
           "latency": job["latency"], "kind": job.get("kind", ""), "allowed": job.get("allowed"),
           "refresh_scopes": job.get("refresh_scopes")}
    t0 = time.time()
    try:
        try:
            pair = B.Pair(cell, clock=clock, latency=job["latency"], allowed_scopes=job.get("allowed"))
            obs = B.run_flow(pair, job["scope"], claims=job["claims"], user=job["user"],
                             refresh_scopes=job.get("refresh_scopes"))
        except B.FlowFailure as f:
            rec["outcome"] = {"where": f.where, "stage": f.stage, "detail": f.detail[:500]}
            return rec
        except Exception as e:    # the harness itself
            rec["outcome"] = {"where": "harness", "stage": "harness", "detail": "%s: %s" % (type(e).__name__, str(e)[:400])}
            return rec
        fill_record(rec, job, pair, obs)
        return rec
    finally:
        rec["wall"] = round(time.time() - t0, 3)
        clock.uninstall()
        B.clean_requests_dir()


# ------------------------------------------------------------------ Coq terms
def s_opt(x):
    return coq_opt(x, coq_str, "pystr")


def pair_opt(x):
    if x is None:
        return "(@None (pystr * pystr))"
    return "(Some (%s, %s))" % (coq_str(x[0]), coq_str(x[1]))


TR = {"plain": "TPlain", "request": "TRequest", "request_uri": "TRequestUri", "par": "TPar"}
PLACE = {"rp_init": "RpInit", "par": "Par", "authz_parse": "AuthzParse", "authz_process": "AuthzProcess",
         "rp_finalize": "RpFinalize", "token": "TokenEp", "userinfo": "UserinfoEp"}
SRC = {None: "SrcNone", "authz": "SrcAuthz", "token": "SrcToken"}


def coq_cfg(c):
    return "(mkCfg %s %s %s %s %s %s %s %s %s %s %s)" % (
        coq_str(c["rt"]), s_opt(c["rm"]), coq_str(c["auth"]), coq_bool(c["at_jwt"]), coq_bool(c["rf_jwt"]),
        coq_str(c["idt_sig"]), pair_opt(c["idt_enc"]), s_opt(c["ui_sig"]), pair_opt(c["ui_enc"]),
        TR[c["transport"]], s_opt(c["pkce"]))


def coq_inp(c, scope, claims):
    return "(mkInp %s %s %s %s %s)" % (coq_bool("offline_access" in scope), coq_n(c["secret_len"]),
                                       coq_bool(c["rp_all_rts"]), coq_bool(c.get("op_explicit", True)),
                                       coq_bool(claims is not None))


def coq_view(v):
    def zo(x):
        return coq_opt(x, coq_z, "Z")

    def so(x):
        return coq_opt(x, lambda l: coq_list([coq_str(y) for y in l], "pystr"), "(list pystr)")
    return "(mkView %s %s %s %s %s %s)" % (s_opt(v.get("client")), s_opt(v.get("sub")), so(v.get("scope")),
                                           s_opt(v.get("nonce")), zo(v.get("at_exp")), zo(v.get("idt_exp")))


def coq_session(s):
    return "(mkSession %s %s %s %s %s %s)" % (
        coq_str(s["client"]), coq_str(s["sub"]), coq_list([coq_str(x) for x in s["scope"]], "pystr"),
        s_opt(s["nonce"]), coq_z(s["at_exp"] if s["at_exp"] is not None else 0),
        coq_z(s["idt_exp"] if s["idt_exp"] is not None else 0))


def coq_views_case(rec):
    s = rec["session"]
    vs = rec["views"]
    sess = coq_session(s)

    def vo(name):
        return "(Some %s)" % coq_view(vs[name]) if name in vs else "(@None view)"
    ops = {"client": s["client"], "sub": s["sub"], "scope": s["scope"], "nonce": s["nonce"],
           "at_exp": s["at_exp"], "idt_exp": s["idt_exp_recorded"]}
    return "(mkViewsCase %s %s %s %s %s %s %s %s %s %s %s %s %s)" % (
        SRC[rec["at_from"]], SRC[rec["idt_from"]], coq_bool(rec["cell"]["at_jwt"]), sess, coq_z(rec["now_op"]),
        coq_z(rec["now_rp"]), coq_view(ops), vo("token_response"), vo("introspection"), vo("userinfo"), vo("id_token"),
        coq_view(vs["rp"]), vo("jwt_access_token"))


def coq_scopes(l):
    return coq_list([coq_str(x) for x in l], "pystr")


def coq_scopes_opt(l):
    return coq_opt(l, coq_scopes, "(list pystr)")


def token_level(rec):
    """the same record with the scope of the ACCESS TOKEN's own entry in the provider's session database in the place
    of the grant's scope (they are the same list unless a refresh was made for another scope)"""
    s = rec["session"]
    return dict(rec, session=dict(s, scope=s["at_scope"] if s.get("at_scope") is not None else s["scope"]))


def coq_grant_case(rec):
    """(allowed_scopes of the client record, requested scope, scope statements outside the views, the views)"""
    al = allowed_for_client(rec)
    extra = [v for v in ((rec["views"].get("delivered") or {}).get("scope"), rec["session"].get("at_scope")) if v is not None]
    return "(%s, %s, %s, %s)" % (coq_scopes_opt(sorted(al) if al is not None else None), coq_scopes(sorted(set(rec["scope"]))),
                                 coq_list([coq_scopes(v) for v in extra], "(list pystr)"), coq_views_case(rec))


def views_case_ok(rec):
    s = rec.get("session") or {}
    has_idt = rec.get("idt_from") is not None
    return (all(isinstance(s.get(k), str) for k in ("client", "sub")) and isinstance(s.get("scope"), list)
            and rec.get("at_from") in SRC and rec.get("idt_from") in SRC
            and (not has_idt or (isinstance(s.get("idt_exp"), int) and isinstance(s.get("idt_exp_recorded"), int)))
            and (not rec["has_token"] or isinstance(s.get("at_exp"), int)))


def coq_zz_opt(x):
    if x is None or x[0] is None or x[1] is None:
        return "(@None (Z * Z))"
    return "(Some (%s, %s))" % (coq_z(x[0]), coq_z(x[1]))


def coq_life_event(rec, ev):
    cfg = rec.get("life_cfg") or default_life_cfg()
    c = rec["cell"]

    def zo(x):
        return coq_opt(x, coq_z, "Z")
    e = "(mkEvent (mkClientLife %s %s %s) %s %s %s %s %s %s)" % (
        coq_str(cfg["client_id"]), zo(cfg["client"].get("at")), zo(cfg["client"].get("rf")), coq_z(ev["now_op"]),
        coq_z(ev["now_rp"]), coq_bool(c["at_jwt"]), coq_bool(c["rf_jwt"]), coq_bool(ev["has_rf"]), coq_bool(ev["rf_asked"]))
    v = "(mkLviews %s %s %s %s %s %s %s %s)" % (
        zo(ev["response"]), zo(ev["rp"]), coq_zz_opt(ev["session"]), coq_zz_opt(ev["jwt"]), coq_zz_opt(ev["introspection"]),
        coq_zz_opt(ev["rf_session"]), coq_zz_opt(ev["rf_jwt"]), coq_zz_opt(ev["rf_introspection"]))
    return "(%s, %s)" % (e, v)


def coq_life_case(recs):
    """the flows driven, in order, on ONE provider instance (an ordinary flow: the only one on its instance)"""
    cfg = recs[0].get("life_cfg") or default_life_cfg()

    def zo(x):
        return coq_opt(x, coq_z, "Z")
    p = "(mkProvLife %s %s %s %s)" % (coq_z(cfg["handler"]["at"]), coq_z(cfg["handler"]["rf"]),
                                      zo(cfg["provider"].get("at")), zo(cfg["provider"].get("rf")))
    evs = [coq_life_event(r, ev) for r in recs for ev in (r.get("expiry") or [])]
    return "(%s, %s)" % (p, coq_list(evs, "(event * lviews)"))


# ------------------------------------------------------------------ the oracle (property text; no model)
def spec_mode_allowed(rt, rm):
    """OAuth 2.0 Multiple Response Type Encoding Practices: query must not be used when a token or ID Token is
    returned from the authorization endpoint; fragment and form_post may always be requested."""
    if rm == "query":
        return rt == "code"
    return True


# Known findings of the current tree (known_findings.txt).  A key is used ONLY when the cell belongs to the class
# the finding describes (a condition on the cell and the inputs, written from the finding text) AND the flow
# stopped at the place and with the diagnostic of that finding; every other non-completing cell gets a
# `fail:<place>` key, which no entry of known_findings.txt matches.
JWT_METHODS = ("client_secret_jwt", "private_key_jwt")
BYREF = ("request_uri", "par")


def finding_key(rec, T):
    c, out = rec["cell"], rec["outcome"]
    where, detail = out["where"], out["detail"]
    rts = c["rt"].split(" ")
    hs = lambda a: a is not None and T["sig_fam"].get(a) == "HS"      # noqa: E731
    cands = [
        ("hs-sign:id_token", hs(c["idt_sig"]), ("authz_process", "token"), ("Could not sign/encrypt id_token",)),
        ("hs-sign:userinfo", hs(c["ui_sig"]), ("userinfo",), ("NoSuitableSigningKeys",)),
        ("kw-secret-length", bool(c["ui_enc"]) and T["enc_fam"].get(c["ui_enc"][0]) == "KW" and c["secret_len"] not in (16, 24, 32),
         ("userinfo",), ("wrapping key must be a valid AES key length",)),
        ("kw-secret-length", bool(c["idt_enc"]) and T["enc_fam"].get(c["idt_enc"][0]) == "KW" and c["secret_len"] not in (16, 24, 32)
         and expects(c["rt"])[1], ("authz_process", "token"),
         ("wrapping key must be a valid AES key length", "KeyError: 'response_mode'", "server_error")),
        ("byref-nonce-missing", c["transport"] in BYREF and "id_token" in rts, ("authz_parse",), ("Nonce missing",)),
        ("byref-consent-missing", c["transport"] in BYREF and "offline_access" in rec["scope"], ("authz_parse",), ("consent in prompt",)),
        ("par-jwt-audience", c["transport"] == "par" and c["auth"] in JWT_METHODS, ("par",), ("Not for me",)),
        ("par-claims-not-parsed", c["transport"] == "par" and rec["claims"] is not None, ("authz_process",),
         ("'str' object has no attribute 'get'", "KeyError: 'response_mode'")),
        # the provider never encrypts ID Tokens; since 821e9f5 the RP insists on the encryption it registered
        ("idt-enc-not-applied", bool(c["idt_enc"]) and expects(c["rt"])[1], ("rp_finalize",),
         ('Expected "alg" to be "%s"' % (c["idt_enc"][0] if c["idt_enc"] else ""),)),
        ("mode-refused-by-provider", c["rt"] == "code" and c["rm"] == "fragment", ("authz_process",), ("wrong response_mode",)),
        ("mode-refused-by-rp", c["rt"] == "code" and c["rm"] == "fragment", ("rp_init",), ("Could not pick a redirect_uri",)),
    ]
    for key, in_class, places, needles in cands:
        if in_class and where in places and any(n in detail for n in needles):
            return key
    if 'wrong type of value for "redirect_uri"' in detail:
        return "redirect-uri-not-a-string"          # the repaired pick_redirect_uri defect (37f56f5)
    return "fail:%s" % where


def expects(rt):
    """(access token expected, ID Token expected, code redeemed at the token endpoint) for a response type, as THIS
    relying party uses it: it redeems the code only when the authorization response brings no access token"""
    w = rt.split(" ")
    redeems = "code" in w and "token" not in w
    return ("token" in w or redeems, "id_token" in w or redeems, redeems)


def expected_default_delivery(rt):
    return "query" if rt == "code" else "fragment"


def compare_views(ctx, rec, tag):
    """every pair of views of one (possibly refreshed) token set agrees on every field both of them state;
    tag = "" for the flow itself, ":refreshN" for the state after the N-th refresh"""
    c = rec["cell"]
    cellname = {k: v for k, v in c.items()}
    vs = dict(rec["views"])
    s = rec["session"]
    vs["op_session"] = {"client": s["client"], "sub": s["sub"], "scope": s["scope"], "nonce": s["nonce"],
                        "at_exp": s["at_exp"], "idt_exp": s["idt_exp_recorded"]}
    if s.get("at_scope") is not None:
        vs["op_access_token"] = {"scope": s["at_scope"]}
    if rec.get("token_scope_differs_from_grant"):
        # a refresh for a scope other than the grant's (only in flows whose refresh requests restate the scope): the
        # grant keeps the scope of the authorization (checked by refresh_oracle); the provider's record of THIS
        # token set is the access token's own record (op_access_token)
        vs["op_session"] = dict(vs["op_session"], scope=None)
    skew = (rec["now_rp"] - rec["now_op"]) if rec.get("now_op") is not None else 0
    names = sorted(vs)
    for f in ("client", "sub", "scope", "nonce", "at_exp", "idt_exp"):
        for i, a in enumerate(names):
            for b in names[i + 1:]:
                x, y = vs[a].get(f), vs[b].get(f)
                if x is None or y is None:
                    continue
                if f == "at_exp":      # the RP computes its expiry from its own clock: exact up to the latency
                    if a == "rp":
                        x = x - skew
                    if b == "rp":
                        y = y - skew
                if x != y:
                    sig = "views:%s%s" % (f, tag)
                    if (f == "idt_exp" and "op_session" in (a, b) and vs["op_session"].get("idt_exp") == 0
                            and rec.get("idt_from") == "authz"):     # ID Token minted at the authorization endpoint
                        sig = "idt-exp-unrecorded"     # the session database holds expires_at = 0 for this ID Token
                    ctx.violation(sig, "%s differs between views%s: %s has %r, %s has %r (cell %s, scope %s)" % (
                        f, tag, a, vs[a].get(f), b, vs[b].get(f), json.dumps(cellname, default=str), rec["scope"]), rec)


def allowed_for_client(rec):
    """what the operator allows the client of this flow (None: the client record carries no allowed_scopes)"""
    al = rec.get("allowed")
    if al == "unset":
        return None
    return list(PROVIDER_SCOPES) if al is None else list(al)


def expected_granted(rec):
    """the granted scope, from the property text and the configuration alone: requested & what the provider
    advertises & what the operator allows the client"""
    adv = rec.get("advertised_scopes")
    adv = set(PROVIDER_SCOPES) if adv is None else set(adv)
    al = allowed_for_client(rec)
    return sorted(x for x in set(rec["scope"]) if x in adv and (al is None or x in al))


def scope_statements(rec):
    """every statement about the scope of one token set the driver could read: (where, sorted list)"""
    out = []
    s = rec["session"]
    if not rec.get("token_scope_differs_from_grant"):
        out.append(("op_session", s.get("scope")))
    out.append(("op_access_token", s.get("at_scope")))
    for n in ("delivered", "token_response", "rp", "introspection", "jwt_access_token"):
        out.append((n, (rec["views"].get(n) or {}).get("scope")))
    return [(n, v) for n, v in out if v is not None]


def scope_oracle(ctx, rec):
    """requested vs granted: the provider received the scope the relying party was asked to request; every scope
    statement of the flow is exactly the independently computed granted scope (hence within the requested one)"""
    c = rec["cell"]
    want = expected_granted(rec)
    adv = rec.get("advertised_scopes")
    if adv is None or sorted(adv) != sorted(PROVIDER_SCOPES):
        ctx.violation("scopes-advertised", "the provider advertises scopes_supported=%r, configured %r" % (adv, PROVIDER_SCOPES), rec)
    for who in ("rp_requested", "op_requested"):
        if rec.get(who) is not None and rec[who] != sorted(rec["scope"]):
            ctx.violation("scope-request-altered", "requested scope %r, %s has %r" % (sorted(rec["scope"]), who, rec[who]), rec)
    for n, v in scope_statements(rec):
        if v != want:
            ctx.violation("views:scope-granted", "%s states scope %r; requested %r, allowed for the client %r, advertised %r: "
                          "granted is %r (cell %s)" % (n, v, sorted(rec["scope"]), allowed_for_client(rec), adv, want,
                                                      json.dumps(c, default=str)), rec)
    if rec["has_token"]:
        for n in ("token_response", "introspection") + (("jwt_access_token",) if c["at_jwt"] else ()):
            if (rec["views"].get(n) or {}).get("scope") is None:
                ctx.violation("scope-view-missing", "%s states no scope" % n, rec)
    ctx.count("scope:granted-%s-requested" % ("equals" if want == sorted(set(rec["scope"])) else "less-than"))


def refresh_scope_oracle(ctx, rec):
    """refresh rounds: the refresh request states the scope the caller asked for, else the scope the relying party has
    on record; the scope of the round is the stated one (within the granted scope), and every scope statement about
    the refreshed tokens is exactly it; the grant keeps the granted scope.  Marks rounds whose scope is not the grant's."""
    granted = expected_granted(rec)
    on_record = (rec["views"].get("rp") or {}).get("scope")
    for rr in rec.get("refresh_rounds") or []:
        tag = ":refresh%d" % rr["round"]
        stated, asked = rr.get("request_scope"), rr.get("asked_scope")
        if asked is not None and stated != asked:
            ctx.violation("refresh-request-scope" + tag, "the caller asked for scope %r, the refresh request states %r" % (asked, stated), rec)
        if asked is None and stated is not None and stated != on_record:
            ctx.violation("refresh-request-scope" + tag, "nothing asked: the refresh request states scope %r, the relying party "
                          "had %r on record" % (stated, on_record), rec)
        want = stated if stated is not None else granted
        if not set(want) <= set(granted):
            ctx.violation("scope-escalation" + tag, "refresh for scope %r completed, granted was %r" % (want, granted), rec)
        rr["token_scope_differs_from_grant"] = bool(rec.get("refresh_scopes")) and want != granted
        if not rr["has_token"]:
            continue
        if rr["session"].get("scope") != granted:
            ctx.violation("views:scope-granted" + tag, "the grant holds scope %r after the refresh, granted was %r" % (
                rr["session"].get("scope"), granted), rec)
        for n, v in scope_statements(dict(rr, token_scope_differs_from_grant=True)):
            if v != want:
                ctx.violation("views:scope-granted" + tag, "%s states scope %r after a refresh for %r (granted %r, requested %r)" % (
                    n, v, want, granted, sorted(rec["scope"])), rec)
        ctx.count("scope:refresh-%s" % ("granted" if want == granted else "narrowed"))
        on_record = (rr["views"].get("rp") or {}).get("scope")


def refresh_oracle(ctx, rec):
    """after every refresh: the refreshed access token is the one the RP holds, it is active, of the configured format,
    its views agree, and client / subject / scope / nonce are still those of the original grant"""
    c = rec["cell"]
    s0 = rec["session"]
    refresh_scope_oracle(ctx, rec)
    # (offline_access GRANTED: for every flow that is granted all it asks for this is `"offline_access" in rec["scope"]`)
    if "offline_access" in expected_granted(rec) and expects(c["rt"])[2] and len(rec.get("refresh_rounds") or []) < 2:
        ctx.violation("refresh-rounds", "offline_access granted through the token endpoint but only %d refresh round(s) "
                      "could be made" % len(rec.get("refresh_rounds") or []), rec)
    for rr in rec.get("refresh_rounds") or []:
        tag = ":refresh%d" % rr["round"]
        if not rr["has_token"]:
            ctx.violation("refresh-failed", "refresh %d produced no access token" % rr["round"], rec)
            continue
        if not rr["rp_holds_new_token"]:
            ctx.violation("refresh-rp-state", "after refresh %d the RP does not hold the refreshed access token" % rr["round"], rec)
        if rr.get("introspection_active") is not True:
            ctx.violation("introspection-inactive" + tag, "the refreshed access token is not reported active", rec)
        if rr.get("userinfo_error"):
            ctx.violation("userinfo" + tag, "userinfo with the refreshed access token fails: %s" % rr["userinfo_error"], rec)
        if (rr["access_token_shape"] == "jws") != bool(c["at_jwt"]):
            ctx.violation("access-token-format" + tag, "refreshed access token is %s" % rr["access_token_shape"], rec)
        if rr.get("refresh_token_shape") is not None and (rr["refresh_token_shape"] == "jws") != bool(c["rf_jwt"]):
            ctx.violation("refresh-token-format" + tag, "refreshed refresh token is %s" % rr["refresh_token_shape"], rec)
        for f in ("client", "sub", "scope", "nonce"):
            if rr["session"].get(f) != s0.get(f):
                ctx.violation("views:%s%s" % (f, tag), "%s of the session changed with the refresh: %r -> %r" % (
                    f, s0.get(f), rr["session"].get(f)), rec)
        for n in ("token_response", "rp", "introspection", "userinfo") + (("jwt_access_token",) if c["at_jwt"] else ()):
            if n not in rr["views"]:
                ctx.violation("view-missing" + tag, "no %s view after refresh %d" % (n, rr["round"]), rec)
        for n, fs in (("token_response", ("scope", "at_exp")), ("rp", ("client", "sub", "scope", "at_exp")),
                      ("introspection", ("client", "sub", "scope", "at_exp"))):
            for f in fs:
                if rr["views"].get(n, {}).get(f) is None:
                    ctx.violation("view-field-missing" + tag, "%s view has no %s after refresh %d" % (n, f, rr["round"]), rec)
        if rr["session"].get("at_exp") is not None:
            compare_views(ctx, dict(rr, cell=c, scope=rec["scope"]), tag)


def expected_lifetime(cfg, cls):
    """the lifetime the CONFIGURATION gives this client's tokens of a class: the client's own usage rule, else the
    provider-wide usage rule, else the lifetime of the token handler"""
    for src in ("client", "provider", "handler"):
        v = (cfg.get(src) or {}).get(cls)
        if v is not None:
            return v
    return None


def lifetime_oracle(ctx, rec):
    """expiry, view by view (property text: the expiry seen by the relying party equals the one recorded in the
    provider's session, stated in the token response, CONTAINED IN THE JWT and reported by introspection): for the
    flow and for every refresh round, the lifetime each view states for the access token (and for the refresh token)
    is the same number, every view that states when the token was issued states the same instant, and the number is
    the one the configuration gives THIS client - whatever the provider instance did before for anybody else"""
    c = rec["cell"]
    cfg = rec.get("life_cfg") or default_life_cfg()
    pos = "" if rec.get("position") is None else " (flow %d of the sequence on this provider instance, client %s)" % (
        rec["position"] + 1, cfg.get("client_id"))
    for ev in rec.get("expiry") or []:
        tag = ev["tag"]

        def span(x):
            return None if x is None or x[0] is None or x[1] is None else x[1] - x[0]
        at = {"token_response": ev["response"], "rp": (ev["rp"] - ev["now_rp"]) if ev["rp"] is not None else None,
              "op_session": span(ev["session"]), "jwt_access_token": span(ev["jwt"]),
              "introspection": span(ev["introspection"])}
        rf = {"op_session": span(ev["rf_session"]), "jwt_refresh_token": span(ev["rf_jwt"]),
              "introspection": span(ev["rf_introspection"])}
        need = ["token_response", "rp", "op_session", "introspection"] + (["jwt_access_token"] if c["at_jwt"] else [])
        for n in need:
            if at[n] is None:
                ctx.violation("expiry-view-missing" + tag, "%s states no expiry of the access token%s" % (n, pos), rec)
        if ev["has_rf"]:
            for n in ["op_session"] + (["jwt_refresh_token"] if c["rf_jwt"] else []) + (["introspection"] if ev["rf_asked"] else []):
                if rf[n] is None:
                    ctx.violation("expiry-view-missing" + tag, "%s states no expiry of the refresh token%s" % (n, pos), rec)
        for what, views, cls, key in (("access token", at, "at", "views:lifetime"), ("refresh token", rf, "rf", "views:refresh-lifetime")):
            names = sorted(n for n in views if views[n] is not None)
            for i, a in enumerate(names):
                for b in names[i + 1:]:
                    if views[a] != views[b]:
                        ctx.violation(key + tag, "lifetime of the %s%s: %s says %r s, %s says %r s%s; configuration %s" % (
                            what, tag, a, views[a], b, views[b], pos, json.dumps(cfg, default=str)), rec)
            want = expected_lifetime(cfg, cls)
            for n in names:
                if want is not None and views[n] != want:
                    ctx.violation("lifetime-config" + tag, "lifetime of the %s%s: %s says %r s, the configuration gives this "
                                  "client %r s%s; configuration %s" % (what, tag, n, views[n], want, pos,
                                                                      json.dumps(cfg, default=str)), rec)
        starts = {n: v[0] for n, v in (("op_session", ev["session"]), ("jwt_access_token", ev["jwt"]),
                                       ("introspection", ev["introspection"]), ("op_session:refresh_token", ev["rf_session"]),
                                       ("jwt_refresh_token", ev["rf_jwt"]), ("introspection:refresh_token", ev["rf_introspection"]))
                  if v is not None and v[0] is not None}
        for n, v in sorted(starts.items()):
            if v != ev["now_op"]:
                ctx.violation("views:issued-at" + tag, "%s says the token was issued at %r, the provider's clock was %r%s" % (
                    n, v, ev["now_op"], pos), rec)
        ctx.count("expiry-events")


def oracle(ctx, rec, T):
    c = rec["cell"]
    out = rec["outcome"]
    cellname = {k: v for k, v in c.items()}
    advertised = c.get("op_explicit", True) or c["rt"] == "code"      # both halves advertise the response type
    supported = advertised and spec_mode_allowed(c["rt"], c["rm"])
    if out["where"] == "harness":
        ctx.broken.append("harness failure in a flow: %s %s" % (out["detail"], json.dumps(cellname, default=str)[:300]))
        return
    if out["where"] != "ok":
        if not supported:
            ctx.count("refused:unsupported-combination")
            return
        sig = finding_key(rec, T)
        ctx.violation(sig, "flow does not complete (stops at %s: %s) for a combination both halves advertise: %s "
                           "scope=%s" % (out["where"], out["detail"][:160], json.dumps(cellname, default=str), rec["scope"]), rec)
        return
    if not spec_mode_allowed(c["rt"], c["rm"]):
        ctx.violation("forbidden-mode-completed", "response_mode=%s completed for response_type=%s" % (c["rm"], c["rt"]), rec)
    # ---- artefacts honour the configuration
    want_mode = c["rm"] or expected_default_delivery(c["rt"])
    if rec["delivery"] != want_mode:
        ctx.violation("delivery-mode", "authorization response delivered by %s, expected %s (%s / %s)" % (
            rec["delivery"], want_mode, c["rt"], c["rm"]), rec)
    cbs = rec.get("rp_callbacks") or {}
    all_cb = [u for us in cbs.values() for u in us]
    if not isinstance(rec["rp_redirect_uri"], str):
        ctx.violation("redirect-uri-not-a-string", "the RP's redirect_uri is %r (pick_redirect_uri must return one URI)"
                      % (rec["rp_redirect_uri"],), rec)
    elif rec["rp_redirect_uri"] not in all_cb or rec["delivered_to"] != rec["rp_redirect_uri"]:
        ctx.violation("redirect-uri-mismatch", "response delivered to %r, the RP asked for %r, its callbacks are %r" % (
            rec["delivered_to"], rec["rp_redirect_uri"], cbs), rec)
    elif want_mode in cbs and rec["rp_redirect_uri"] not in cbs[want_mode]:
        ctx.violation("redirect-uri-wrong-slot", "mode %s but the redirect_uri %r is not the RP's %s callback %r" % (
            want_mode, rec["rp_redirect_uri"], want_mode, cbs[want_mode]), rec)
    use = rec.get("rp_use") or {}
    want_at, want_idt, redeems = expects(c["rt"])
    if want_at != rec["has_token"] or want_idt != (rec.get("idt_from") is not None):
        ctx.violation("artefacts", "response_type %s: access token %s, ID Token %s at the relying party (expected %s / %s)" % (
            c["rt"], rec.get("at_from"), rec.get("idt_from"), want_at, want_idt), rec)
    # an ID Token that arrives with a code carries c_hash, with an access token at_hash (OIDC core 3.3.2.11)
    fi = rec.get("front_id_token")
    if fi is not None and fi["shape"] == "jws":
        for art, h in (("code", "c_hash"), ("access_token", "at_hash")):
            if art in fi["with"] and h not in fi["hashes"]:
                ctx.violation("idt-hash-missing", "response_type %s: the ID Token in the authorization response arrives with "
                              "%s but carries no %s" % (c["rt"], art, h), rec)
    # ID Token: signed with the algorithm the RP registered; encrypted when the RP registered encryption
    reg_alg = use.get("id_token_signed_response_alg")
    if rec.get("idt_from") is None:
        reg_alg_check = False
    else:
        reg_alg_check = True
    if reg_alg_check and reg_alg and rec["id_token_verified_alg"] != reg_alg:
        ctx.violation("idt-alg", "ID Token signed with %r, the RP registered %r" % (rec["id_token_verified_alg"], reg_alg), rec)
    if c["idt_sig"] in T["idt_sig"] and reg_alg != c["idt_sig"]:
        ctx.violation("idt-alg-negotiation", "the RP is configured with %r (advertised by the provider) but registered %r"
                      % (c["idt_sig"], reg_alg), rec)
    if use.get("id_token_encrypted_response_alg") and rec.get("idt_from") is not None:
        h = rec.get("id_token_outer_header") or {}
        if rec["id_token_shape"] != "jwe":
            ctx.violation("idt-enc-not-applied", "the RP registered id_token_encrypted_response_alg=%s/%s but the "
                          "provider returned a signed-only ID Token" % (use.get("id_token_encrypted_response_alg"),
                                                                        use.get("id_token_encrypted_response_enc")), rec)
        elif (h.get("alg"), h.get("enc")) != (use.get("id_token_encrypted_response_alg"), use.get("id_token_encrypted_response_enc")):
            ctx.violation("idt-enc-alg", "ID Token encrypted with %r/%r, registered %r/%r" % (
                h.get("alg"), h.get("enc"), use.get("id_token_encrypted_response_alg"), use.get("id_token_encrypted_response_enc")), rec)
    if rec["has_token"]:
        w = rec.get("userinfo_wire") or {}
        ualg, ue = use.get("userinfo_signed_response_alg"), use.get("userinfo_encrypted_response_alg")
        if ue:
            h = w.get("header") or {}
            if w.get("shape") != "jwe" or (h.get("alg"), h.get("enc")) != (ue, use.get("userinfo_encrypted_response_enc")):
                ctx.violation("userinfo-enc", "userinfo response is %s %r, registered encryption %r/%r" % (
                    w.get("shape"), h, ue, use.get("userinfo_encrypted_response_enc")), rec)
        elif ualg:
            h = w.get("header") or {}
            if w.get("shape") != "jws" or h.get("alg") != ualg:
                ctx.violation("userinfo-sig", "userinfo response is %s %r, registered signing alg %r" % (w.get("shape"), h, ualg), rec)
        elif w.get("content_type") != "application/json":
            ctx.violation("userinfo-plain", "userinfo response content type %r without registered signing/encryption" % (w.get("content_type"),), rec)
        if (rec["access_token_shape"] == "jws") != bool(c["at_jwt"]):
            ctx.violation("access-token-format", "access token is %s, provider configured for %s" % (
                rec["access_token_shape"], "JWT" if c["at_jwt"] else "opaque"), rec)
        if rec.get("refresh_token_shape") is not None and (rec["refresh_token_shape"] == "jws") != bool(c["rf_jwt"]):
            ctx.violation("refresh-token-format", "refresh token is %s, provider configured for %s" % (
                rec["refresh_token_shape"], "JWT" if c["rf_jwt"] else "opaque"), rec)
        if "offline_access" in expected_granted(rec) and redeems and rec.get("refresh_token_shape") is None:
            ctx.violation("no-refresh-token", "offline_access granted but no refresh token in the token response", rec)
        if rec.get("introspection_active") is not True:
            ctx.violation("introspection-inactive", "the access token just issued is not reported active", rec)
    # ---- views agree, pairwise, field by field
    compare_views(ctx, rec, "")
    lifetime_oracle(ctx, rec)
    scope_oracle(ctx, rec)
    s = rec["session"]
    # required views are present
    need = ["rp"] + (["id_token"] if want_idt else []) + (["token_response", "userinfo", "introspection"] if rec["has_token"] else [])
    if rec["has_token"] and c["at_jwt"]:
        need.append("jwt_access_token")
    for n in need:
        if n not in rec["views"]:
            ctx.violation("view-missing", "no %s view in a completed flow" % n, rec)
    for n, fs in ((("id_token", ("client", "sub", "nonce", "idt_exp")),) if want_idt else ()) + (
            ("rp", ("client", "sub", "scope", "nonce") + (("idt_exp",) if want_idt else ()) + (("at_exp",) if want_at else ())),):
        for f in fs:
            if rec["views"].get(n, {}).get(f) is None:
                ctx.violation("view-field-missing", "%s view has no %s" % (n, f), rec)
    if rec["views"]["rp"].get("nonce") != rec.get("rp_nonce_sent"):
        ctx.violation("views:nonce", "the RP's stored nonce changed during the flow", rec)
    if not rec.get("rp_sub_bound"):
        ctx.violation("rp-sub-not-bound", "the RP did not bind the subject to its state", rec)
    if s.get("user") != rec["user"]:
        ctx.violation("wrong-user", "session belongs to %r, authenticated user was %r" % (s.get("user"), rec["user"]), rec)
    gs = set(s["scope"] or [])
    if not gs <= set(rec["scope"]) | {"openid"}:
        ctx.violation("views:scope", "granted scope %r exceeds the requested %r" % (sorted(gs), rec["scope"]), rec)
    refresh_oracle(ctx, rec)


# ------------------------------------------------------------------ generators
def base_cell(**kw):
    c = {"rt": "code", "rm": None, "auth": "client_secret_basic", "at_jwt": False, "rf_jwt": False,
         "idt_sig": "RS256", "idt_enc": None, "ui_sig": None, "ui_enc": None, "transport": "plain", "pkce": None,
         "secret_len": 32, "rp_all_rts": False, "op_explicit": True}
    c.update(kw)
    return c


class Picker:
    """round-robin over the members of an algorithm family, shuffled by the seed: every member gets used"""

    def __init__(self, rng, values, fam):
        self.q = {}
        for v in values:
            self.q.setdefault(fam[v], []).append(v)
        for l in self.q.values():
            rng.shuffle(l)
        self.i = {k: 0 for k in self.q}

    def families(self):
        return sorted(self.q)

    def pick(self, f):
        l = self.q[f]
        v = l[self.i[f] % len(l)]
        self.i[f] += 1
        return v


def rr(rng, values):
    l = list(values)
    rng.shuffle(l)
    state = {"i": 0}

    def nxt():
        v = l[state["i"] % len(l)]
        state["i"] += 1
        return v
    return nxt


def pairwise_rows(rng, T, want_limit_free=True, max_rows=400):
    """greedy pairwise covering array over the class-level dimensions, restricted to limit-free cells"""
    sigf = sorted(set(T["sig_fam"][a] for a in T["idt_sig"]))
    uif = sorted(set(T["sig_fam"][a] for a in T["ui_sig"]))
    encf = sorted(set(T["enc_fam"][a] for a in T["ui_enc_alg"]))
    dims = {
        "rt": T["rt"], "rm": [None] + T["rm"], "auth": T["auth"], "at_jwt": [False, True], "rf_jwt": [False, True],
        "idt_fam": sigf, "idt_enc_fam": [None] + encf, "ui_fam": [None] + uif, "ui_enc_fam": [None] + encf,
        "transport": TRANSPORTS, "pkce": [False, True], "offline": [False, True], "secret_len": [32, 56],
        "rp_all_rts": [False, True], "claims": [False, True], "scope_kind": ["full", "unknown", "not_allowed"],
    }
    names = sorted(dims)

    def limit_free(r):
        c = base_cell(rt=r["rt"], rm=r["rm"], auth=r["auth"], transport=r["transport"], secret_len=r["secret_len"],
                      idt_sig={"HS": "HS256"}.get(r["idt_fam"], "RS256"),
                      idt_enc=None if r["idt_enc_fam"] is None else ({"KW": "A128KW"}.get(r["idt_enc_fam"], "RSA-OAEP"), "A128GCM"),
                      ui_sig=None if r["ui_fam"] is None else {"HS": "HS256"}.get(r["ui_fam"], "RS256"),
                      ui_enc=None if r["ui_enc_fam"] is None else ({"KW": "A128KW"}.get(r["ui_enc_fam"], "RSA-OAEP"), "A128GCM"))
        return not py_limits(c, r["offline"], T, r["claims"])

    def random_row(fixed):
        for _ in range(300):
            r = {d: (fixed[d] if d in fixed else rng.choice(dims[d])) for d in names}
            if limit_free(r):
                return r
        return None
    # feasible pairs
    pairs = set()
    for i, a in enumerate(names):
        for b in names[i + 1:]:
            for va in dims[a]:
                for vb in dims[b]:
                    pairs.add((a, repr(va), b, repr(vb)))
    feasible = set()
    rows = []

    def cover(r):
        s = set()
        for i, a in enumerate(names):
            for b in names[i + 1:]:
                s.add((a, repr(r[a]), b, repr(r[b])))
        return s
    vals = {d: {repr(v): v for v in dims[d]} for d in names}
    todo = sorted(pairs)
    rng.shuffle(todo)
    uncovered = set(todo)
    for p in todo:
        if p not in uncovered:
            continue
        a, va, b, vb = p
        best, bestc = None, -1
        for _ in range(12):
            r = random_row({a: vals[a][va], b: vals[b][vb]})
            if r is None:
                break
            cnum = len(cover(r) & uncovered)
            if cnum > bestc:
                best, bestc = r, cnum
        if best is None:
            uncovered.discard(p)      # no limit-free cell contains this pair: it belongs to the limit matrix
            continue
        rows.append(best)
        uncovered -= cover(best)
        if len(rows) >= max_rows:
            break
    return rows


def concretise(rng, rows, T):
    idt = Picker(rng, T["idt_sig"], T["sig_fam"])
    ui = Picker(rng, T["ui_sig"], T["sig_fam"])
    ie = Picker(rng, T["idt_enc_alg"], T["enc_fam"])
    ue = Picker(rng, T["ui_enc_alg"], T["enc_fam"])
    ienc, uenc, pk = rr(rng, T["idt_enc_enc"]), rr(rng, T["ui_enc_enc"]), rr(rng, T["pkce"])
    jobs = []
    for r in rows:
        c = base_cell(rt=r["rt"], rm=r["rm"], auth=r["auth"], at_jwt=r["at_jwt"], rf_jwt=r["rf_jwt"],
                      idt_sig=idt.pick(r["idt_fam"]),
                      idt_enc=None if r["idt_enc_fam"] is None else (ie.pick(r["idt_enc_fam"]), ienc()),
                      ui_sig=None if r["ui_fam"] is None else ui.pick(r["ui_fam"]),
                      ui_enc=None if r["ui_enc_fam"] is None else (ue.pick(r["ui_enc_fam"]), uenc()),
                      transport=r["transport"], pkce=pk() if r["pkce"] else None, secret_len=r["secret_len"],
                      rp_all_rts=r["rp_all_rts"])
        pat = rng.choice(REFRESH_PATTERNS) if (r["offline"] and expects(r["rt"])[2] and rng.random() < 0.5) else None
        jobs.append(make_job(rng, c, offline=r["offline"], kind="pairwise", claims=r["claims"], scope_kind=r["scope_kind"],
                             pattern=pat))
    return jobs


def make_job(rng, cell, offline=None, kind="", claims=None, scope_kind="full", pattern=None):
    extra = [s for s in SCOPES if s != "offline_access" and rng.random() < 0.4]
    if offline is None:
        offline = rng.random() < 0.3
    if claims is None:
        claims = rng.random() < 0.5 and cell["transport"] != "par"
    scope = ["openid"] + extra + (["offline_access"] if offline else [])
    job = {"cell": cell, "scope": scope, "claims": rng.choice(CLAIMS[1:]) if claims else None, "user": rng.choice(USERS),
           "latency": rng.choice([0, 0, 2, 7]), "kind": kind}
    if scope_kind != "full" or pattern is not None:
        vary_scope(rng, job, scope_kind, pattern)
    return job


def vary_scope(rng, job, scope_kind, pattern):
    """the requested-vs-granted dimension (generation only; the oracle recomputes the granted scope on its own).
    scope_kind: unknown - the request also names 1-2 values the provider does not know; not_allowed - the operator
    allows the client a strict subset of the provider's scopes and the request names 1-2 values outside it;
    both; unset - the client record has no allowed_scopes and the request names unknown values.
    pattern: what the two refresh rounds ask for (REFRESH_PATTERNS); applied when offline_access ends up granted."""
    named = [s for s in SCOPES if s != "offline_access"]
    scope = list(job["scope"])
    allowed = None
    if scope_kind in ("not_allowed", "both"):
        denied = rng.sample(named, rng.choice([1, 1, 2]))
        allowed = [s for s in PROVIDER_SCOPES if s not in denied]
        if "offline_access" in scope and pattern is None and rng.random() < 0.3:
            allowed.remove("offline_access")       # asked for, not allowed: no refresh token
        scope += [s for s in denied if s not in scope]
    if scope_kind in ("unknown", "both", "unset"):
        scope += rng.sample(UNKNOWN_SCOPES, rng.choice([1, 1, 2]))
    if scope_kind == "unset":
        allowed = "unset"
    if pattern is not None:
        # something to narrow: at least two granted values besides openid / offline_access
        ok = [s for s in named if allowed in (None, "unset") or s in allowed]
        for s in ok:
            if len([x for x in scope if x in ok]) >= 2:
                break
            if s not in scope:
                scope.append(s)
    if scope_kind != "full":
        rng.shuffle(scope)
    job["scope"] = scope
    if allowed is not None:
        job["allowed"] = allowed
    if pattern is not None and "offline_access" in scope:
        granted = [s for s in scope if s in PROVIDER_SCOPES and (allowed in (None, "unset") or s in allowed)]
        keep = [s for s in granted if s in ("openid", "offline_access")]
        rest = [s for s in granted if s not in keep]
        rng.shuffle(rest)
        n1 = keep + rest[:max(1, len(rest) - 1)] if len(rest) > 1 else keep
        n2 = keep + rest[:max(0, len(rest) - 2)]
        words = {"-": None, "n": n1, "nn": n2, "g": granted}
        job["refresh_scopes"] = [words[w] for w in pattern]


def scope_matrix(rng, T):
    """requested vs granted, enumerated: every response type x {unknown, not allowed, both, no allowed_scopes in the
    client record}, opaque / JWT access tokens and the four transports in turn; then every refresh pattern x
    {code, code id_token} x opaque / JWT access token over the scope kinds in turn"""
    jobs = []
    kinds = [k for k in SCOPE_KINDS if k != "full"]
    i = 0
    for rt in T["rt"]:
        for k in kinds:
            tr = TRANSPORTS[i % len(TRANSPORTS)]
            cell = base_cell(rt=rt, at_jwt=(i % 2 == 1), transport=tr, rp_all_rts=(i % 3 == 0),
                             auth=T["auth"][i % len(T["auth"])] if not T["auth"][i % len(T["auth"])].startswith("bearer")
                             else "client_secret_post")
            jobs.append(make_job(rng, cell, offline=(i % 4 == 2), kind="scope:" + k, claims=False if tr == "par" else None,
                                 scope_kind=k))
            i += 1
    for rt in ("code", "code id_token"):
        for at in (False, True):
            for pat in REFRESH_PATTERNS:
                k = SCOPE_KINDS[i % len(SCOPE_KINDS)]
                cell = base_cell(rt=rt, at_jwt=at, rf_jwt=(i % 2 == 0), auth=rng.choice(["client_secret_basic", "client_secret_post",
                                                                                        "private_key_jwt"]))
                jobs.append(make_job(rng, cell, offline=True, kind="scope-refresh:%s:%s" % (k, "".join(pat)), scope_kind=k,
                                     pattern=pat))
                i += 1
    return jobs


def limit_matrix(rng, T):
    """every cell class in which exactly ONE named limit applies (and its completing neighbours), enumerated"""
    jobs = []

    def add(kind, offline=False, claims=None, **kw):
        jobs.append(make_job(rng, base_cell(**kw), offline=offline, kind=kind, claims=claims))
    hs = [a for a in T["idt_sig"] if T["sig_fam"][a] == "HS"]
    kw_algs = [a for a in T["ui_enc_alg"] if T["enc_fam"][a] == "KW"]
    for all_rts in (False, True):
        add("limit:mode", rt="code", rm="fragment", rp_all_rts=all_rts)
        add("limit:mode", rt="id_token", rm="query", rp_all_rts=all_rts)
        add("limit:mode", rt="code id_token", rm="query", rp_all_rts=all_rts)
        add("limit:mode", rt="code id_token token", rm="query", rp_all_rts=all_rts)
        add("limit:mode", rt="token", rm="query", rp_all_rts=all_rts)
    for a in hs:
        for rt in T["rt"]:
            add("limit:hs_idt", rt=rt, idt_sig=a)
        for rt in [t for t in T["rt"] if t != "id_token"]:
            add("limit:hs_ui", rt=rt, ui_sig=a)
    add("neighbour:hs_ui-without-userinfo", rt="id_token", ui_sig=hs[0])
    for a in kw_algs:
        add("limit:kw", ui_enc=(a, rng.choice(T["ui_enc_enc"])), secret_len=56)
        add("neighbour:kw-32", ui_enc=(a, rng.choice(T["ui_enc_enc"])), secret_len=32)
    add("neighbour:kw-without-userinfo", rt="id_token", ui_enc=(kw_algs[0], T["ui_enc_enc"][0]), secret_len=56)
    for tr in ("request_uri", "par"):
        for rt in [t for t in T["rt"] if "id_token" in t.split(" ")]:
            add("limit:byref_nonce", rt=rt, transport=tr)
        for rt in ("token", "code token"):
            add("neighbour:byref-without-id-token", rt=rt, transport=tr)
        add("limit:byref_consent", offline=True, transport=tr)
        add("neighbour:byref-code", transport=tr)
    for rt in ("id_token", "code id_token"):
        add("neighbour:request-object-by-value", rt=rt, transport="request", offline=True)
    for a in ("client_secret_jwt", "private_key_jwt"):
        add("limit:par_jwt", transport="par", auth=a)
        add("neighbour:jwt-auth-token-endpoint", auth=a)
    for a in ("client_secret_basic", "client_secret_post"):
        add("neighbour:par-secret-auth", transport="par", auth=a, claims=False)
    add("limit:par_claims", transport="par", claims=True)
    add("limit:par_claims", transport="par", claims=True, rm="form_post")
    for tr in ("request", "request_uri"):
        add("neighbour:claims-in-request-object", transport=tr, claims=True)
    for rt in T["rt"]:
        for all_rts in (False, True):
            add("limit:shadow", rt=rt, rp_all_rts=all_rts, op_explicit=False)
    for a in T["auth"]:
        if a.startswith("bearer"):
            add("negotiation:auth-fallback", auth=a)
    for i, rt in enumerate(T["rt"]):
        add("limit:idt_enc", rt=rt, idt_enc=(T["idt_enc_alg"][(3 * i + 1) % len(T["idt_enc_alg"])],
                                             T["idt_enc_enc"][i % len(T["idt_enc_enc"])]))
    # explicit response_mode = the default one (the pick_redirect_uri repair)
    add("repair:explicit-default-mode", rt="code", rm="query")
    add("repair:explicit-default-mode", rt="id_token", rm="fragment")
    add("repair:explicit-default-mode", rt="code id_token", rm="fragment", rp_all_rts=True)
    return jobs


def response_type_coverage(rng, T):
    """at least one full flow per response type both halves can be configured with x {plain, request object by value}"""
    jobs = []
    for rt in T["rt"]:
        for tr in ("plain", "request"):
            jobs.append(make_job(rng, base_cell(rt=rt, transport=tr, rp_all_rts=(tr == "request")), offline=False,
                                 kind="response-type:" + rt.replace(" ", "+")))
    return jobs


def refresh_cells(rng, T):
    """JWT / opaque access token x JWT / opaque refresh token x two client-authentication methods (one secret based, one
    JWT based): code exchange and two refreshes each"""
    jobs = []
    for at in (False, True):
        for rf in (False, True):
            for auth in ("client_secret_post", "private_key_jwt"):
                jobs.append(make_job(rng, base_cell(at_jwt=at, rf_jwt=rf, auth=auth, rt=rng.choice(["code", "code id_token"])),
                                     offline=True, kind="refresh:%s-at:%s-rt" % ("jwt" if at else "opaque", "jwt" if rf else "opaque")))
    return jobs


SEQUENCE_PATTERNS = [("short-then-default", ["short", "default"]), ("default-then-short", ["default", "short"]),
                     ("default-short-default", ["default", "short", "default"]),
                     ("interleaved", ["short", "default", "short", "default"]),
                     ("long-then-default", ["long", "default"]),
                     ("three-clients", ["default", "refresh", "short", "default", "refresh"])]


def instance_jobs(rng, T, rounds=1):
    """the lifetime dimension: ONE provider instance x {opaque, JWT} access token x {opaque, JWT} refresh token x
    provider-wide usage rules that state a lifetime or none (handler lifetime) x clients with their own
    token_usage_rules (shorter / longer access-token lifetime, own refresh-token lifetime, both) and clients without
    x SEQUENCES of complete flows of these clients on the instance: short client first then default, the other order,
    default - short - default, interleaved, long first, three clients; every flow with its refresh rounds"""
    jobs = []
    rts = rr(rng, ["code", "code id_token", "code", "code token", "code", "id_token token", "code id_token token"])
    auths = rr(rng, ["client_secret_basic", "client_secret_post", "client_secret_jwt", "private_key_jwt"])
    trs = rr(rng, ["plain", "request", "plain"])
    sigs = rr(rng, ["RS256", "ES256", "PS256"])
    prov = rr(rng, [{"at": None, "rf": 3600}, {"at": None, "rf": 7200}, {"at": 600, "rf": 3600}, {"at": None, "rf": 14400},
                    {"at": 900, "rf": 7200}])
    for _ in range(rounds):
        for at_jwt in (True, False):
            for rf_jwt in (True, False):
                for name, roles in SEQUENCE_PATTERNS:
                    handler = {"at": rng.choice([3600, 1800]), "rf": rng.choice([86400, 14400])}
                    provider = dict(prov())
                    rules = {"default": {"at": None, "rf": None},
                             "short": {"at": rng.choice([90, 120, 300]), "rf": rng.choice([None, 1200])},
                             "long": {"at": rng.choice([7200, 10000]), "rf": rng.choice([None, 100000])},
                             "refresh": {"at": None, "rf": rng.choice([900, 1500])}}
                    names = []
                    for r in roles:
                        if r not in names:
                            names.append(r)
                    clients = []
                    for i, r in enumerate(names):
                        # the first flow of every sequence redeems a code (refresh token, refresh rounds)
                        rt = "code" if i == 0 and rng.random() < 0.5 else rts()
                        clients.append({"id": "c12-%s" % "abc"[i], "role": r, "rules": rules[r],
                                        "cell": base_cell(rt=rt, auth=auths(), transport=trs(), idt_sig=sigs(),
                                                          at_jwt=at_jwt, rf_jwt=rf_jwt, rp_all_rts=rng.random() < 0.3)})
                    seq = []
                    for r in roles:
                        ci = names.index(r)
                        redeems = expects(clients[ci]["cell"]["rt"])[2]
                        extra = [x for x in SCOPES if x != "offline_access" and rng.random() < 0.4]
                        seq.append({"client": ci, "scope": ["openid"] + extra + (["offline_access"] if redeems or rng.random() < 0.3 else []),
                                    "user": rng.choice(USERS), "latency": rng.choice([0, 0, 2, 7]),
                                    "gap": rng.choice([1, 50, 400, 5000]), "claims": None})
                    jobs.append({"instance": {"label": "%s-%d" % (name, len(jobs)), "handler": handler, "provider": provider,
                                              "clients": clients, "sequence": seq},
                                 "kind": "instance:" + name})
    return jobs


def fixed_witnesses():
    """One fully fixed flow per entry of known_findings.txt (nothing drawn from the seed): the KNOWN-FINDING lines
    are printed on every run, for every VERIF_SEED; these are the C12_refuted_* cells of Props/C12.v."""
    def job(key, scope=("openid",), claims=None, **kw):
        return {"cell": base_cell(**kw), "scope": list(scope), "claims": claims, "user": "diana", "latency": 0,
                "kind": "witness:" + key}
    return [
        job("hs-sign:id_token", idt_sig="HS256"),
        job("hs-sign:id_token", idt_sig="HS256", rt="id_token"),
        job("hs-sign:userinfo", ui_sig="HS256"),
        job("idt-enc-not-applied", idt_enc=("RSA-OAEP", "A128CBC-HS256")),
        job("kw-secret-length", ui_enc=("A128KW", "A128GCM"), secret_len=56),
        job("byref-nonce-missing", rt="code id_token", transport="request_uri"),
        job("byref-nonce-missing", rt="id_token", transport="par"),
        job("byref-consent-missing", scope=("openid", "offline_access"), transport="par"),
        job("par-jwt-audience", transport="par", auth="private_key_jwt"),
        job("par-claims-not-parsed", transport="par", claims={"userinfo": {"nickname": None}}),
        job("mode-refused-by-provider", rm="fragment", rp_all_rts=True),
        job("mode-refused-by-rp", rm="fragment", rp_all_rts=False),
        job("idt-exp-unrecorded", rt="id_token"),
    ]


def thorough_jobs(rng, T):
    jobs = []

    def add(kind, offline=None, **kw):
        jobs.append(make_job(rng, base_cell(**kw), offline=offline, kind=kind))
    for tr in TRANSPORTS:
        for cl in (False, True):
            for rt in T["rt"]:
                jobs.append(make_job(rng, base_cell(transport=tr, rt=rt), offline=False, kind="sub:transport-claims", claims=cl))
    for tr in TRANSPORTS:
        for a in T["auth"]:
            for rt in T["rt"]:
                for rm in [None] + T["rm"]:
                    for off in (False, True):
                        add("sub:transport-auth-mode", offline=off, transport=tr, auth=a, rt=rt, rm=rm,
                            rp_all_rts=rng.random() < 0.5)
    for a in T["idt_sig"]:
        for rt in T["rt"]:
            add("sub:idt-sig", idt_sig=a, rt=rt)
    for a in T["idt_enc_alg"]:
        for e in T["idt_enc_enc"]:
            for rt in ("code", "id_token"):
                add("sub:idt-enc", idt_enc=(a, e), rt=rt)
    for s in [None] + T["ui_sig"]:
        for a in T["ui_enc_alg"]:
            for e in T["ui_enc_enc"]:
                add("sub:ui-sig-enc", ui_sig=s, ui_enc=(a, e), secret_len=rng.choice([32, 56]))
        add("sub:ui-sig", ui_sig=s)
    for at in (False, True):
        for rf in (False, True):
            for rt in T["rt"]:
                for off in (False, True):
                    add("sub:token-format", offline=off, at_jwt=at, rf_jwt=rf, rt=rt)
    for p in [None] + T["pkce"]:
        for tr in TRANSPORTS:
            for rt in T["rt"]:
                add("sub:pkce", pkce=p, transport=tr, rt=rt)
    return jobs


# ------------------------------------------------------------------ running
def execute(jobs, workers):
    def flat(rs):
        out = []
        for r in rs:
            out.extend(r if isinstance(r, list) else [r])      # an instance job returns one record per flow
        return out
    if workers <= 1:
        return flat(run_job(j) for j in jobs)
    with ProcessPoolExecutor(max_workers=workers) as ex:
        return flat(ex.map(run_job, jobs, chunksize=4))


def prepare_keys():
    import rp_op_c12 as B
    B.op_jwks()
    B.rp_jwks()


def evaluate(ctx, recs, T):
    flow_cases, view_cases, refresh_cases, grant_cases, scoped_cases = [], [], [], [], []
    # the flows that ran on ONE provider instance, in the order they ran (an ordinary flow has an instance of its own)
    instances = {}
    for n, rec in enumerate(recs):
        key = ("seq", json.dumps(rec["instance"], sort_keys=True, default=str)) if rec.get("instance") else ("one", n)
        instances.setdefault(key, []).append(rec)
    life_cases = []
    for key, rs in instances.items():
        rs = sorted(rs, key=lambda r: r.get("position") or 0)
        if any(r.get("expiry") for r in rs):
            life_cases.append((coq_life_case(rs), {
                "cell": rs[0]["cell"], "instance": rs[0].get("instance"), "kind": rs[0].get("kind"), "scope": rs[0]["scope"],
                "claims": rs[0]["claims"], "user": rs[0]["user"], "latency": rs[0]["latency"], "allowed": rs[0].get("allowed"),
                "refresh_scopes": rs[0].get("refresh_scopes"),
                "life_cfg": [r.get("life_cfg") or default_life_cfg() for r in rs], "expiry": [r.get("expiry") for r in rs]}))
        if key[0] == "seq":
            ctx.count("instance-sequences")
            ctx.count("instance-sequence-flows", len(rs))
    for rec in recs:
        c = rec["cell"]
        out = rec["outcome"]
        small = {k: v for k, v in rec.items() if k not in ("views", "session", "rp_callbacks", "rp_use")}
        ctx.case_seen({"cell": c, "scope": rec["scope"], "claims": rec["claims"], "user": rec["user"],
                       "latency": rec["latency"], "outcome": out["where"], "allowed": rec.get("allowed"),
                       "refresh_scopes": rec.get("refresh_scopes"), "instance": rec.get("instance"),
                       "position": rec.get("position")}, nontrivial=out["where"] not in ("rp_init", "harness"))
        ctx.count("kind:" + rec["kind"].split(":")[0])
        ctx.count("outcome:" + out["where"])
        ctx.count("rt:" + c["rt"])
        ctx.count("transport:" + c["transport"])
        ctx.count("auth:" + c["auth"])
        oracle(ctx, rec, T)
        if out["where"] == "ok":
            o = "Completed"
        elif out["where"] in PLACE:
            o = "(FailAt %s)" % PLACE[out["where"]]
        else:
            if out["where"] != "harness":
                ctx.mismatch("flow stopped at a place the model does not have: %s" % out["where"], small,
                             model="flow_outcome has no such place", impl=out)
            continue
        flow_cases.append(("(%s, %s, %s)" % (coq_cfg(c), coq_inp(c, rec["scope"], rec["claims"]), o), small))
        if out["where"] == "ok":
            if views_case_ok(rec):
                view_cases.append((coq_views_case(rec), {"cell": c, "scope": rec["scope"], "session": rec["session"],
                                                         "views": rec["views"], "now_op": rec["now_op"], "now_rp": rec["now_rp"]}))
                grant_cases.append((coq_grant_case(rec), {"cell": c, "scope": rec["scope"], "allowed": rec.get("allowed"),
                                                          "session": rec["session"], "views": rec["views"],
                                                          "kind": rec["kind"], "claims": rec["claims"], "user": rec["user"],
                                                          "latency": rec["latency"], "refresh_scopes": rec.get("refresh_scopes")}))
                prev, now0 = rec["session"], rec["now_op"]
                prev_tok = token_level(rec)["session"]
                al = allowed_for_client(rec)
                for rr in rec.get("refresh_rounds") or []:
                    if not (views_case_ok(rr) and rr.get("now_op") is not None and prev.get("idt_exp") is not None):
                        ctx.mismatch("refresh round without a usable provider session record", small, impl=rr.get("session"))
                        break
                    # lifetimes as the FIRST token response showed them (expiry minus the provider clock then)
                    lives = (rr["now_op"], rec["session"]["at_exp"] - now0, rec["session"]["idt_exp"] - now0)
                    info = {"cell": c, "scope": rec["scope"], "allowed": rec.get("allowed"), "round": rr["round"],
                            "refresh_scopes": rec.get("refresh_scopes"), "request_scope": rr.get("request_scope"),
                            "before": prev_tok, "session": rr["session"], "views": rr["views"], "now_op": rr["now_op"],
                            "now_rp": rr["now_rp"], "kind": rec["kind"], "claims": rec["claims"], "user": rec["user"],
                            "latency": rec["latency"]}
                    rr_tok = token_level(rr)
                    scoped_cases.append(("(%s, %s, %s, %s, (%s, %s, %s), %s, %s)" % (
                        coq_scopes_opt(sorted(al) if al is not None else None), coq_scopes(sorted(set(rec["scope"]))),
                        coq_scopes(rr["session"]["scope"]), coq_session(prev_tok), coq_z(lives[0]), coq_z(lives[1]),
                        coq_z(lives[2]), coq_scopes_opt(rr.get("request_scope")), coq_views_case(rr_tok)), info))
                    prev_tok = rr_tok["session"]
                    if rec.get("refresh_scopes"):
                        # a flow whose refresh requests restate the scope: the records of the refreshed tokens are not
                        # the grant's (chk_refresh_scoped above); chk_refresh is for refreshes that keep the grant's scope
                        prev = rr["session"]
                        continue
                    refresh_cases.append(("(%s, (%s, %s, %s), %s)" % (coq_session(prev), coq_z(lives[0]), coq_z(lives[1]),
                                                                       coq_z(lives[2]), coq_views_case(rr)),
                                          {"cell": c, "scope": rec["scope"], "round": rr["round"], "before": prev,
                                           "session": rr["session"], "views": rr["views"], "now_op": rr["now_op"],
                                           "now_rp": rr["now_rp"], "kind": rec["kind"], "claims": rec["claims"],
                                           "user": rec["user"], "latency": rec["latency"]}))
                    prev = rr["session"]
            else:
                ctx.mismatch("completed flow without a usable provider session record", small, impl=rec.get("session"))
    imports = ["Lib.Base", "Lib.PyStr", "Lib.InteropTy", "Gen.Supports", "Model.Interop"]
    ctx.coq_check_cases(imports, "cfg * inp * outcome", "chk_flow", flow_cases, shard=300, label="flow", diag="diag_flow")
    ctx.coq_check_cases(imports, "views_case", "chk_views", view_cases, shard=150, label="views", diag="diag_views")
    ctx.coq_check_cases(imports, "session * (Z * Z * Z) * views_case", "chk_refresh", refresh_cases, shard=150,
                        label="refresh", diag="diag_refresh")
    ctx.coq_check_cases(imports, "option (list pystr) * list pystr * list (list pystr) * views_case", "chk_grant",
                        grant_cases, shard=150, label="grant", diag="diag_grant")
    ctx.coq_check_cases(imports, "option (list pystr) * list pystr * list pystr * session * (Z * Z * Z) * option (list pystr) "
                        "* views_case", "chk_refresh_scoped", scoped_cases, shard=150, label="refresh_scoped",
                        diag="diag_refresh_scoped")
    ctx.coq_check_cases(imports + ["Model.InteropLifetime"], "prov_life * list (event * lviews)", "chk_lifetimes",
                        life_cases, shard=150, label="lifetimes", diag="diag_lifetimes")
    ctx.count("refresh-rounds", len(scoped_cases))


def run(ctx):
    rng = ctx.rng
    T = tables()
    prepare_keys()
    jobs = fixed_witnesses() + response_type_coverage(rng, T) + refresh_cells(rng, T) + limit_matrix(rng, T)
    jobs += scope_matrix(rng, T)
    # (a generator of its own, derived from the seed: the flows drawn from `rng` stay what they were)
    inst_jobs = instance_jobs(random.Random("c12-instances-%s" % ctx.seed), T, rounds=1 if ctx.quick else 4)
    rows = pairwise_rows(rng, T)
    jobs += concretise(rng, rows, T)
    jobs += inst_jobs
    if not ctx.quick:
        jobs += thorough_jobs(rng, T)
    ctx.notes.append("%d flows: %d fixed witnesses, %d limit-matrix / neighbour cells, %d pairwise rows, %d provider "
                     "instances with sequences of %d flows of several clients%s" % (
        len(jobs) - len(inst_jobs) + sum(len(j["instance"]["sequence"]) for j in inst_jobs), len(fixed_witnesses()),
        len(limit_matrix(random.Random(0), T)), len(rows), len(inst_jobs),
        sum(len(j["instance"]["sequence"]) for j in inst_jobs), "" if ctx.quick else ", plus the sub-products"))
    workers = int(os.environ.get("VERIF_C12_WORKERS", "0")) or min(8, max(2, (os.cpu_count() or 4) // 2))
    t0 = time.time()
    recs = execute(jobs, workers)
    t1 = time.time()
    evaluate(ctx, recs, T)
    ctx.notes.append("flows took %.1fs on %d workers; oracle + model evaluation %.1fs" % (t1 - t0, workers, time.time() - t1))
    # every individual value of every RP dimension was exercised at least once
    seen = {}
    for r in recs:
        c = r["cell"]
        for k in ("rt", "rm", "auth", "idt_sig", "ui_sig", "pkce", "transport"):
            seen.setdefault(k, set()).add(c[k])
        for k in ("idt_enc", "ui_enc"):
            if c[k]:
                seen.setdefault(k + "_alg", set()).add(c[k][0])
                seen.setdefault(k + "_enc", set()).add(c[k][1])
    for k, want in (("rt", T["rt"]), ("rm", T["rm"]), ("auth", T["auth"]), ("idt_sig", T["idt_sig"]), ("ui_sig", T["ui_sig"]),
                    ("pkce", T["pkce"]), ("idt_enc_alg", T["idt_enc_alg"]), ("idt_enc_enc", T["idt_enc_enc"]),
                    ("ui_enc_alg", T["ui_enc_alg"]), ("ui_enc_enc", T["ui_enc_enc"])):
        missing = [v for v in want if v not in seen.get(k, set())]
        if missing:
            ctx.broken.append("generator: values of dimension %s never exercised: %s" % (k, missing))


def replay(ctx, rp):
    T = tables()
    prepare_keys()
    case = rp.get("case") or {}
    if "cell" not in case:
        mm = rp.get("correspondence_mismatches") or []
        if mm and isinstance(mm[0].get("case"), dict) and "cell" in mm[0]["case"]:
            case = mm[0]["case"]
        else:
            return run(ctx)
    if case.get("instance"):
        # a flow of a sequence: the WHOLE sequence is driven again on one new provider instance
        recs = run_instance_job({"instance": case["instance"], "kind": case.get("kind", "replay")})
        for r in recs:
            print("replayed flow %d of the sequence (client %s): outcome %s; expiry views %s" % (
                r.get("position", 0) + 1, (r.get("life_cfg") or {}).get("client_id"), json.dumps(r["outcome"]),
                json.dumps([{k: v for k, v in ev.items() if v is not None} for ev in (r.get("expiry") or [])[:1]])))
        evaluate(ctx, recs, T)
        return
    job = {"cell": case["cell"], "scope": case.get("scope") or ["openid"], "claims": case.get("claims"),
           "user": case.get("user") or "diana", "latency": case.get("latency") or 0, "kind": case.get("kind", "replay"),
           "allowed": case.get("allowed"), "refresh_scopes": case.get("refresh_scopes")}
    recs = [run_job(job)]
    print("replayed flow: outcome %s" % json.dumps(recs[0]["outcome"]))
    evaluate(ctx, recs, T)
