"""C13 driver — exported state restores to an equivalent provider / relying party; the file store shows a
new instance what was written or deleted.

Four streams, all on the REAL code:
  (1) file store: random dictionary-operation traces over hostile keys on AbstractFileSystem(QPKey) with both
      value converters; a second instance is opened after every operation.  Model = Model/FileStore.v
      (chk_trace by vm_compute); oracle = a plain Python dict kept from the property text.
  (2) provider: random protocol histories on one provider; after EVERY prefix the state is exported, a fresh
      provider is built from the same configuration, the export is imported and the rest of the history is
      run on it; all outcomes must equal those of the original (token values -> indices).  Configurations:
      opaque / JWT access tokens x key pinning by password+salt, explicit key, key file; the `jwks_def` way
      is replayed as a fixed witness.
  (3) relying party: the same with RP histories (pending authorizations, nonce bindings, tokens).
  (4) ImpExp codec: dump_attr / load_attr / dump / load of real ImpExp instances against Model/ImpExp.v and the
      regenerated `parameter` tables.
  (2b) sessions and sharing: histories in which a session is changed through the API AFTER the restore and then resolved
      by its id (cookie issued before the dump, end-session, look-ups), chains of exports, and the sharing census: objects
      that are ONE object in the live provider but are written at two places of the export (a grant filed a second time
      under its session id, usage-rule dicts / scope lists shared by grant and tokens, one authentication event behind two
      grants) are separate copies after a restore; the model (Model/ImpExp.v, sdb) says when that cannot be noticed.
"""
import base64
import binascii
import copy
import json
import os
import shutil
import sys
import urllib.parse

import engine as E
from engine import coq_str, coq_list, coq_bool, coq_z, coq_nat

RULE = ("(1) file-store traces of 8-40 ops (set/get/del/in/keys/items/len/clear/re-open) over keys drawn from a hostile "
        "pool (URL-shaped ids, %, +, space, /, '.', '..', '', *.lock, unicode, case pairs, %-escapes) and random strings, "
        "values with edge whitespace / unicode / JSON documents, both value converters, second instance after every op; "
        "non-trivial = at least one accepted set and one delete/clear/re-open. "
        "(1b) the same traces over key FAMILIES whose converted file names are in prefix relation (base, base + '.x' / '.uk' / "
        "'.' / '.lock' / '.lock.lock' / '.lock.x' / '.*' / '*' / '?' / '[a]' / '-x' / '_x' / '~' / '/x' / ':8443', chains, URL-shaped "
        "client ids one of which extends the other): every key written early, removals and rewrites prefer the key whose name is a "
        "proper prefix of the name of a key that holds a value, read-modify-write, clear, re-open, second instance after every "
        "op; the CONTENTS of every file in the directory after every step against the model (chk_files, with the frame condition "
        "on the family), no file outside the two names each key owns, no value file of a live key missing; non-trivial = a "
        "shorter key was removed or rewritten while a longer one held a value. name_related of the model against str.startswith. "
        "(2b) a provider whose client_db is the file-backed store next to the same provider over a dict: client-id families in "
        "prefix relation, register / update (read-modify-write) / de-register / authorize, export -> import into a fresh "
        "provider over the same directory after EVERY step; membership, records, listing and the answer to an authorization "
        "request of every client of the family are the reference's; non-trivial = a client was de-registered while a client "
        "whose file name extends its file name was registered. "
        "(2) provider histories of 8-16 ops generated adaptively (authorize, redeem, refresh, revoke, introspect, userinfo, "
        "tick, dynamic registration + read, PAR + redemption, client_secret_jwt with jti replay, wrong client / wrong class / "
        "garbage tokens), dumped and restored after EVERY prefix, per configuration kind; non-trivial = the suffix contains "
        "an op whose outcome depends on pre-dump state. Cookie keys are pinned by a key file, so session cookies issued before "
        "the export are presented to the restored twin. Session histories (fixed SESSION_MATRIX + adaptive ones with 45% session "
        "steps and a closing battery aimed at the sessions whose objects lost a sharing relation in a trial restore): "
        "cookie re-authorization (same request / new scope / other client) against cookies issued before the dump, API-level "
        "revoke_client_session / revoke_grant / revoke_sub_tree(user) / remove_session / revoke_token(recursive) / verified "
        "logout (one, all), end-session with id_token_hint, read-only look-ups by session id (session_manager[sid], get_grant, "
        "get_session_info, get_grant_argument, authentication events, grants, find_token) as operations AND as probes after "
        "every step on both twins, re-export -> import of the restored twin in mid-continuation (chains); sharing census by "
        "id() over the session database / grant-token graph / context tables at every crash point: pairs of access paths that "
        "lead to one object in the original are resolved in the twin (kept / lost / lost-and-stale counted; look-ups of ONE "
        "session that hand out one object in the original must hand out one object in the twin); non-trivial = a session is "
        "changed AFTER the restore and then resolved by its id. The storage operations of these histories (write log of the "
        "original's DLDict + in-place changes) run through Model.ImpExp sd_dump / sd_load / sd_exec / sd_lookup (chk_share). "
        "(3) RP histories likewise. (3b) RP session histories through the public API (StandAloneClient and RPHandler; fixed "
        "RP_SESSION_MATRIX + adaptive ones of 10-18 ops): begin (also re-using the nonce of an earlier, possibly cleared "
        "session), finalize with ID Tokens carrying sub / sid (subjects and session ids shared between sessions), refresh, "
        "userinfo, clear_session, RP-initiated logout + its callback (logout state -> session -> clear), back-channel logout "
        "requests by sub / by sid (with and without clearing), front-channel logout by sid, look-ups through every kind of "
        "bound key (nonce, sub, sid, logout state), session information, token validity after clock ticks, re-export -> "
        "import of the restored twin; exported and restored after EVERY step; on every twin after every later step: the "
        "outcome, the whole state store and a FURTHER export are compared with the original's; non-trivial = a session is "
        "removed AFTER the restore and a key is resolved afterwards. The calls the library makes on the state store "
        "(set / update / bind_key / remove_state / get_base_key / get; original up to the export, twin after it) and random "
        "call sequences on a bare Current run through Model.ImpExp cur_step over the regenerated table of the class (chk_cur). "
        "Attribute census at every crash point of these histories and at the end of every provider history: every ImpExp "
        "instance reachable in the live RP / provider, every attribute it carries: exported (parameter / special_load_dump), "
        "init arg, equal to a fresh instance's (configuration), equal to the restored twin's (rebuilt by load), else "
        "state-not-exported:<Class>.<attr> unless listed in CENSUS_TRANSIENT; (class, attributes) rows are checked against the "
        "regenerated tables in coqc (chk_census: pure-state classes must export everything). (4) codec cases: every type marker x "
        "JSON-like values incl. 'BYTES:' strings, 'upstream_get' / 'class' keys; real Item/SessionToken/Grant/NodeInfo/"
        "Current instances (random and harvested from the live provider)")
ASSUMPTIONS = ["the cookie protection keys are configured key material (key file): a twin built from the same configuration reads cookies issued before the export",
               "str.encode('utf-8') / decode round-trips (keys and values are modelled as UTF-8 byte / code point strings)",
               "the filesystem keeps what was written; file modification times order writes (single writer per directory)",
               "json.dumps / json.loads round-trip JSON-like values; Message.to_dict / from_dict round-trip (C10)",
               "Fernet / the JWS library are deterministic functions of their keys (same key material => same acceptance)",
               "rndstr / uuid values are fresh (token values, states, client ids are compared by minting index)",
               "RP restore recipe: context.load(dump) + services.load(dump, init_args={upstream_get: client.unit_get}) into a client built from the same configuration; the provider's signing keys are configured key material of the RP twin",
               "census transient Grant.id / ExchangeGrant.id: read only by the call that creates the grant (grant_manager create_grant / create_exchange_grant use it as the last part of the branch key, which is exported with the database); after an import it holds a new uuid that nothing reads",
               "census transient Grant.remember_token / Grant.remove_inactive_token (Coq list census_transient): per-grant copies of the session manager's configuration taken at creation, never changed afterwards; under the default configuration a restored grant has the same values (the driver's comparison with the restored twin decides, not the list)",
               "recorded finding restore-drops-session-manager-config is kept narrow: only SessionManager attributes the constructor took from session_params (sub_func, remove_inactive_token, remember_token, node_type, node_info_class) that a fresh provider has and the restored one lacks; any other attribute that is neither exported nor rebuilt is state-not-exported:<Class>.<attr>",
               "census transient SessionManager.conf: constructor input, read in __init__ only; what it configures is compared attribute by attribute",
               "file-backed client database: the member auth_method of a client record (the provider's note of the client authentication method last used per request type; written into the cached record in place, read only to update itself, no decision depends on it) is left out of the record comparison - it is never written back to the file",
               "census transient SessionManager.userinfo: written by EndpointContext.do_userinfo and never read (claims are collected through the context's own userinfo attribute)"]

SIG_LOCK_W = "filestore-lock-suffix-key"
SIG_LOCK_R = "filestore-lock-name-phantom-read"
SIG_CR = "filestore-cr-newline-translation"
SIG_FS = "filestore-new-instance-differs"
SIG_JWKS = "token-keys-jwks_def-not-used"
SIG_PARJSON = "dump-not-json-pending-par"
SIG_RESTORE = "restore-diverges"
SIG_REDUMP = "dump-after-load-differs"
SIG_RP = "rp-restore-diverges"
SIG_LOOKUP = "restore-lookup-diverges"
SIG_SPLIT = "restore-splits-shared-object"


def coq_bytes(b):
    return "[" + ";".join(str(x) for x in b) + "]%N" if b else "(@nil N)"


# ======================================================================================== (1) file store
KEYPOOL = ["a", "A", "a b", "a+b", "a%20b", "a%2Fb", "a/b", "https://client.example.org/cb?x=1&y=2#f", "urn:uuid:1-2",
           "", ".", "..", "...", ".hidden", "a.lock", "x.lock", ".lock", "a.lock.lock", "lock", "a.lck", "åäö", "日本語",
           "a\nb", "a\tb", " lead", "trail ", "*", "~tilde", "%", "%41", "%zz", "+", "con", "a" * 90, "q?x=y", "semi;colon",
           "client_1", "diana@example.org", " ", "é.lock"]
VALS = ["v", "", " ", "  v \n", "\n", "v\n\n", "\tv", "åäö", "line1\nline2", "{\"not\": \"json\"", "x" * 300, "  u", "0",
        "a\rb", "a\r\nb", "\r"]
JVALS = [{"client_id": "c", "redirect_uris": ["https://x/cb"], "n": 1}, [], {}, "s", "  edge \n", 0, None, True,
         {"nested": {"a": [1, 2, {"b": None}]}, "t": " x "}, ["\r", "a\rb"], {"k": "v\r\n"}]


def exc_out(e):
    if isinstance(e, KeyError):
        return "(RErr KeyError)"
    if isinstance(e, IsADirectoryError):
        return "(RErr (Refused 21))"
    if isinstance(e, ValueError):
        return "(RErr ValueError)"
    return "(RErr (Refused 99))"


def fs_trace(ctx, rng, n, conv, tno, family=None):
    """family: a key pool whose converted names are in prefix relation (name_family); the trace then fills the family
    first, prefers removing / rewriting a key whose name is a proper prefix of the name of a key that holds a value, and
    records the CONTENTS of every file in the directory after every step (second case, for chk_files)"""
    from idpyoidc.storage.abfile import AbstractFileSystem
    d = os.path.join(ctx.dir, "fs", "t%s" % tno)
    shutil.rmtree(d, ignore_errors=True)
    vconv = "idpyoidc.util.JSON" if conv == "json" else ""

    def mk():
        return AbstractFileSystem(fdir=d, key_conv="idpyoidc.util.QPKey", value_conv=vconv)

    ser = (lambda v: json.dumps(v)) if conv == "json" else (lambda v: v)
    if family is not None:
        keys = list(family)
    else:
        keys = rng.sample(KEYPOOL, 6) + ["".join(rng.choice("ab.%+ /ål") for _ in range(rng.randint(1, 6))) for _ in range(2)]
        if rng.random() < 0.5:
            k0 = rng.choice(["a", "x", "é"])
            keys += [k0, k0 + ".lock"]
    fs = mk()
    ref = {}
    rec = {"conv": conv, "keys": keys, "ops": []}
    if family is not None:
        rec["family"] = True
    obs = []
    fobs = []
    fill = rng.sample(keys, len(keys)) if family is not None else []      # every key of the family is written once, early
    shadowed = False    # a key was removed / rewritten while a key whose name extends its name held a value
    accepted = removed = False
    pending = None      # read-modify-write: the object a get handed out, to be changed in place and stored again
    for _ in range(n):
        r = rng.random()
        k = rng.choice(keys)
        if pending is not None:
            r, k = 0.0, pending[0]
        elif fill and rng.random() < 0.7:
            r, k = 0.1, fill.pop()
        elif 0.36 <= r < 0.52 and ref and rng.random() < 0.6:
            k = rng.choice(sorted(ref))
        elif family is not None and (r < 0.36 or 0.52 <= r < 0.66) and rng.random() < 0.7:
            # the shorter key of a pair: its converted name is a proper prefix of the name of a key that holds a value
            short = [a for a in keys if any(b != a and name_of(b).startswith(name_of(a)) for b in ref)]
            if short:
                k = rng.choice(short)
        kb = coq_bytes(k.encode("utf-8"))
        before = dict(ref)
        if family is not None and (r < 0.36 or 0.52 <= r < 0.66) and any(b != k and name_of(b).startswith(name_of(k)) for b in ref):
            shadowed = True
            ctx.count("fs:family:" + ("set" if r < 0.36 else "del") + "-of-prefix-key" + ("" if k in ref else "-absent"))
        if r < 0.36:
            if pending is not None:
                v, pending = pending[1], None
                if isinstance(v, dict):
                    v["rmw"] = v.get("rmw", 0) + 1
                else:
                    v.append("rmw")
                ctx.count("fs:read-modify-write")
            else:
                v = copy.deepcopy(rng.choice(JVALS if conv == "json" else VALS))
                if conv == "json" and rng.random() < 0.3:
                    v = {"k": k, "i": rng.randint(0, 9)}
            op, opt = ("set", k, v), "(OSet %s %s)" % (kb, coq_str(ser(v)))
            try:
                fs[k] = v
                out, ref[k] = "RUnit", copy.deepcopy(v)
                accepted = True
            except Exception as e:
                out = exc_out(e)
        elif r < 0.52:
            op, opt = ("get", k), "(OGet %s)" % kb
            try:
                got = fs[k]
                out = "(RVal %s)" % coq_str(ser(got))
                if isinstance(got, (dict, list)) and rng.random() < 0.85:
                    pending = (k, got)
                if k not in ref:
                    ctx.violation(SIG_LOCK_R if k.endswith(".lock") else SIG_FS,
                                  "file store returns %r for key %r that holds no value" % (got, k), rec)
                elif got != ref[k]:
                    ctx.violation(SIG_FS, "file store returns %r for key %r, written %r" % (got, k, ref[k]), rec)
            except Exception as e:
                out = exc_out(e)
                if k in ref:
                    ctx.violation(SIG_LOCK_W if k.endswith(".lock") else SIG_FS,
                                  "key %r was written but reading it raises %r" % (k, e), rec)
        elif r < 0.66:
            op, opt = ("del", k), "(ODel %s)" % kb
            try:
                del fs[k]
                out = "RUnit"
                removed = removed or k in ref
                ref.pop(k, None)
            except Exception as e:
                out = exc_out(e)
        elif r < 0.74:
            op, opt = ("in", k), "(OContains %s)" % kb
            got = k in fs
            out = "(RBool %s)" % coq_bool(got)
            if got != (k in ref):
                ctx.violation(SIG_LOCK_R if k.endswith(".lock") and k not in ref else SIG_FS,
                              "%r in store is %r, expected %r" % (k, got, k in ref), rec)
        elif r < 0.81:
            op, opt = ("keys",), "OKeys"
            got = list(fs.keys())
            out = "(RKeys %s)" % coq_list([coq_bytes(x.encode("utf-8")) for x in got], "bytes")
            if sorted(got) != sorted(ref):
                ctx.violation(SIG_FS, "keys() = %r, expected %r" % (sorted(got), sorted(ref)), rec)
        elif r < 0.86:
            op, opt = ("items",), "OItems"
            got = list(fs.items())
            out = "(RItems %s)" % coq_list(["(%s, %s)" % (coq_bytes(a.encode("utf-8")), coq_str(ser(b))) for a, b in got], "(bytes * pystr)")
            if dict(got) != ref or len(got) != len(ref):
                ctx.violation(SIG_FS, "items() = %r, expected %r" % (got, ref), rec)
        elif r < 0.90:
            op, opt = ("len",), "OLen"
            got = len(fs)
            out = "(RLen %s)" % coq_nat(got)
            if got != len(ref):
                ctx.violation(SIG_FS, "len() = %r, expected %r" % (got, len(ref)), rec)
        elif r < 0.93:
            op, opt = ("clear",), "OClear"
            fs.clear()
            out = "RUnit"
            removed = removed or bool(ref)
            ref = {}
        else:
            op, opt = ("reopen",), "OReopen"
            fs = mk()
            out = "RUnit"
            removed = True
        # ---- what a NEW instance over the same directory sees (the property's second sentence)
        n2 = mk()
        seen = list(n2.items())
        listing = sorted(os.listdir(d))
        rec["ops"].append({"op": op, "out": out})
        if family is not None:
            files = [(x, open(os.path.join(d, x), "r", newline="").read()) for x in listing if os.path.isfile(os.path.join(d, x))]
            rec["ops"][-1]["files"] = listing
            fobs.append("(%s, %s)" % (opt, coq_list(["(%s, %s)" % (coq_bytes(a.encode("utf-8")), coq_str(b)) for a, b in files],
                                                    "(fname * pystr)")))
            # the lock file beside a value file is empty; no file appears that no key of the trace owns
            own = set(name_of(x) for x in keys) | set(name_of(x) + ".lock" for x in keys)
            for a, b in files:
                if a not in own:
                    ctx.violation(SIG_FS, "after %r the directory holds %r, which is neither the value file nor the lock file of a key of the trace" % (op, a), rec)
            for kk in ref:
                if name_of(kk) not in listing:
                    ctx.violation(SIG_FS, "after %r the value file %r of key %r (written, not removed) is gone" % (op, name_of(kk), kk), rec)
        if dict(seen) != ref or len(seen) != len(ref):
            bad = [x for x in set(dict(seen)) | set(ref) if dict(seen).get(x, "<absent>") != ref.get(x, "<absent>")]
            kk = bad[0] if bad else None
            if kk is not None and kk.endswith(".lock"):
                sig = SIG_LOCK_W if kk in ref else SIG_LOCK_R
            elif kk in ref and isinstance(ref[kk], str) and "\r" in ref[kk]:
                sig = SIG_CR
            else:
                sig = SIG_FS
            ctx.violation(sig, "after %r a new instance sees %r for key %r, the dictionary interface wrote %r"
                          % (op, dict(seen).get(kk, "<absent>"), kk, ref.get(kk, "<absent>")), rec)
        for kk in keys:
            if (kk in n2) != (kk in ref) or n2.get(kk, None) != ref.get(kk, None):
                ctx.violation(SIG_LOCK_R if kk.endswith(".lock") and kk not in ref else SIG_FS,
                              "after %r: new instance: %r in -> %r, get -> %r; expected %r / %r"
                              % (op, kk, kk in n2, n2.get(kk), kk in ref, ref.get(kk)), rec)
        if out.startswith("(RErr") and op[0] == "set" and ref != before:
            ctx.violation(SIG_FS, "refused write changed the store", rec)
        obs.append("(%s, (%s, (%s, %s)))" % (
            opt, out,
            coq_list(["(%s, %s)" % (coq_bytes(a.encode("utf-8")), coq_str(ser(b))) for a, b in seen], "(bytes * pystr)"),
            coq_list([coq_bytes(x.encode("utf-8")) for x in listing], "fname")))
        ctx.count("fs:" + op[0])
    if family is not None:
        ctx.case_seen(rec, accepted and removed and shadowed)
        return (coq_list(obs, "obs"), rec), ("(%s, %s)" % (coq_list([coq_bytes(x.encode("utf-8")) for x in keys], "bytes"),
                                                          coq_list(fobs, "fobs")), rec)
    ctx.case_seen(rec, accepted and removed)
    return (coq_list(obs, "obs"), rec)


def name_of(key):
    """the file name the store gives a key (idpyoidc.util.QPKey = urllib quote_plus)"""
    return urllib.parse.quote_plus(key)


FAMILY_BASES = ["a", "app", "client_1", "https://rp.example.org", "https://client.example.org/cb", "https://rp.example.org:8443",
                "urn:uuid:1-2", "é", "a b", "x.y", "k%", "", ".", "rp-1", "A"]
FAMILY_SUFFIXES = [".x", ".uk", ".v2", ".lock", ".lock.lock", ".lock.x", ".lockx", ".", "..", ".*", "*", "?", "[a]", ".[a-z]", ".?",
                   "-x", "_x", "~", "x", "0", "/x", "/", " ", "+", "%", "%2E", ".json", ".tmp", ".bak", ".lck", ".é", ":8443",
                   ".uk/cb", "\n"]


def name_family(rng):
    """a key pool whose CONVERTED names are in prefix relation: a base key, the base plus suffixes (quote_plus leaves
    '.', '-', '_', '~', letters, digits alone; glob metacharacters, '/', ' ', '%' are escaped - the escaped forms extend the
    base name all the same), chains (base + s1 + s2), and one key outside the family"""
    base = rng.choice(FAMILY_BASES)
    suf = rng.sample(FAMILY_SUFFIXES, rng.randint(3, 5))
    keys = [base] + [base + x for x in suf]
    keys.append(base + suf[0] + rng.choice(FAMILY_SUFFIXES))
    if rng.random() < 0.5:
        keys.append(base + ".lock" + rng.choice(["", ".lock", ".x"]))
    keys.append(rng.choice(["other", "https://other.example.com", "b"]))
    out = []
    for x in keys:
        if x not in out:
            out.append(x)
    return out


def fs_witnesses(ctx):
    """fixed inputs of repaired / reported defects, replayed on every run (regression oracle)"""
    from idpyoidc.storage.abfile import AbstractFileSystem
    d = os.path.join(ctx.dir, "fs", "witness")
    shutil.rmtree(d, ignore_errors=True)
    mk = lambda: AbstractFileSystem(fdir=d, key_conv="idpyoidc.util.QPKey")
    fs = mk()
    rec = {"witness": "lock names / carriage return"}
    try:
        fs["client.lock"] = "v1"
        if "client.lock" not in mk() or mk().get("client.lock") != "v1":
            ctx.violation(SIG_LOCK_W, "fs['client.lock']='v1' accepted but a new instance does not see it", rec)
    except ValueError:
        pass
    fs["a"] = "v"
    if fs.get("a.lock") is not None or mk().get("a.lock") is not None or "a.lock" in fs:
        ctx.violation(SIG_LOCK_R, "after fs['a']='v', key 'a.lock' (never written) reads %r" % (mk().get("a.lock"),), rec)
    for v in ("a\rb", "a\r\nb", "\r"):
        fs["cr"] = v
        got = mk().get("cr")
        if got != v:
            ctx.violation(SIG_CR, "fs['cr']=%r: a new instance reads %r" % (v, got), rec)
    ctx.case_seen(rec, True)


def quote_cases(ctx, rng, n):
    alpha = list(b"abzAZ09_.-~ +%/&=#?:\x00\x7f\x80\xc3\xa5\xff\n")
    q, u = [], []
    for _ in range(n):
        b = bytes(rng.choice(alpha) for _ in range(rng.randint(0, 8)))
        q.append(("(%s, %s)" % (coq_bytes(b), coq_bytes(urllib.parse.quote_plus(b).encode())), {"quote_plus": list(b)}))
        s = "".join(rng.choice("ab%+2fFzZ 5%") for _ in range(rng.randint(0, 8)))
        u.append(("(%s, %s)" % (coq_bytes(s.encode()), coq_bytes(urllib.parse.unquote_to_bytes(s.replace("+", " ")))),
                  {"unquote_plus": s}))
    for c in q + u:
        ctx.case_seen(c[1], True)
    imp = ["Lib.Base", "Lib.PyStr", "Lib.Urlenc", "Model.FileStore"]
    ctx.coq_check_cases(imp, "bytes * bytes", "chk_quote", q, label="quote")
    ctx.coq_check_cases(imp, "bytes * bytes", "chk_unquote", u, label="unquote")



# ---------------------------------------------------------------- (2b) provider over a file-backed client database
CID_BASES = ["https://rp.example.org", "https://rp.example.org/cb", "https://rp.example.org:8443", "rp", "client_1", "app-1"]
CID_SUFFIXES = [".uk", ".x", ".", ".v2", "-2", "_b", ".lock", ".lock.x", "/cb", ".*", "*", "x", ":8443", ".uk.lock", "~"]


def cdb_authz(server, cid, redirect):
    ep = server.get_endpoint("authorization")
    req = {"client_id": cid, "redirect_uri": redirect, "scope": ["openid"], "state": "STATE", "nonce": "nonce-nonce-nonce-0",
           "response_type": "code"}
    try:
        parsed = ep.parse_request(dict(req))
        if "error" in parsed:
            return "error:%s" % parsed["error"]
        resp = ep.process_request(parsed)
        if "error" in resp:
            return "error:%s" % resp["error"]
        if "code" in (resp.get("response_args") or {}):
            return "code"
        return "other"
    except Exception as e:
        return "exc:%s" % type(e).__name__


def cdb_rec(r):
    """client record without the provider's note of the authentication method last used per request type (written into
    the cached record in place by verify_client, read only to update itself, never written back to a file-backed store)"""
    return None if r is None else {k: v for k, v in r.items() if k != "auth_method"}


def filecdb_history(ctx, rng, reb, tno, n):
    """A provider whose client database is the file-backed store, and the same provider over a plain dict (the reference).
    Client identifiers come from a family whose converted names are in prefix relation (URL-shaped ids: one the other plus
    '.uk', ':8443', '/cb', '.lock' ...).  Registrations, read-modify-write updates, de-registrations (preferring the client whose
    file name is a proper prefix of the file name of a registered one), authorization requests; after EVERY step the context
    is exported and imported into a fresh provider built from the same configuration (same directory): membership, records,
    listing and the answer to an authorization request of every client of the family must be those of the reference."""
    import srv, srv_c13
    from idpyoidc.server import Server
    from idpyoidc.server.configure import OPConfiguration
    from idpyoidc.storage.abfile import AbstractFileSystem
    d = os.path.join(ctx.dir, "cdb", "p%d" % tno)
    shutil.rmtree(d, ignore_errors=True)
    spec = {"class": "idpyoidc.storage.abfile.AbstractFileSystem",
            "kwargs": {"fdir": d, "key_conv": "idpyoidc.util.QPKey", "value_conv": "idpyoidc.util.JSON"}}

    def mk(file_backed):
        conf = srv.op_conf(extra={"client_db": copy.deepcopy(spec)} if file_backed else None)
        S = Server(OPConfiguration(conf=conf, base_path=srv.RUN), cwd=srv.RUN)
        reb.rebind()
        return S

    base = rng.choice(CID_BASES)
    suf = rng.sample(CID_SUFFIXES, 3)
    fam = [base] + [base + x for x in suf] + [base + suf[0] + rng.choice(CID_SUFFIXES), "https://other.example.com"]
    fam = [x for i, x in enumerate(fam) if x not in fam[:i]]
    redirect = dict((cid, "https://cb.example.com/cb/%d" % i) for i, cid in enumerate(fam))
    A, D = mk(True), mk(False)
    rec = {"family": fam, "history": [], "fdir": d}
    if not isinstance(A.context.cdb, AbstractFileSystem) or isinstance(D.context.cdb, AbstractFileSystem):
        ctx.violation(SIG_FS, "client_db configuration did not produce a file-backed / a dict client database", rec)
        return
    fill = rng.sample(fam, len(fam))
    shadowed = False
    for i in range(n):
        r = rng.random()
        reg = sorted(D.context.cdb.keys())
        if fill and rng.random() < 0.75:
            op = ("register", fill.pop())
        elif r < 0.2:
            op = ("register", rng.choice(fam))
        elif r < 0.55 and reg:
            short = [a for a in fam if any(b != a and name_of(b).startswith(name_of(a)) for b in reg)]
            op = ("deregister", rng.choice(short) if short and rng.random() < 0.75 else rng.choice(fam))
        elif r < 0.75 and reg:
            op = ("update", rng.choice(reg))
        else:
            op = ("authz", rng.choice(fam))
        cid = op[1]
        out = "ok"
        if op[0] == "register":
            cr = json.loads(json.dumps(srv.client_record(cid, redirect_uris=[(redirect[cid], None)], client_name="n%d" % i)))
            try:
                A.context.cdb[cid] = copy.deepcopy(cr)
                A.keyjar.add_symmetric(cid, cr["client_secret"])
                D.context.cdb[cid] = copy.deepcopy(cr)
                D.keyjar.add_symmetric(cid, cr["client_secret"])
            except ValueError as e:
                out = "refused"
                if not name_of(cid).endswith(".lock"):
                    ctx.violation(SIG_FS, "registration of client %r refused by the file-backed client database: %r" % (cid, e), rec)
        elif op[0] == "deregister":
            if any(b != cid and name_of(b).startswith(name_of(cid)) for b in reg):
                shadowed = True
                ctx.count("cdb:deregister-of-prefix-client" + ("" if cid in reg else "-absent"))
            del A.context.cdb[cid]
            D.context.cdb.pop(cid, None)
        elif op[0] == "update":
            for S in (D, A):
                try:
                    cr = S.context.cdb[cid]
                except KeyError as e:
                    ctx.violation(SIG_FS, "client %r is registered (reference: %r) but reading its record from the file-backed client "
                                  "database raises %r" % (cid, sorted(D.context.cdb.keys()), e), rec)
                    ctx.case_seen(rec, shadowed)
                    return
                cr["client_name"] = "u%d" % i
                cr.setdefault("contacts", []).append("ops%d@example.org" % i)
                S.context.cdb[cid] = cr
        else:
            out = cdb_authz(A, cid, redirect[cid])
            want = cdb_authz(D, cid, redirect[cid])
            if out != want:
                ctx.violation(SIG_RESTORE, "file-backed provider answers the authorization request of %r with %r, the provider over a dict with %r"
                              % (cid, out, want), rec)
        rec["history"].append({"op": op, "out": out})
        ctx.count("cdb:" + op[0])
        # ---- crash point: export, discard, import into a fresh provider from the same configuration
        js, alt = export(A, "context")
        if alt is not None:
            ctx.violation("dump-not-json", "exported state is not JSON-serialisable: %s" % alt[1], rec)
            return
        B = mk(True)
        try:
            srv_c13.restore(B, json.loads(js))
        except Exception as e:
            ctx.violation(SIG_RESTORE, "import of the state exported after step %d raises %r" % (i, e), rec)
            return
        want = D.context.cdb
        for who, S in (("original", A), ("restored", B)):
            got = S.context.cdb
            if sorted(got.keys()) != sorted(want.keys()) or len(got) != len(want):
                ctx.violation(SIG_FS if who == "original" else SIG_RESTORE,
                              "after %r the %s provider lists the clients %r, the reference %r" % (op, who, sorted(got.keys()), sorted(want.keys())), rec)
            for c in fam:
                if (c in got) != (c in want) or cdb_rec(got.get(c)) != cdb_rec(want.get(c)):
                    ctx.violation(SIG_FS if who == "original" else SIG_RESTORE,
                                  "after %r the %s provider: client %r registered: %r, record %r; the reference: %r, %r"
                                  % (op, who, c, c in got, got.get(c), c in want, want.get(c)), rec)
        for c in fam:
            a, w = cdb_authz(B, c, redirect[c]), cdb_authz(D, c, redirect[c])
            if a != w:
                ctx.violation(SIG_RESTORE, "after %r and export -> import the provider answers the authorization request of client %r with %r, "
                              "the reference with %r" % (op, c, a, w), rec)
            ctx.count("cdb-restored-authz:" + w.split(":")[0])
    ctx.case_seen(rec, shadowed)
    shutil.rmtree(d, ignore_errors=True)


def related_cases(ctx, rng, n):
    """the file-name relation of the model (name_related over quote_plus) against str.startswith on urllib's names"""
    cases = []
    for _ in range(n):
        fam = name_family(rng)
        a, b = rng.choice(fam), rng.choice(fam)
        na, nb = name_of(a), name_of(b)
        rel = na != nb and (na.startswith(nb) or nb.startswith(na))
        cases.append(("((%s, %s), %s)" % (coq_bytes(a.encode("utf-8")), coq_bytes(b.encode("utf-8")), coq_bool(rel)), {"related": [a, b]}))
    for c in cases:
        ctx.case_seen(c[1], True)
    ctx.coq_check_cases(["Lib.Base", "Lib.PyStr", "Lib.Urlenc", "Model.FileStore", "Model.FileStoreFrame"], "(bytes * bytes) * bool",
                        "chk_related", cases, label="fsrelated")


# ======================================================================================== (2) provider
class Rebinder:
    """keeps srv.Clock bound in modules that are imported after the first install"""

    def __init__(self, clock):
        self.clock, self.saved = clock, []

    def rebind(self):
        for name, mod in list(sys.modules.items()):
            if mod is None or not (name.startswith("idpyoidc") or name.startswith("cryptojwt")):
                continue
            for fn in ("utc_time_sans_frac", "time_sans_frac"):
                cur = getattr(mod, fn, None)
                if cur is not None and cur is not self.clock:
                    self.saved.append((mod, fn, cur))
                    setattr(mod, fn, self.clock)

    def restore(self):
        for mod, fn, old in reversed(self.saved):
            setattr(mod, fn, old)
        self.saved = []


SCOPES = [["openid"], ["openid", "email"], ["openid", "offline_access"], ["openid", "profile", "offline_access"],
          ["openid", "email", "offline_access"], ["email"]]


def next_op(rng, P, jti_ctr, rich):
    """choose the next op from the current tables of the original provider (adaptive, mostly valid)"""
    import srv_c13
    toks = list(range(len(P.tokens)))
    by = lambda c: [i for i in toks if P.tclass[i] == c]

    def pick(cls):
        cand = by(cls)
        if cand and rng.random() < 0.88:
            return ("tok", rng.choice(cand[-4:] if rng.random() < 0.7 else cand))
        if toks and rng.random() < 0.6:
            return ("tok", rng.choice(toks))
        return ("garbage", rng.randint(0, 3))

    def owner(ref, wrong=0.12):
        o = P.towner[ref[1]] if ref[0] == "tok" and ref[1] < len(P.towner) else None
        if o is None or rng.random() < wrong:
            return rng.choice(srv_c13.CLIENTS)
        return tuple(o) if isinstance(o, list) else o

    def jti(cref):
        if cref != "client_2":
            return None
        if rich and jti_ctr and rng.random() < 0.25:   # (the replay cache lives in the context, not the session manager)
            return rng.choice(jti_ctr)          # replayed assertion id
        jti_ctr.append(len(jti_ctr) + 1)
        return jti_ctr[-1]

    r = rng.random()
    if r < 0.24 or not toks:
        cref = rng.choice(srv_c13.CLIENTS + ([("dyn", rng.randrange(len(P.dyn)))] if P.dyn else []))
        rt = "code" if rng.random() < 0.8 else rng.choice(["code id_token", "id_token token", "code token"])
        sc = ["openid"] if not isinstance(cref, str) else rng.choice(SCOPES)
        return ("authz", rng.choice(srv_c13.USERS), cref, sc, rt)
    if r < 0.44:
        ref = pick("code")
        c = owner(ref)
        return ("token", ref, c, jti(c), owner(ref, 0.0) if rng.random() < 0.9 else c)
    if r < 0.56:
        ref = pick("refresh_token")
        c = owner(ref)
        return ("refresh", ref, c, rng.choice([None, None, ["openid"], ["openid", "email"]]), jti(c))
    if r < 0.64:
        ref = pick(rng.choice(["access_token", "refresh_token", "code"]))
        return ("revoke", ref, owner(ref) if owner(ref) != "client_2" else "client_1", rng.choice([None, "access_token", "refresh_token"]))
    if r < 0.74:
        ref = pick(rng.choice(["access_token", "refresh_token", "access_token", "id_token"]))
        c = owner(ref)
        return ("introspect", ref, c if c != "client_2" else "client_1")
    if r < 0.84:
        return ("userinfo", pick("access_token"))
    if r < 0.91:
        return ("tick", rng.choice([1, 60, 200, 301, 601, 3601, 86401]))
    if not rich:
        return ("tick", 1)
    if r < 0.94:
        return ("register", len(P.dyn))
    if r < 0.96:
        return ("regread", rng.randrange(len(P.dyn))) if P.dyn else ("register", 0)
    if r < 0.98 or not P.par:
        return ("par", rng.choice(["client_1", "client_3"]), rng.choice(SCOPES[:4]))
    i = rng.randrange(len(P.par))
    return ("authz_par", i, rng.choice(srv_c13.USERS), rng.choice(["client_1", "client_3"]))



# ---------------------------------------------------------------------------------------- sharing (aliases)
ATOMS = (str, bytes, int, float, bool, type(None), type)


def _children(o):
    """the mutable parts of one object of the provider's state, as (step, child)"""
    from idpyoidc.message import Message
    from idpyoidc.item import DLDict
    from idpyoidc.impexp import ImpExp
    if isinstance(o, dict):
        return [(("k", str(k)), v) for k, v in o.items()]
    if isinstance(o, (list, tuple)):
        return [(("i", i), v) for i, v in enumerate(o)]
    if isinstance(o, Message):
        return [(("m", str(k)), v) for k, v in o._dict.items()]
    if isinstance(o, DLDict):
        return [(("k", str(k)), v) for k, v in o.db.items()]
    if isinstance(o, ImpExp):
        names = list(getattr(type(o), "parameter", {})) + list(getattr(type(o), "special_load_dump", {}))
        return [(("a", a), getattr(o, a)) for a in names if a not in ("upstream_get",) and hasattr(o, a)]
    return []


def graph_roots(P):
    sm = P.ctx.session_manager
    roots = [(("db",), sm.db)]
    for a in ("cdb", "jti_db", "par_db", "registration_access_token"):
        v = getattr(P.ctx, a, None)
        if v is not None:
            roots.append(((a,), v))
    return roots


def alias_census(P, limit=20000):
    """every access path (from the session database and the context's exported tables) to every mutable object;
    returns {id: (object, [paths])} - objects are kept alive, so ids stay unique"""
    seen = {}
    stack = list(reversed(graph_roots(P)))
    n = 0
    while stack and n < limit:
        path, o = stack.pop()
        if isinstance(o, ATOMS) or callable(o) and not hasattr(o, "dump"):
            continue
        n += 1
        ent = seen.get(id(o))
        if ent is not None:
            ent[1].append(path)
            continue
        seen[id(o)] = (o, [path])
        for step, c in reversed(_children(o)):
            stack.append((path + (step,), c))
    return seen


def resolve(P, path):
    o = None
    for j, step in enumerate(path):
        if j == 0:
            o = dict((r[0][0], r[1]) for r in graph_roots(P)).get(step)
            if o is None:
                raise KeyError(step)
            continue
        kind, key = step
        if kind == "a":
            o = getattr(o, key)
        elif kind == "m":
            o = o._dict[key]
        elif kind == "i":
            o = o[key]
        else:
            o = o.db[key] if hasattr(o, "db") and not isinstance(o, dict) else o[key]
    return o


def path_shape(path):
    out = []
    for j, step in enumerate(path):
        if j == 0:
            out.append(step)
        elif j == 1 and path[0] == "db":
            n = len(step[1].split(";;"))
            out.append({1: "[user|sid]", 2: "[client]", 3: "[grant]"}.get(n, "[?]") if n != 1 or len(step[1]) < 60 else "[sid-key]")
        elif step[0] == "i":
            out.append("[]")
        elif step[0] == "k" and path[0] != "db":
            out.append("[*]" if j == 1 else "[%s]" % step[1])
        else:
            out.append("." + str(step[1]))
    return "".join(out)


def object_view(o):
    try:
        d = o.dump() if hasattr(o, "dump") else (o.to_dict() if hasattr(o, "to_dict") else o)
        return json.dumps(d, sort_keys=True, default=str)
    except Exception as e:
        return "<%s>" % type(e).__name__


def sessions_of_path(P, path):
    """indices of the sessions (P.sids) an access path into the session database belongs to"""
    if len(path) < 2 or path[0] != "db":
        return []
    key = path[1][1]
    sm = P.ctx.session_manager
    parts = tuple(key.split(";;"))
    if len(parts) == 1 and len(key) > 60:
        try:
            parts = tuple(sm.decrypt_session_id(key))
        except Exception:
            return []
    return [i for i, sp in enumerate(P.spaths) if tuple(sp)[:len(parts)] == parts]


def alias_classes(P):
    """the sharing relation of the provider as it is now: [(shape, [paths]), ...] for every object with two or more paths"""
    out = []
    for oid, (o, paths) in alias_census(P).items():
        if len(paths) >= 2:
            out.append((type(o).__name__ + ":" + " = ".join(sorted(set(path_shape(p) for p in paths))), paths,
                        sorted(set(i for p in paths for i in sessions_of_path(P, p)))))
    return out


def compare_aliases(ctx, classes, B, rec, where):
    """pairs of access paths that reached ONE object in the original when the state was exported: are they one object
    in the restored provider?  returns (lost classes as [(shape, paths, objects in B)], the sessions they belong to)"""
    lost, focus = [], set()
    for shape, paths, sess in classes:
        try:
            objs = [resolve(B, p) for p in paths]
        except Exception as e:
            ctx.violation(SIG_RESTORE, "%s: an access path of the original (%s) does not exist in the restored provider: %r"
                          % (where, shape, e), rec)
            continue
        if all(x is objs[0] for x in objs):
            ctx.count("alias:kept:" + shape)
            continue
        ctx.count("alias:lost:" + shape)
        lost.append((shape, paths, objs))
        focus.update(sess)
    return lost, focus


def api_paths(P):
    """objects reached through the session manager's API for every session id / token handed out: (label, object)"""
    sm = P.ctx.session_manager
    out = []
    for i, sid in enumerate(P.sids):
        for label, f in (("sm[sid]", lambda: sm[sid]), ("get_grant(sid)", lambda: sm.get_grant(sid)),
                         ("get_session_info(sid).grant", lambda: sm.get_session_info(sid, grant=True)["grant"]),
                         ("get(path)", lambda: sm.get(list(P.spaths[i]))),
                         ("get_authentication_event(sid)", lambda: sm.get_authentication_event(sid)),
                         ("get_client_session_info(sid)", lambda: sm.get_client_session_info(sid)),
                         ("get_user_session_info(sid)", lambda: sm.get_user_session_info(sid))):
            try:
                out.append(((i, label), f()))
            except Exception:
                pass
        try:
            g = sm.get_grant(sid)
        except Exception:
            continue
        for n, t in enumerate(g.issued_token):
            out.append(((i, "get_grant(sid).issued_token[%d]" % n), t))
            try:
                out.append(((i, "find_token(sid, value %d)" % n), sm.find_token(sid, t.value)))
            except Exception:
                pass
    return out


def api_alias_classes(P):
    """[[labels]]: look-ups that hand out one and the same object"""
    pa = api_paths(P)
    classes = {}
    for lab, o in pa:
        if not isinstance(o, ATOMS):
            classes.setdefault(id(o), []).append(lab)
    return [labs for labs in classes.values() if len(labs) >= 2]


def compare_api_aliases(ctx, classes, B, rec, where):
    """the same at the level of the API: two look-ups that handed out one object in the original must hand out one object
    in the restored provider when they concern the same session (a change made through one is what the other reads);
    sharing ACROSS sessions (one authentication event behind two grants) that the export cannot express is counted and
    left to the continuation"""
    pb = dict(api_paths(B))
    for labs in classes:
        if any(l not in pb for l in labs):
            ctx.count("alias-api:path-missing")      # (the probes compare what such a look-up answers)
            continue
        objs = [pb[l] for l in labs]
        if all(x is objs[0] for x in objs):
            ctx.count("alias-api:kept")
            continue
        by_session = {}
        for l, x in zip(labs, objs):
            by_session.setdefault(l[0], []).append((l[1], x))
        split = [(i, [n for n, _ in v]) for i, v in by_session.items() if any(x is not v[0][1] for _, x in v)]
        if split:
            i, names = split[0]
            ctx.violation(SIG_SPLIT, "%s: in the original provider %s hand out one and the same object for session %d; in the restored "
                          "provider they hand out different objects (a later change through one is not seen through the other)"
                          % (where, " / ".join(names), i), rec)
            return True
        else:
            ctx.count("alias-api:lost-across-sessions:" + "=".join(sorted(set(l[1].split("(")[0] for l in labs))))



# ---------------------------------------------------------------------------------------- Model/ImpExp.v sdb <-> the real database
def install_write_log(P):
    """the session database of the ORIGINAL records what is filed and removed (key, object) - the storage operations of
    the model (SFile / SNew / SDel); changes in place are read off the objects' contents after each step"""
    from idpyoidc.item import DLDict

    class LogDL(DLDict):
        def __setitem__(self, key, val):
            self.wlog.append(("set", key, val))
            self.db[key] = val

        def __delitem__(self, key):
            self.wlog.append(("del", key, None))
            del self.db[key]

    sm = P.ctx.session_manager
    new = LogDL()
    new.db = sm.db.db
    new.wlog = []
    sm.db = new
    return new


def key_name(P, key):
    """database keys under names that are the same on both twins: grants made after the restore have other random ids"""
    parts = tuple(key.split(";;"))
    if len(parts) == 3:
        return "g%d" % P.spaths.index(parts) if parts in P.spaths else "g?" + short(key)[-8:]
    if len(parts) == 1 and len(key) > 60:
        try:
            path = tuple(P.ctx.session_manager.decrypt_session_id(key))
        except Exception:
            return "s?" + short(key)[-8:]
        return "s%d" % P.spaths.index(path) if path in P.spaths else "s?" + short(key)[-8:]
    return "n:" + undyn(P, key)


def undyn(P, text):
    """the random identifiers of dynamically registered clients -> their index (a client registered after the restore has
    another identifier on each twin)"""
    for i, d in enumerate(P.dyn):
        text = text.replace(d["client_id"], "<dyn %d>" % i)
    return text


def node_digest(P, o):
    """contents of a node with the random identifiers of this twin replaced (token values, session ids)"""
    try:
        d = o.dump()
    except Exception as e:
        return "<%s>" % type(e).__name__
    for t in d.get("issued_token", []) if isinstance(d, dict) else []:
        for body in t.values():
            for k in ("value", "based_on", "session_id", "id"):
                v = body.get(k)
                if isinstance(v, str) and v:
                    body[k] = "<tok %d>" % P.tix(v) if v in P.tokens else (P.canon_sid(v) if k == "session_id" else "<id>")
    if isinstance(d, dict) and "subordinate" in d:
        d["subordinate"] = [key_name(P, x) for x in d["subordinate"]]
    return undyn(P, json.dumps(d, sort_keys=True, default=str))


def share_views(P):
    """(key name -> contents) of the session database and what session_manager[sid] hands out for every session"""
    sm = P.ctx.session_manager
    inner = sm.db.db
    views = {key_name(P, k): node_digest(P, o) for k, o in inner.items()}
    looks = []
    for i, sid in enumerate(P.sids):
        try:
            looks.append(node_digest(P, sm[sid]))
        except Exception:
            looks.append(None)
    return views, looks


class ShareRecorder:
    """turns the steps of the original into operations of the model"""

    def __init__(self, P):
        self.P = P
        self.log = install_write_log(P)
        self.objs = {}      # id -> (object, contents after the last step)

    def state(self):
        """the database as the model's sdb: [(key name, object number)], [(object number, contents)]"""
        inner = self.P.ctx.session_manager.db.db
        num, keys, heap = {}, [], []
        for k, o in inner.items():
            if id(o) not in num:
                num[id(o)] = len(num)
                heap.append((num[id(o)], node_digest(self.P, o)))
            keys.append((key_name(self.P, k), num[id(o)]))
        return keys, heap

    def step_ops(self, before):
        """before: {key: object} as it was before the step; uses the write log of the step"""
        P = self.P
        cur = dict(before)
        ops = []
        for what, key, val in self.log.wlog:
            if what == "del":
                cur.pop(key, None)
                ops.append(("SDel", key))
                continue
            if cur.get(key) is val and (len(key) <= 60 or ";;" in key):
                continue      # a branch key written back with the node just read from it (Database.set walks the path)
            # (a grant filed under its session id comes from the tree: in the original this changes nothing when it is
            #  there already, in a restored twin it replaces the copy by the tree's object)
            k0 = next((k for k, o in cur.items() if o is val and len(k.split(";;")) == 3), None) or \
                next((k for k, o in cur.items() if o is val and k != key), None)
            if k0 is None and cur.get(key) is val:
                continue
            ops.append(("SFile", k0, key) if k0 is not None else ("SNew", key, val))
            cur[key] = val
        del self.log.wlog[:]
        # changes in place of objects that existed before the step, named by their branch key
        for oid, (o, old) in list(self.objs.items()):
            new = node_digest(P, o)
            if new != old:
                ks = [k for k, x in cur.items() if x is o]
                k = next((k for k in ks if len(k.split(";;")) == 3), ks[0] if ks else None)
                if k is not None and not any(op[0] == "SNew" and op[2] is o for op in ops):
                    ops.append(("SUpd", k, new))
        inner = P.ctx.session_manager.db.db
        self.objs = {id(o): (o, node_digest(P, o)) for o in inner.values()}
        out = []
        for op in ops:
            if op[0] == "SNew":
                out.append(("SNew", key_name(P, op[1]), node_digest(P, op[2])))
            elif op[0] == "SFile":
                out.append(("SFile", key_name(P, op[1]), key_name(P, op[2])))
            elif op[0] == "SDel":
                out.append(("SDel", key_name(P, op[1])))
            else:
                out.append(("SUpd", key_name(P, op[1]), op[2]))
        return out


def share_case(state, steps):
    """Gallina term of one case: the database at the crash point + the later steps (contents -> small integers;
    key names as numeric lists: string literals are what makes coqc slow)"""
    table = {}
    coq_str = lambda k: coq_bytes(k.encode("utf-8"))

    def val(d):
        return "(VInt %d)" % table.setdefault(d, len(table))

    def oval(d):
        return "None" if d is None else "(Some %s)" % val(d)

    keys, heap = state
    sdb = "(Build_sdb %s %s %s)" % (
        coq_list(["(%s, %s)" % (coq_str(k), coq_nat(n)) for k, n in keys], "(pystr * loc)"),
        coq_list(["(%s, %s)" % (coq_nat(n), val(d)) for n, d in heap], "(loc * pyval)"), coq_nat(len(heap)))
    out = []
    for ops, reload, va, vb, sids, la, lb in steps:
        ot = []
        for op in ops:
            if op[0] in ("SNew", "SUpd"):
                ot.append("(%s %s %s)" % (op[0], coq_str(op[1]), val(op[2])))
            elif op[0] == "SFile":
                ot.append("(SFile %s %s)" % (coq_str(op[1]), coq_str(op[2])))
            else:
                ot.append("(SDel %s)" % coq_str(op[1]))
        ks = sorted(set(va) | set(vb))
        out.append("(%s, %s, %s, %s, %s, %s, %s, %s)" % (
            coq_list(ot, "sop"), coq_bool(reload), coq_list([coq_str(k) for k in ks], "pystr"),
            coq_list([oval(va.get(k)) for k in ks], "(option pyval)"), coq_list([oval(vb.get(k)) for k in ks], "(option pyval)"),
            coq_list(["(%s, %s)" % (coq_str("s%d" % i), coq_str("g%d" % i)) for i in sids], "(pystr * pystr)"),
            coq_list([oval(x) for x in la], "(option pyval)"), coq_list([oval(x) for x in lb], "(option pyval)")))
    return "(%s, %s)" % (sdb, coq_list(out, "share_step"))


MUTATORS = [("revoke_client", False), ("revoke_grant", False), ("revoke_user", False), ("remove_session", False),
            ("logout", False), ("logout", True)]


def next_session_op(rng, P):
    """operations on sessions that exist: the browser comes back with a cookie, an operator / the end-session endpoint
    changes a session through the API, read-only look-ups by session id, one more export -> import of the restored twin"""
    nS, nC = len(P.sids), len(P.cookies)
    r = rng.random()
    if r < 0.30 and nC:
        k = rng.randrange(nC) if rng.random() < 0.4 else max(0, nC - 1 - rng.randrange(min(3, nC)))
        user = P.cookies[k]["user"] if rng.random() < 0.85 else rng.choice(["diana", "babs"])
        mode = rng.choice(["same", "same", "scope", "scope", "client"])
        return ("authzc", k, user, mode, rng.choice(["client_1", "client_3"]), rng.choice(SCOPES[:5]))
    if r < 0.50 and nS:
        i = rng.randrange(nS)
        if rng.random() < 0.3 and P.tokens:
            own = [t for t in range(len(P.tokens)) if P.tclass[t] != "id_token"]
            if own:
                return ("api", "revoke_token", None, ("tok", rng.choice(own[-5:])), rng.random() < 0.6)
        what, flag = rng.choice(MUTATORS)
        return ("api", what, i, None, flag)
    if r < 0.68 and nS:
        i = rng.randrange(nS)
        if rng.random() < 0.3 and P.tokens:
            return ("lookup", "find_token", i, ("tok", rng.randrange(len(P.tokens))))
        return ("lookup", rng.choice(["getitem", "grant", "info", "authn_event", "authn_events", "client_revoked", "grants",
                                       "grant_argument"]), i)
    if r < 0.80 and nC:
        ids = [t for t in range(len(P.tokens)) if P.tclass[t] == "id_token"]
        return ("end_session", rng.randrange(nC), ("tok", rng.choice(ids)) if ids and rng.random() < 0.7 else None,
                rng.random() < 0.5)
    if r < 0.90:
        return ("redump",)
    return None


def closing_battery(rng, P, focus):
    """for (at most two of) the sessions whose objects lost a sharing relation in a trial restore: a change of the session
    through the API, then every kind of request that resolves the session id (cookie, end-session, look-ups, tokens)"""
    ops = []
    cand = sorted(focus) or list(range(len(P.sids)))
    rng.shuffle(cand)
    for i in cand[:2]:
        what, flag = rng.choice(MUTATORS[:3] + MUTATORS[4:])
        toks = [t for t in range(len(P.tokens)) if P.tclass[t] in ("access_token", "refresh_token")]
        if rng.random() < 0.3 and toks:
            ops.append(("api", "revoke_token", None, ("tok", rng.choice(toks[-4:])), True))
        ops.append(("api", what, i, None, flag))
        for k, c in enumerate(P.cookies):
            if c["sidx"] == i:
                ops.append(("authzc", k, c["user"], "same"))
                ops.append(("authzc", k, c["user"], "scope", None, rng.choice(SCOPES[:3])))
                ops.append(("end_session", k, None, False))
                break
        ops.append(("lookup", "getitem", i))
        if toks:
            ops.append(("introspect", ("tok", toks[-1]), "client_1"))
    return ops


def export(server, how):
    """the exported state as a self-contained value: JSON text when possible, else a deep copy"""
    d = server.context.dump() if how == "context" else server.context.session_manager.dump()
    try:
        return json.dumps(d), None
    except TypeError as e:
        return None, (copy.deepcopy(d), str(e))


def strip_volatile(d):
    d = json.loads(json.dumps(d, default=lambda o: "<%s>" % type(o).__name__))
    kj = d.get("keyjar")
    if isinstance(kj, dict):
        iss = kj.get("issuers", {})
        d["keyjar"] = {i: sorted((k.get("kid", ""), k.get("kty", ""), k.get("use", "")) for b in v.get("bundles", []) for k in b.get("keys", []))
                       for i, v in iss.items()} if isinstance(iss, dict) else "?"
    return d


# one history that puts every clause of the property on both sides of every crash point: pending code, used
# code, live / revoked / expired tokens, usage counter, refresh chain, registered client + its registration
# token, pending and consumed pushed request, seen and unseen client-assertion ids
MATRIX = [
    ("authz", "diana", "client_1", ["openid", "email", "offline_access"], "code"),        # 0: code 0
    ("authz", "babs", "client_2", ["openid", "offline_access"], "code"),                  # 1: code 1
    ("register", 0),                                                                      # 2
    ("par", "client_1", ["openid", "email"]),                                             # 3: request_uri 0
    ("token", ("tok", 0), "client_1", None, "client_1"),                                  # 4: tokens 2,3,4
    ("token", ("tok", 1), "client_2", 1, "client_2"),                                     # 5: tokens 5,6,7 (assertion id 1)
    ("refresh", ("tok", 6), "client_2", None, 1),                                         # 6: replayed assertion id
    ("authz_par", 0, "diana", "client_1"),                                                # 7: code 8
    ("authz_par", 0, "babs", "client_1"),                                                 # 8: consumed request_uri
    ("regread", 0),                                                                       # 9
    ("authz", "diana", ("dyn", 0), ["openid"], "code"),                                   # 10: code 9
    ("token", ("tok", 9), ("dyn", 0), None, ("dyn", 0)),                                  # 11: tokens 10,11
    ("refresh", ("tok", 3), "client_1", None, None),                                      # 12: tokens 12,13,14
    ("revoke", ("tok", 2), "client_1", None),                                             # 13
    ("introspect", ("tok", 2), "client_1"),                                               # 14
    ("userinfo", ("tok", 2)),                                                             # 15: revoked
    ("userinfo", ("tok", 5)),                                                             # 16: live
    ("refresh", ("tok", 6), "client_2", None, 2),                                         # 17: fresh assertion id
    ("userinfo", ("tok", 12)),                                                            # 18: live, from the refresh chain
    ("refresh", ("tok", 3), "client_1", None, None),                                      # 19: rotated-away / reused refresh token
    ("token", ("tok", 0), "client_1", None, "client_1"),                                  # 20: used code
    ("userinfo", ("tok", 12)),                                                            # 21
    ("tick", 601),                                                                        # 22
    ("userinfo", ("tok", 5)),                                                             # 23: expired
    ("introspect", ("tok", 6), "client_1"),                                               # 24
    ("token", ("tok", 8), "client_1", None, "client_1"),                                  # 25: code from the pushed request, expired
]


# one history for the sessions: every way of changing a session through the API, each followed by the requests that
# resolve the session id (cookie of an earlier response, end-session, look-ups, tokens), with re-exports in between
SESSION_MATRIX = [
    ("authz", "diana", "client_1", ["openid", "email"], "code"),                  # 0: code 0, session 0, cookie 0
    ("token", ("tok", 0), "client_1", None, "client_1"),                          # 1: tokens 1 (access), 2 (id)
    ("authz", "babs", "client_3", ["openid", "offline_access"], "code"),          # 2: code 3, session 1, cookie 1
    ("token", ("tok", 3), "client_3", None, "client_3"),                          # 3: tokens 4 (access), 5 (refresh), 6 (id)
    ("authzc", 0, "diana", "same"),                                               # 4: single sign-on, same grant: code 7, cookie 2
    ("authzc", 0, "diana", "scope", None, ["openid"]),                            # 5: new grant on the old authentication: session 2, code 8, cookie 3
    ("lookup", "info", 0),                                                        # 6
    ("end_session", 0, ("tok", 2), True),                                         # 7
    ("api", "revoke_token", None, ("tok", 1), True),                              # 8
    ("userinfo", ("tok", 1)),                                                     # 9: revoked
    ("token", ("tok", 8), "client_1", None, "client_1"),                          # 10: the second grant mints: tokens 9, 10
    ("redump",),                                                                  # 11
    ("api", "revoke_client", 0, None, False),                                     # 12: sessions 0 and 2 die
    ("authzc", 0, "diana", "same"),                                               # 13: login demanded
    ("authzc", 3, "diana", "same"),                                               # 14: login demanded
    ("userinfo", ("tok", 9)),                                                     # 15: dead
    ("introspect", ("tok", 4), "client_3"),                                       # 16: babs untouched
    ("api", "logout", 1, None, True),                                             # 17: babs logs out everywhere
    ("authzc", 1, "babs", "same"),                                                # 18
    ("refresh", ("tok", 5), "client_3", None, None),                              # 19
    ("authz", "diana", "client_1", ["openid", "email"], "code"),                  # 20: new login: session 3, code 11, cookie
    ("redump",),                                                                  # 21
    ("token", ("tok", 11), "client_1", None, "client_1"),                         # 22
    ("api", "revoke_grant", 3, None, False),                                      # 23
    ("authzc", 4, "diana", "same"),                                               # 24
    ("lookup", "getitem", 3),                                                     # 25
    ("api", "remove_session", 3, None, False),                                    # 26
    ("lookup", "getitem", 3),                                                     # 27
    ("authzc", 4, "diana", "scope", None, ["openid", "email"]),                   # 28: the cookie names a session that is gone
    ("end_session", 4, None, False),                                              # 29
]


def restored_twin(ctx, reb, kind, how, js, alt, tab, rec, where):
    """a fresh provider built from the same configuration, with the exported state imported; None if the import raises"""
    import srv_c13
    B = srv_c13.Prov(kind, reb.clock)
    reb.rebind()
    dump = json.loads(js) if js is not None else alt
    try:
        if how == "context":
            srv_c13.restore(B.server, dump)
        else:
            B.ctx.session_manager.load(dump, init_args={"upstream_get": B.ctx.unit_get})
    except Exception as e:
        ctx.violation(SIG_RESTORE, "import of the state exported %s raises %r" % (where, e), rec)
        return None
    B.set_tables(tab)
    return B


SHARE_CASES = []


def provider_history(ctx, rng, reb, kind, n, rich, how="context", fixed=None, p_session=0.0, battery=False, share=False):
    """p_session: share of the steps drawn from next_session_op (cookie re-authorization, API-level revocations and
    removals, end-session, look-ups by session id, re-export of the restored twin); battery: a trial restore after the
    random part tells which sessions have objects whose sharing the export lost, and the history ends with a change of
    those sessions followed by the requests that resolve their ids."""
    import srv, srv_c13
    clock = reb.clock
    clock.now = 1_700_000_000
    kind = dict(kind, sessions=True)
    A = srv_c13.Prov(kind, clock)
    reb.rebind()
    hist, outs, snaps = [], [], []
    jti_ctr = []
    rec = {"kind": kind, "how": how, "history": hist, "outs": outs}
    recorder = ShareRecorder(A) if share else None
    shares = []      # per step: (model operations, database as sdb, views, look-ups) of the original

    def step(op):
        hist.append(op)
        before = dict(A.ctx.session_manager.db.db) if share else None
        outs.append(["ok"] if op[0] == "redump" else A.run(op))
        if share:
            shares.append((recorder.step_ops(before), recorder.state()) + share_views(A))
        js, alt = export(A.server, how)
        if alt is not None and not (A.ctx.par_db and "AuthorizationRequest" in alt[1]):
            ctx.violation("dump-not-json", "exported state is not JSON-serialisable: %s" % alt[1], rec)
        snaps.append((js, alt[0] if alt else None, A.tables(), clock.now, A.snapshot(), A.probes(), alias_classes(A), api_alias_classes(A)))
        ctx.count("prov:" + op[0] + (":" + str(op[1]) if op[0] in ("api", "lookup") else ":" + str(op[3]) if op[0] == "authzc" else ""))
        ctx.count("prov-out:" + str(outs[-1][0]) + (":authzc" if op[0] == "authzc" else ""))

    for i in range(len(fixed) if fixed else n):
        op = None
        if fixed:
            op = fixed[i]
        elif p_session and rng.random() < p_session:
            op = next_session_op(rng, A)
        step(op or next_op(rng, A, jti_ctr, rich))
    if battery and A.sids:
        js, alt, tab, now = snaps[-1][:4]
        T = restored_twin(ctx, reb, kind, how, js, alt, tab, rec, "after the random part")
        focus = compare_aliases(ctx, snaps[-1][6], T, rec, "trial restore")[1] if T is not None else set()
        ctx.count("battery:focus-sessions", len(focus))
        for op in closing_battery(rng, A, focus):
            step(op)
    end = clock.now
    depends = False
    sess_dep = False
    flags = {}
    for i, (js, alt, tab, now, snapA, probesA, aliasA, apiA) in enumerate(snaps):
        where = "after step %d (%r)" % (i, hist[i])
        B = restored_twin(ctx, reb, kind, how, js, alt, tab, rec, where)
        if B is None:
            continue
        if i == len(snaps) - 1:      # the original still is in the state that was exported: attribute census
            provider_census(ctx, A, B, kind, dict(rec, restore_point=i), "provider (%s export) restored %s" % (how, where))
            reb.rebind()
        clock.now = now
        snapB = B.snapshot()
        if snapB != snapA:
            ctx.violation(SIG_RESTORE, "session tree differs right after import at step %d: %s" % (
                i, [k for k in set(snapA) | set(snapB) if snapA.get(k) != snapB.get(k)][:3]), rec)
        if js is not None and how == "context":
            try:
                again = strip_volatile(B.ctx.dump())
                first = strip_volatile(json.loads(js))
                if again != first:
                    ctx.violation(SIG_REDUMP, "dump(load(dump)) differs from dump at step %d in %s" % (
                        i, [k for k in first if first.get(k) != again.get(k)]), rec)
            except Exception as e:
                ctx.violation(SIG_REDUMP, "re-export after import raises %r" % (e,), rec)
        # ---- sharing: the access paths that led to one object in the original at this crash point
        lost = compare_aliases(ctx, aliasA, B, dict(rec, restore_point=i), "restored " + where)[0]
        if not flags.get("split"):      # (reported once per history: every later crash point shows the same split)
            flags["split"] = compare_api_aliases(ctx, apiA, B, dict(rec, restore_point=i), "restored " + where)
        pb = B.probes()
        looked = pb != probesA
        if looked:
            d = next((x, y) for x, y in zip(pb, probesA) if x != y)
            ctx.violation(SIG_LOOKUP, "restored %s: right after the import the look-up %s of session %d answers %s, the original %s"
                          % (where, d[0][1], d[0][0], json.dumps(d[0][2])[:200], json.dumps(d[1][2])[:200]), dict(rec, restore_point=i))
        msteps = []
        for j in range(i + 1, len(hist)):
            if hist[j][0] == "redump":      # the restored twin is exported and imported once more; the original just runs on
                js2, alt2 = export(B.server, how)
                B2 = restored_twin(ctx, reb, kind, how, js2, alt2[0] if alt2 else None, B.tables(), rec, "by the twin restored %s, re-exported at step %d" % (where, j))
                if B2 is None:
                    break
                B = B2
                o = ["ok"]
                ctx.count("chain:re-export-of-a-restored-twin")
            else:
                o = B.run(hist[j])
            if share:
                vb, lb = share_views(B)
                n_s = min(len(lb), len(shares[j][3]))
                msteps.append((shares[j][0], hist[j][0] == "redump", shares[j][2], vb, list(range(n_s)), shares[j][3][:n_s], lb[:n_s]))
            if o != outs[j]:
                sig = SIG_JWKS if kind.get("pin") == "jwks_def" else SIG_RESTORE
                ctx.violation(sig, "restored after step %d (%r): op %d %r answered %s by the restored provider, %s by the original"
                              % (i, hist[i], j, hist[j], json.dumps(o)[:300], json.dumps(outs[j])[:300]),
                              dict(rec, restore_point=i, op_index=j))
                break
            pb = B.probes()
            if pb != snaps[j][5] and not looked:
                looked = True      # (once per crash point; the history goes on: what the requests answer is judged too)
                d = next(((x, y) for x, y in zip(pb, snaps[j][5]) if x != y), (pb[-1:] or [None], snaps[j][5][-1:] or [None]))
                ctx.violation(SIG_LOOKUP, "restored %s: after op %d %r the look-up %s of session %s answers %s in the restored provider, %s in the original"
                              % (where, j, hist[j], d[0][1], d[0][0], json.dumps(d[0][2])[:200], json.dumps(d[1][2])[:200]),
                              dict(rec, restore_point=i, op_index=j))
            if outs[j][0] == "ok" and hist[j][0] in ("token", "refresh", "userinfo", "introspect", "regread", "authz_par"):
                depends = True
            if hist[j][0] in ("authzc", "end_session", "lookup") and outs[j][0] in ("ok", "login") and \
                    any(h[0] == "api" and o2[0] == "ok" for h, o2 in zip(hist[i + 1:j], outs[i + 1:j])):
                sess_dep = True        # a session changed AFTER the restore, then resolved by its id
        else:
            # ---- copies that went stale: objects that were one in the original and are now two with different contents
            for shape, paths, _ in lost:
                try:
                    objs = [resolve(B, p) for p in paths]
                except Exception:
                    continue
                if len(set(object_view(x) for x in objs)) > 1:
                    ctx.count("alias:lost-and-stale-at-end:" + shape)
        if share and msteps and (i % 4 == 0 or hist[i + 1][0] == "api" or not ctx.quick):
            SHARE_CASES.append((share_case(shares[i][1], msteps),
                                {"share": "Model.ImpExp sd_dump / sd_load / sd_exec against the session database", "kind": kind, "how": how,
                                 "history": list(hist), "restore_point": i, "steps": len(msteps)}))
    clock.now = end
    ctx.case_seen({"kind": kind, "how": how, "history": hist, "outs": [o[0] for o in outs]}, depends or sess_dep)
    if p_session or battery:
        ctx.count("session-history:" + ("change-then-resolve-after-restore" if sess_dep else "no-change-then-resolve"))
    return A


def jwks_def_witness(ctx, reb):
    """fixed witness of the recorded finding: token keys pinned through `jwks_def` are not used"""
    import srv_c13
    clock = reb.clock
    clock.now = 1_700_000_000
    kind = {"pin": "jwks_def"}
    A = srv_c13.Prov(kind, clock)
    reb.rebind()
    h = [("authz", "diana", "client_1", ["openid", "offline_access"], "code"), ("token", ("tok", 0), "client_1")]
    o0 = A.run(h[0])
    js, _ = export(A.server, "context")
    tab = A.tables()
    o1 = A.run(h[1])
    B = srv_c13.Prov(kind, clock)
    reb.rebind()
    srv_c13.restore(B.server, json.loads(js))
    B.set_tables(tab)
    clock.now = 1_700_000_000
    o1b = B.run(h[1])
    rec = {"kind": kind, "history": h, "original": [o0[0], o1[0]], "restored": o1b}
    ctx.case_seen(rec, True)
    if o1b != o1:
        ctx.violation(SIG_JWKS, "token_handler_args.jwks_def (key file): a provider restored from the same configuration and key "
                                "file answers %s to the redemption of a pending code, the original answers %s"
                      % (json.dumps(o1b)[:120], json.dumps(o1)[:60]), rec)


def session_config_witness(ctx, reb):
    """fixed witness of the recorded finding: a provider configured with session_params.sub_func (salted public subject
    identifiers); EndpointContext.load replaces the configured session manager by a default-constructed one, so logins
    after a context-level restore get subject identifiers from the built-in minters"""
    import srv_c13
    clock = reb.clock
    clock.now = 1_700_000_000
    kind = {"jwt_access": False, "pin": "pwsalt", "sub_func": "salted", "sessions": True}
    h = [("authz", "diana", "client_1", ["openid"], "code"), ("token", ("tok", 0), "client_1", None, "client_1"), ("userinfo", ("tok", 1)),
         ("authz", "diana", "client_1", ["openid"], "code"), ("token", ("tok", 3), "client_1", None, "client_1"), ("userinfo", ("tok", 4))]
    A = srv_c13.Prov(kind, clock)
    reb.rebind()
    outs = [A.run(op) for op in h[:3]]
    js, alt = export(A.server, "context")
    rec = {"kind": kind, "how": "context", "history": h, "restore_point": 2, "original": outs}
    B = restored_twin(ctx, reb, kind, "context", js, alt[0] if alt else None, A.tables(), rec, "after step 2")
    if B is None:
        return
    provider_census(ctx, A, B, kind, rec, "provider with configured session_params.sub_func, restored after step 2")
    reb.rebind()
    outs += [A.run(op) for op in h[3:]]
    clock.now = 1_700_000_000
    outs_b = [B.run(op) for op in h[3:]]
    rec["restored"] = outs_b
    ctx.case_seen(rec, True)
    sub = lambda o: o[1].get("sub") if o[0] == "ok" and isinstance(o[1], dict) else None
    if outs[2][0] != "ok" or sub(outs[5]) != sub(outs[2]):
        ctx.violation(SIG_RESTORE, "witness history does not run as expected on the original: %s" % json.dumps(outs)[:300], rec)
    elif outs_b != outs[3:]:
        j = next(k for k in range(3) if outs_b[k] != outs[3 + k])
        ctx.violation(SIG_SMCONF, "session_params.sub_func configured (salted public identifiers), context exported after step 2 and imported into a "
                                  "fresh provider from the same configuration: op %d %r answered %s by the restored provider, %s by the original "
                                  "(subject of the same user at the same client before the export: %s)"
                      % (3 + j, h[3 + j], json.dumps(outs_b[j])[:200], json.dumps(outs[3 + j])[:200], sub(outs[2])), rec)


def par_json_witness(ctx, reb):
    import srv_c13
    clock = reb.clock
    clock.now = 1_700_000_000
    A = srv_c13.Prov({"pin": "pwsalt"}, clock)
    reb.rebind()
    o = A.run(("par", "client_1", ["openid"]))
    js, alt = export(A.server, "context")
    rec = {"history": [("par", "client_1", ["openid"])], "out": o}
    ctx.case_seen(rec, True)
    if o[0] == "ok" and js is None:
        ctx.violation(SIG_PARJSON, "with a pushed authorization request pending, EndpointContext.dump() is not exportable: %s" % alt[1], rec)


# ======================================================================================== (3) relying party
def rp_history(ctx, rng, n):
    import srv_c13
    A = srv_c13.RPx()
    hist, outs, snaps = [], [], []
    rec = {"rp_history": hist, "outs": outs}
    for _ in range(n):
        r = rng.random()
        ns = len(A.states)
        i = rng.randrange(ns) if ns and rng.random() < 0.9 else ns + 1
        if r < 0.25 or not ns:
            op = ("begin", rng.choice([["openid"], ["openid", "email"], ["openid", "offline_access"]]))
        elif r < 0.42:
            op = ("authresp", i, "code-%d" % rng.randint(0, 99))
        elif r < 0.55:
            op = ("token_req", i)
        elif r < 0.67:
            op = ("tokenresp", i, "at-%d" % rng.randint(0, 99), rng.choice(["", "rt-%d" % rng.randint(0, 99)]))
        elif r < 0.75:
            op = ("refresh_req", i)
        elif r < 0.83:
            op = ("userinfo_req", i)
        elif r < 0.90:
            op = ("nonce_owner", i)
        elif r < 0.96:
            op = ("known", i)
        else:
            op = ("remove", i)
        hist.append(op)
        outs.append(A.run(op))
        snaps.append((json.dumps(A.dump()), A.tables(), A.snapshot()))
        ctx.count("rp:" + op[0])
    depends = False
    for i, (js, tab, snapA) in enumerate(snaps):
        B = srv_c13.RPx()
        try:
            B.load(json.loads(js))
        except Exception as e:
            ctx.violation(SIG_RP, "RP import of the state exported after step %d raises %r" % (i, e), rec)
            continue
        B.set_tables(tab)
        if B.snapshot() != snapA:
            sa, sb = snapA, B.snapshot()
            ctx.violation(SIG_RP, "RP state differs right after import at step %d in %s" % (i, [k for k in sa if sa[k] != sb.get(k)]), rec)
        try:
            if strip_volatile(B.dump()) != strip_volatile(json.loads(js)):
                a, b = strip_volatile(json.loads(js)), strip_volatile(B.dump())
                ctx.violation(SIG_REDUMP, "RP dump(load(dump)) differs in %s" % [k for k in a if a.get(k) != b.get(k)], rec)
        except Exception as e:
            ctx.violation(SIG_REDUMP, "RP re-export raises %r" % (e,), rec)
        for j in range(i + 1, len(hist)):
            o = B.run(hist[j])
            if o != outs[j]:
                ctx.violation(SIG_RP, "RP restored after step %d: op %d %r answered %s, original %s"
                              % (i, j, hist[j], json.dumps(o)[:300], json.dumps(outs[j])[:300]), dict(rec, restore_point=i))
                break
            if outs[j][0] == "ok" and hist[j][0] in ("token_req", "refresh_req", "userinfo_req", "nonce_owner"):
                depends = True
    ctx.case_seen({"rp_history": hist, "outs": [o[0] for o in outs]}, depends)


# ======================================================================================== (3b) relying party: sessions
SIG_RP_STATE = "rp-restore-state-diverges"
SIG_SMCONF = "restore-drops-session-manager-config"
# what the SessionManager constructor takes from conf["session_params"] (Model.ImpExpReq.session_manager_config_attrs)
SM_CONFIG_ATTRS = ("sub_func", "remove_inactive_token", "remember_token", "node_type", "node_info_class")
SIG_CENSUS = "state-not-exported:"
# attributes that are knowingly neither exported nor rebuilt by load(): (class, attribute) -> why that cannot be noticed
CENSUS_TRANSIENT = {
    ("Grant", "id"): "read only by the call that creates the grant (last part of the branch key the grant is filed under, which is exported)",
    ("ExchangeGrant", "id"): "as Grant.id",
    ("SessionManager", "conf"): "constructor input: read in __init__ only (what it configures is compared attribute by attribute)",
    ("SessionManager", "userinfo"): "written by EndpointContext.do_userinfo, never read (the context's own userinfo attribute is what is used)",
}
CENSUS_CASES = {}
CUR_CASES = []

RP_SESSION_MATRIX = [
    ("begin", ["openid"]),                              # 0: session 0
    ("finalize", 0, "diana", "sid-0", True),            # 1: nonce, sub, sid of session 0 bound
    ("begin", ["openid", "email"]),                     # 2: session 1
    ("finalize", 1, "babs", "sid-1", True),             # 3
    ("refresh", 0, True),                               # 4
    ("userinfo", 1),                                    # 5
    ("logout", 0),                                      # 6: logout state 0 bound to session 0
    ("lookup", "lstate", 0),                            # 7
    ("bc_logout", "sid", 1, True),                      # 8: back-channel logout of session 1 by sid, session cleared
    ("lookup", "sub", 1),                               # 9: gone
    ("bc_logout", "sub", 1, False),                     # 10: a second logout token for the cleared subject
    ("lookup", "nonce", 1),                             # 11
    ("logout_cb", 0, True),                             # 12: the post-logout redirect comes back, session 0 cleared
    ("lookup", "sub", 0),                               # 13
    ("lookup", "sid", 0),                               # 14
    ("lookup", "lstate", 0),                            # 15
    ("bc_logout", "sub", 0, False),                     # 16
    ("begin", ["openid"], ("nonce", 0)),                # 17: a new request re-uses the nonce of the cleared session 0
    ("redump",),                                        # 18
    ("finalize", 2, "diana", "sid-2", False),           # 19
    ("lookup", "nonce", 0),                             # 20: now session 2's
    ("begin", ["openid"]),                              # 21: session 3
    ("finalize", 3, "diana", "sid-3", True),            # 22: the subject moves to session 3
    ("clear", 2),                                       # 23
    ("lookup", "sub", 0),                               # 24: still session 3
    ("fc_logout", 3),                                   # 25: front-channel logout names sid-3
    ("info", 3),                                        # 26
    ("tick", 700),                                      # 27
    ("active", 1),                                      # 28
    ("clear", 0),                                       # 29: clearing a session that is gone
]
RP_REMOVALS = ("clear", "logout_cb", "bc_logout", "fc_logout")


def next_rp_session_op(rng, A):
    nS, nL = len(A.states), len(A.lstates)
    done = [i for i, s in enumerate(A.sess) if s]
    r = rng.random()
    i = rng.randrange(nS) if nS and rng.random() < 0.93 else nS + 1
    d = rng.choice(done) if done and rng.random() < 0.9 else i
    if r < 0.16 or not nS:
        reuse = ("nonce", rng.randrange(nS)) if nS and rng.random() < 0.25 else None
        return ("begin", rng.choice([["openid"], ["openid", "email"], ["openid", "offline_access"]]), reuse)
    if r < 0.32:
        pend = [k for k in range(nS) if k >= len(A.sess) or not A.sess[k]]
        k = rng.choice(pend) if pend and rng.random() < 0.8 else i
        sub = rng.choice(A.SUBS)
        return ("finalize", k, sub, rng.choice(["sid-%d" % k, "sid-%d" % k, None, "sid-shared"]), rng.random() < 0.7)
    if r < 0.38:
        return ("refresh", d, rng.random() < 0.5)
    if r < 0.43:
        return ("userinfo", d)
    if r < 0.51:
        return ("clear", d if rng.random() < 0.8 else i)
    if r < 0.58:
        return ("logout", d)
    if r < 0.64 and nL:
        return ("logout_cb", rng.randrange(nL) if rng.random() < 0.9 else nL, rng.random() < 0.8)
    if r < 0.73:
        return ("bc_logout", rng.choice(["sub", "sid"]), d, rng.random() < 0.7)
    if r < 0.77:
        return ("fc_logout", d)
    if r < 0.90:
        kind = rng.choice(["nonce", "sub", "sid", "lstate"])
        return ("lookup", kind, rng.randrange(nL) if kind == "lstate" and nL else d)
    if r < 0.93:
        return ("info", d)
    if r < 0.95:
        return ("active", d)
    if r < 0.97:
        return ("tick", rng.choice([1, 200, 301, 601]))
    return ("redump",)


def rp_export_view(X):
    """the export of a relying party, comparable between twins (random states / nonces -> indices, keys -> ids)"""
    d = X.dump()
    c = strip_volatile(d["context"])
    if isinstance(c.get("keyjar"), dict):
        c["keyjar"] = {k: sorted(set(map(tuple, v))) if isinstance(v, list) else v for k, v in c["keyjar"].items()}
    return X.canon({"context": c, "services": json.loads(json.dumps(d["services"], default=lambda o: "<%s>" % type(o).__name__))})


def census_report(ctx, rows, rec, where, pending=None):
    """verdicts of the attribute census + the (class, attributes) rows for Model.ImpExp.chk_census; with `pending` the
    verdicts are collected (first one per attribute) and issued by the caller when the history is complete"""
    per_class = {}
    for cls, a, verdict, va, vf, vb in rows:
        per_class.setdefault(cls, set()).add(a)
        short_cls = cls.rsplit(".", 1)[-1]
        if verdict != "lost":
            ctx.count("census:%s" % verdict)
            continue
        if (short_cls, a) in CENSUS_TRANSIENT:
            ctx.count("census:transient:%s.%s" % (short_cls, a))
            continue
        if short_cls == "SessionManager" and a in SM_CONFIG_ATTRS and vf == va:
            # (recorded finding, kept narrow: configuration - a fresh provider has it - that the session manager's constructor
            #  took from session_params and that the session manager built by EndpointContext.load does not have)
            v = (SIG_SMCONF, "%s: SessionManager.%s as configured (session_params) is %s in the live and in a fresh provider, %s in the "
                 "restored one: EndpointContext.load builds a default session manager" % (where, a, json.dumps(va, default=str)[:120],
                                                                                          json.dumps(vb, default=str)[:120]),
                 dict(rec, census={"class": cls, "attribute": a}))
            if pending is None:
                ctx.violation(*v)
            elif not any(p[0] == v[0] for p in pending):
                pending.append(v)
            continue
        v = (SIG_CENSUS + "%s.%s" % (short_cls, a),
             "%s: attribute %s of a live %s is neither in the class's `parameter` / special_load_dump tables nor rebuilt by load(): "
             "live %s, fresh instance %s, restored instance %s" % (where, a, cls, json.dumps(va, default=str)[:160],
                                                                   json.dumps(vf, default=str)[:100], json.dumps(vb, default=str)[:100]),
             dict(rec, census={"class": cls, "attribute": a}))
        if pending is None:
            ctx.violation(*v)
        elif not any(p[0] == v[0] for p in pending):
            pending.append(v)
    for cls, attrs in per_class.items():
        key = (cls, tuple(sorted(attrs)))
        if key not in CENSUS_CASES:
            CENSUS_CASES[key] = ("(%s, %s)" % (coq_str(cls), coq_list([coq_str(a) for a in key[1]], "pystr")),
                                 {"census": cls, "attributes": list(key[1]), "seen": where})


class Interner:
    """literals and repeated sub-terms of the case files, emitted once as Definitions (elaborating literals is what makes
    coqc slow)"""

    def __init__(self):
        self.defs, self.names = [], {}

    def share(self, text, ty, prefix):
        n = self.names.get((text, ty))
        if n is None:
            n = "%s_%d" % (prefix, len(self.defs))
            self.names[(text, ty)] = n
            self.defs.append("Definition %s : %s := %s.\n" % (n, ty, text))
        return n

    def prelude(self):
        return "".join(self.defs)


def check_cases_prelude(ctx, imports, case_type, checker, cases, prelude, shard=400, label="cases", diag=None):
    """engine.Ctx.coq_check_cases with a prelude of shared Definitions in every shard (same verdicts and bookkeeping)"""
    from concurrent.futures import ThreadPoolExecutor
    jobs = []
    for i in range(0, len(cases), shard):
        part = cases[i:i + shard]
        ctx.shard_seq += 1
        name = "%s_%s_%03d" % (ctx.prop, label, ctx.shard_seq)
        body = "%sDefinition cases : list (%s) := [\n%s\n].\nEval vm_compute in (bad_indices (%s) cases).\n" % (
            prelude, case_type, ";\n".join(t for t, _ in part), checker)
        jobs.append((name, body, part))
    with ThreadPoolExecutor(max_workers=min(E.NCPU, max(1, len(jobs)))) as ex:
        results = list(ex.map(lambda job: (job, ctx.coq_eval(job[0], imports, job[1])), jobs))
    bad = []
    for (name, body, part), (rc, out, vals) in results:
        if rc != 0 or not vals:
            ctx.broken.append("correspondence shard %s does not evaluate: %s" % (name, out.strip()[-600:]))
            continue
        try:
            idx = E.parse_nat_list(vals[-1])
        except ValueError as e:
            ctx.broken.append("correspondence shard %s: %s" % (name, e))
            continue
        ctx.traces += len(part)
        dvals = {}
        if idx and diag:
            dbody = prelude + "".join("Eval vm_compute in (%s (%s)).\n" % (diag, part[k][0]) for k in idx[:3])
            drc, dout, dv = ctx.coq_eval(name + "_diag", imports, dbody)
            dvals = dict(zip(idx[:3], dv))
        for k in idx:
            bad.append(part[k][1])
            ctx.mismatch("model and implementation disagree (%s, %s[%d])" % (label, name, k), part[k][1],
                         model=(dvals.get(k) or part[k][0])[:3000])
    return bad


CUR_INTERN = Interner()


def cur_case(log, canon, I=CUR_INTERN):
    """the calls the library made on the RP's state store (+ restores, + the store after every request) as a trace of
    Model.ImpExp.cur_step; values other than nonces are opaque to the store: -> small integers"""
    table = {}
    ks = lambda k: I.share(coq_bytes(str(canon(k)).encode("utf-8")), "pystr", "k")

    def val(k, v):
        v = canon(v)
        if k == "nonce" and isinstance(v, str):
            return "(VStr %s)" % ks(v)
        return "(VInt %d)" % table.setdefault(json.dumps(v, sort_keys=True, default=str), len(table))

    def items(d):
        return I.share(coq_list(["(%s, %s)" % (ks(k), val(k, v)) for k, v in d.items()], "(pystr * pyval)"), "list (pystr * pyval)", "r")

    def err(name):
        return "(CErrR %s)" % EXC[name] if name in EXC else None

    out = []
    last_snap = None
    for name, a, (st, r) in log:
        if name == "set":
            t = ("(CSet %s %s)" % (ks(a[0]), items(a[1])), "CUnit")
        elif name == "update":
            if not isinstance(a[1], dict):
                return None
            t = ("(CUpd %s %s)" % (ks(a[0]), items(a[1])), "(CDictR %s)" % items(r) if st == "ok" else err(r))
        elif name == "bind_key":
            t = ("(CBind %s %s)" % (ks(a[0]), ks(a[1])), "CUnit" if st == "ok" else err(r))
        elif name == "remove_state":
            t = ("(CRemove %s)" % ks(a[0]), "CUnit")
        elif name == "get_base_key":
            t = ("(CBase %s)" % ks(a[0]), "(CStrR %s)" % ks(r) if st == "ok" else err(r))
        elif name == "get":
            t = ("(CGet %s)" % ks(a[0]), "(CDictR %s)" % items(r) if st == "ok" else err(r))
        elif name == "snap":
            db, mp = r
            t = ("CSnap", "(CStateR %s %s)" % (
                I.share(coq_list(["(%s, (VDict %s))" % (ks(k), items(v)) for k, v in db.items()], "(pystr * pyval)"), "list (pystr * pyval)", "d"),
                I.share(coq_list(["(%s, %s)" % (ks(k), ks(v)) for k, v in mp.items()], "(pystr * pystr)"), "list (pystr * pystr)", "m")))
            if t == last_snap:
                continue        # (nothing changed since the last look at the whole store)
            last_snap = t
        elif name == "restore":
            t = ("CRestore", "CUnit")
            last_snap = None
        else:
            continue
        if t[1] is None:
            return None
        out.append("(%s, %s)" % t)
    return coq_list(out, "(cop * cout)")


def rp_session_history(ctx, rng, clock, reb, variant, n, fixed=None):
    """a relying party history; after EVERY step the RP is exported and a fresh RP imports it (census of the attributes
    at that moment: live vs fresh vs restored), then every twin runs the rest of the history: outcome, state store and a
    further export are compared with the original's after every step"""
    import srv_c13
    clock.now = 1_700_000_000
    A = srv_c13.RPs(variant)
    A.clock = clock
    F = srv_c13.RPs(variant)
    reb.rebind()
    hist, outs, snaps, twins, pending = [], [], [], [], []
    rec = {"rp_session_history": hist, "variant": variant, "outs": outs}
    for k in range(len(fixed) if fixed else n):
        op = fixed[k] if fixed else next_rp_session_op(rng, A)
        hist.append(op)
        outs.append(["ok"] if op[0] == "redump" else A.run(op))
        ctx.count("rps:" + op[0] + (":" + str(op[1]) if op[0] in ("lookup", "bc_logout") else ""))
        ctx.count("rps-out:" + op[0] + ":" + str(outs[-1][0] if outs[-1][0] != "exc" else outs[-1][1]))
        js = json.dumps(A.dump(), default=lambda o: "<%s>" % type(o).__name__)
        snaps.append((A.tables(), clock.now, A.snapshot(), rp_export_view(A), len(A.log)))
        B = srv_c13.RPs(variant)
        B.clock = clock
        try:
            B.load(json.loads(js))
        except Exception as e:
            ctx.violation(SIG_RP, "RP import of the state exported after step %d (%r) raises %r" % (k, op, e), rec)
            twins.append(None)
            continue
        B.set_tables(snaps[-1][0])
        twins.append(B)
        census_report(ctx, srv_c13.census_rows(A.client, F.client, B.client), dict(rec, restore_point=k),
                      "relying party (%s) after step %d %r" % (variant, k, op), pending)
    end = clock.now
    dep = False
    for i, B in enumerate(twins):
        if B is None:
            continue
        tab, now, snapA, expA, nlog = snaps[i]
        clock.now = now
        where = "RP restored after step %d (%r)" % (i, hist[i])
        r2 = dict(rec, restore_point=i)
        if B.snapshot() != snapA:
            ctx.violation(SIG_RP_STATE, "%s: state store differs right after the import" % where, r2)
        if rp_export_view(B) != expA:
            a, b = expA["context"], rp_export_view(B)["context"]
            ctx.violation(SIG_REDUMP, "RP dump(load(dump)) differs in %s" % [k for k in a if a.get(k) != b.get(k)], r2)
        removed = False
        for j in range(i + 1, len(hist)):
            if hist[j][0] == "redump":
                B2 = srv_c13.RPs(variant)
                B2.clock = clock
                try:
                    B2.load(json.loads(json.dumps(B.dump(), default=lambda o: "<%s>" % type(o).__name__)))
                except Exception as e:
                    ctx.violation(SIG_RP, "%s: import of its re-export at step %d raises %r" % (where, j, e), r2)
                    break
                B2.set_tables(B.tables())
                B2.log[:0] = B.log
                B, o = B2, ["ok"]
                ctx.count("rps-chain:re-export-of-a-restored-twin")
            else:
                o = B.run(hist[j])
            r3 = dict(r2, op_index=j)
            if o != outs[j]:
                ctx.violation(SIG_RP, "%s: op %d %r answered %s by the restored RP, %s by the original"
                              % (where, j, hist[j], json.dumps(o)[:300], json.dumps(outs[j])[:300]), r3)
                break
            if B.snapshot() != snaps[j][2]:
                sa, sb = snaps[j][2], B.snapshot()
                diff = {k: (sa[k2].get(k), sb[k2].get(k)) for k2 in ("db", "map") for k in set(sa[k2]) | set(sb[k2]) if sa[k2].get(k) != sb[k2].get(k)}
                ctx.violation(SIG_RP_STATE, "%s: after op %d %r the state store of the restored RP differs from the original's (key: original / restored): %s"
                              % (where, j, hist[j], json.dumps(diff, default=str)[:400]), r3)
                break
            if rp_export_view(B) != snaps[j][3]:
                a, b = snaps[j][3]["context"], rp_export_view(B)["context"]
                ctx.violation(SIG_RP_STATE, "%s: after op %d %r a further export of the restored RP differs from the original's export in %s"
                              % (where, j, hist[j], [k for k in a if a.get(k) != b.get(k)] or ["services"]), r3)
                break
            if hist[j][0] in RP_REMOVALS and outs[j][0] == "ok":
                removed = True
            elif removed and hist[j][0] in ("lookup", "bc_logout", "logout_cb", "fc_logout", "begin", "info"):
                dep = True        # a session removed AFTER the restore, then a request that resolves a key
        # the store-level calls of original (up to the export) and twin (after it) through Model.ImpExp.cur_step
        if srv_c13._CUR_SAVED and (not ctx.quick or i % 3 == 0 or (i + 1 < len(hist) and hist[i + 1][0] in RP_REMOVALS)):
            t = cur_case(A.log[:nlog] + B.log, B.canon)
            if t is None:
                ctx.unmodelled += 1
            else:
                CUR_CASES.append((t, {"rp_store_trace": "calls on Current of the original up to the export, of the twin after it",
                                      "variant": variant, "history": list(hist), "restore_point": i}))
    clock.now = end
    for sig, what, case in pending:      # census verdicts of this history (first crash point per attribute)
        ctx.violation(sig, what, dict(case, rp_session_history=list(hist), outs=list(outs)))
    ctx.case_seen({"rp_session_history": hist, "variant": variant, "outs": [o[0] for o in outs]}, dep)
    ctx.count("rp-session-history:" + ("removal-then-resolve-after-restore" if dep else "no-removal-then-resolve"))


def cur_traces(ctx, rng, n):
    """random call sequences on a bare idpyoidc.client.current.Current, with export -> JSON -> import into Current() at
    random points, against Model.ImpExp.cur_step over the regenerated table of the class"""
    from idpyoidc.client.current import Current
    cases = []
    for t in range(n):
        c = Current()
        keys = ["s%d" % i for i in range(3)]
        bound = ["n0", "n1", "sub", "sid", "s0"]
        log = []
        for _ in range(rng.randint(6, 22)):
            r = rng.random()
            k = rng.choice(keys)
            try:
                if r < 0.12:
                    info = {"iss": "i", "nonce": rng.choice(bound[:2])} if rng.random() < 0.7 else {}
                    c.set(k, copy.deepcopy(info))
                    log.append(("set", [k, info], ("ok", None)))
                elif r < 0.30:
                    info = rng.choice([{"code": "c"}, {"nonce": rng.choice(bound[:2]), "x": 1}, {"access_token": "a", "iss": "j"}, {}])
                    res = c.update(k, copy.deepcopy(info))
                    log.append(("update", [k, info], ("ok", copy.deepcopy(res))))
                elif r < 0.50:
                    fro = rng.choice(bound)
                    try:
                        c.bind_key(fro, k)
                        log.append(("bind_key", [fro, k], ("ok", None)))
                    except ValueError:
                        log.append(("bind_key", [fro, k], ("exc", "ValueError")))
                elif r < 0.62:
                    c.remove_state(k)
                    log.append(("remove_state", [k], ("ok", None)))
                elif r < 0.78:
                    b = rng.choice(bound)
                    try:
                        log.append(("get_base_key", [b], ("ok", c.get_base_key(b))))
                    except KeyError:
                        log.append(("get_base_key", [b], ("exc", "KeyError")))
                elif r < 0.86:
                    try:
                        log.append(("get", [k], ("ok", copy.deepcopy(c.get(k)))))
                    except KeyError:
                        log.append(("get", [k], ("exc", "KeyError")))
                else:
                    c = Current().load(json.loads(json.dumps(c.dump())))
                    log.append(("restore", [], ("ok", None)))
            except Exception as e:
                ctx.violation(SIG_RP, "Current: %r" % (e,), {"current_trace": log})
                break
            log.append(("snap", [], ("ok", (copy.deepcopy(c._db), copy.deepcopy(c._map)))))
            ctx.count("cur:" + log[-2][0])
        rec = {"current_trace": [(x[0], x[1]) for x in log if x[0] != "snap"]}
        ctx.case_seen(rec, any(x[0] == "restore" for x in log) and any(x[0] == "remove_state" for x in log))
        cases.append((cur_case(log, lambda x: x), rec))
    return cases


def provider_census(ctx, A, B, kind, rec, where):
    """attribute census of the provider: every ImpExp instance reachable from the context of the live provider against a
    fresh provider (same configuration) and the twin restored from its export"""
    import srv_c13
    F = srv_c13.Prov(kind, A.clock)
    census_report(ctx, srv_c13.census_rows(A.server.context, F.server.context, B.server.context), rec, where)



# ======================================================================================== (4) ImpExp codec
def short(s):
    """long opaque strings (token values, keys) are replaced by a digest on both sides: literals stay small"""
    if len(s) > 100 and not s.startswith("BYTES:"):
        import hashlib
        return "LONG:" + hashlib.sha1(s.encode("utf-8", "replace")).hexdigest()
    return s


def cv(v):
    """Python value -> Gallina pyval (Message instances become the model's message objects)"""
    from idpyoidc.message import Message
    if v is None:
        return "VNone"
    if v is True or v is False:
        return "(VBool %s)" % coq_bool(v)
    if isinstance(v, int):
        return "(VInt %s)" % coq_z(v)
    if isinstance(v, str):
        return "(VStr %s)" % coq_str(short(v))
    if isinstance(v, Message):
        return "(mk_msg %s %s)" % (coq_str(type(v).__module__ + "." + type(v).__name__), cv_items(v.to_dict()))
    if isinstance(v, (list, tuple)):
        return "(VList %s)" % coq_list([cv(x) for x in v], "pyval")
    if isinstance(v, dict):
        return "(VDict %s)" % cv_items(v)
    raise ValueError("no pyval for %r" % (v,))


def cv_items(d):
    return coq_list(["(%s, %s)" % (coq_str(k), cv(x)) for k, x in d.items()], "(pystr * pyval)")


def representable(v):
    from idpyoidc.message import Message
    if v is None or isinstance(v, (bool, int, str)):
        return True
    if isinstance(v, Message):
        return representable(v.to_dict())
    if isinstance(v, (list, tuple)):
        return all(representable(x) for x in v)
    if isinstance(v, dict):
        return all(isinstance(k, str) and representable(x) for k, x in v.items())
    return False


def cv_loaded(x, y):
    """canonical form of load_attr's result y for input x: bytes made from a 'BYTES:' string -> the model's marker"""
    if isinstance(y, bytes) and isinstance(x, str) and x.startswith("BYTES:"):
        return "(VObj [(s_BYTES, VStr %s)])" % coq_str(x[6:])
    if isinstance(y, list) and isinstance(x, list) and len(x) == len(y):
        return "(VList %s)" % coq_list([cv_loaded(a, b) for a, b in zip(x, y)], "pyval")
    if isinstance(y, dict) and isinstance(x, dict) and list(x) == list(y):
        return "(VDict %s)" % coq_list(["(%s, %s)" % (coq_str(k), cv_loaded(x[k], y[k])) for k in y], "(pystr * pyval)")
    return cv(y)


EXC = {"AttributeError": "AttributeError", "ValueError": "ValueError", "KeyError": "KeyError", "TypeError": "TypeError",
       "IndexError": "IndexError"}
MARKERS = [(None, "PNone"), (0, "PInt"), ("", "PStr"), (bool, "PBool"), ({}, "PDict"), ([], "PList"), ("DICT_TYPE", "PDictType")]


def gen_json(rng, depth=0):
    r = rng.random()
    if depth > 2 or r < 0.45:
        return rng.choice(["", "x", "BYTES:QUJD", "BYTES:", "BYTE", "bytes:QQ==", "BYTES:!!", "class", " s ", "å", 0, 1, -7, True, False, None,
                           "upstream_get", "BYTES:QQ=="])
    if r < 0.7:
        return [gen_json(rng, depth + 1) for _ in range(rng.randint(0, 3))]
    d = {}
    for _ in range(rng.randint(0, 3)):
        k = rng.choice(["a", "b", "class", "upstream_get", "kwargs", "DICT_TYPE", "BYTES:k", "x y"])
        if k == "class" and rng.random() < 0.7:
            d[k] = rng.choice(["pkg.mod.Cls", "BYTES:QQ==", ""])
        else:
            d[k] = gen_json(rng, depth + 1)
    return d


def codec_cases(ctx, rng, n, live):
    from idpyoidc.impexp import ImpExp
    from idpyoidc.server.authn_event import AuthnEvent
    from idpyoidc.message.oauth2 import AuthorizationRequest
    ie = ImpExp()
    dumps, loads = [], []
    msgs = [AuthnEvent(uid="diana", authn_info="pw", authn_time=1, valid_until=9),
            AuthorizationRequest(client_id="c", response_type="code", scope="openid", state="BYTES:x")]
    for i in range(n):
        mk, mt = rng.choice(MARKERS)
        v = gen_json(rng) if rng.random() < 0.9 else rng.choice(msgs)
        if rng.random() < 0.5:      # well-typed for its marker most of the time
            v = {"PDict": {"k": v}, "PList": [v], "PStr": "s%d" % i if not isinstance(v, str) else v,
                 "PInt": i, "PBool": bool(i % 2), "PDictType": {"c": {"client_id": "c"}}}.get(mt, v)
        try:
            r = ie.dump_attr(copy.deepcopy(mk) if isinstance(mk, (dict, list)) else mk, copy.deepcopy(v))
            rt = "(Ok %s)" % cv(r) if representable(r) else None
        except Exception as e:
            rt = "(Err %s)" % EXC[type(e).__name__] if type(e).__name__ in EXC else None
        if rt is None:
            ctx.unmodelled += 1
        else:
            dumps.append(("(%s, %s, %s)" % (mt, cv(v), rt), {"dump_attr": mt, "value": repr(v)[:200], "out": rt[:200]}))
        if hasattr(v, "to_dict"):
            continue
        try:
            r = ie.load_attr(copy.deepcopy(mk) if isinstance(mk, (dict, list)) else mk, copy.deepcopy(v))
            rt = "(Ok %s)" % cv_loaded(v, r)
        except binascii.Error:
            rt = None
        except Exception as e:
            rt = "(Err %s)" % EXC[type(e).__name__] if type(e).__name__ in EXC else None
        if rt is None:
            ctx.unmodelled += 1
        else:
            loads.append(("(%s, %s, %s)" % (mt, cv(v), rt), {"load_attr": mt, "value": repr(v)[:200], "out": rt[:200]}))
    for c in dumps + loads:
        ctx.case_seen(c[1], True)
    imp = ["Lib.Base", "Lib.PyStr", "Lib.ImpExpTy", "Model.ImpExp"]
    ctx.coq_check_cases(imp, "ptype * pyval * res pyval", "chk_dump_attr", dumps, label="dumpattr", diag="diag_dump_attr")
    ctx.coq_check_cases(imp, "ptype * pyval * res pyval", "chk_load_attr", loads, label="loadattr", diag="diag_load_attr")
    # how many of those the model declares outside its fragment (skipped, counted)
    body = ("Definition dc : list (ptype * pyval * res pyval) := [\n%s\n].\nDefinition lc : list (ptype * pyval * res pyval) := [\n%s\n].\n"
            "Eval vm_compute in (length (filter is_unmodelled_dump dc) + length (filter is_unmodelled_load lc))%%nat.\n"
            % (";\n".join(t for t, _ in dumps[:300]), ";\n".join(t for t, _ in loads[:300])))
    rc, out, vals = ctx.coq_eval("C13_unmodelled_count", imp, body)
    try:
        ctx.unmodelled += int(vals[-1].split(":")[0].strip().replace("%nat", ""))
    except Exception:
        ctx.notes.append("could not count Unmodelled codec cases: %s" % out[-200:])

    # ---- whole instances against the REGENERATED tables
    from idpyoidc.server.session.token import Item, SessionToken, AccessToken, AuthorizationCode, RefreshToken, IDToken
    from idpyoidc.server.session.info import NodeInfo, UserSessionInfo, ClientSessionInfo
    from idpyoidc.server.session.grant import Grant, GrantMessage
    from idpyoidc.client.current import Current
    objs = list(live)
    for i in range(n // 4):
        cls = rng.choice([Item, SessionToken, AccessToken, AuthorizationCode, RefreshToken, IDToken, NodeInfo, UserSessionInfo,
                          ClientSessionInfo, GrantMessage, Current, Grant])
        x = cls()
        for attr, marker in cls.parameter.items():
            if attr in cls.special_load_dump or rng.random() < 0.25:
                continue
            if marker == 0:
                val = rng.choice([0, 1, 1700000000, None])
            elif marker == "":
                val = rng.choice(["", "v%d" % i, "BYTES:QUJD" if rng.random() < 0.1 else "tok", None])
            elif marker is bool:
                val = rng.choice([True, False])
            elif marker == {}:
                val = rng.choice([{}, {"max_usage": 1, "supports_minting": ["access_token"]}, {"userinfo": {"email": None}}, None,
                                  {"upstream_get": 1, "class": "x.Y"}])
            elif marker == []:
                val = rng.choice([[], ["openid", "email"], ["u;;c"], None])
            elif marker is None:
                val = rng.choice([None, {"s": {"iss": "i"}}, {}])
            elif isinstance(marker, type):
                val = rng.choice([None, msgs[0]]) if marker is AuthnEvent else rng.choice([None, msgs[1]])
            else:
                continue
            setattr(x, attr, val)
        objs.append(x)
    dcases, lcases = [], []
    for x in objs:
        cls = type(x)
        cname = cls.__module__ + "." + cls.__name__
        attrs = {k: v for k, v in vars(x).items() if representable(v)}
        try:
            d = x.dump()
            for sp in cls.special_load_dump:
                d.pop(sp, None)
            rt = "(Ok %s)" % cv_items(d) if representable(d) else None
        except Exception as e:
            d, rt = None, ("(Err %s)" % EXC[type(e).__name__] if type(e).__name__ in EXC else None)
        if rt is None:
            ctx.unmodelled += 1
            continue
        rec = {"class": cname, "attrs": repr(attrs)[:300]}
        dcases.append(("(%s, %s, %s)" % (coq_str(cname), cv_items(attrs), rt), rec))
        ctx.case_seen(rec, True)
        if d is None:
            continue
        y = cls()
        o0 = {k: v for k, v in vars(y).items() if representable(v)}
        try:
            y.load(copy.deepcopy(d))
            after = {k: v for k, v in vars(y).items() if representable(v) and not isinstance(v, bytes)}
            bts = [k for k, v in vars(y).items() if isinstance(v, bytes)]
            if bts:
                ctx.unmodelled += 1
                continue
            rt = "(Ok %s)" % cv_items(after)
        except binascii.Error:
            ctx.unmodelled += 1
            continue
        except Exception as e:
            rt = "(Err %s)" % EXC[type(e).__name__] if type(e).__name__ in EXC else None
            if rt is None:
                ctx.unmodelled += 1
                continue
        lcases.append(("(%s, %s, %s, %s)" % (coq_str(cname), cv_items(o0), cv_items(d), rt), rec))
    imp = ["Lib.Base", "Lib.PyStr", "Lib.ImpExpTy", "Gen.ImpExpTables", "Model.ImpExp"]
    ctx.coq_check_cases(imp, "pystr * fields * res fields", "(chk_dump_obj impexp_tables)", dcases, shard=40, label="dumpobj")
    ctx.coq_check_cases(imp, "pystr * fields * fields * res fields", "(chk_load_obj impexp_tables)", lcases, shard=40, label="loadobj")


def grant_cases(ctx, grants):
    """whole Grant.dump() incl. issued_token / token_map against Model.ImpExp.grant_dump"""
    from idpyoidc.message import Message
    cases = []

    def qn(o):
        return type(o).__module__ + "." + type(o).__name__

    def obj(o, extra=None):
        items = [("__class__", "(VStr %s)" % coq_str(qn(o)))]
        for k, v in vars(o).items():
            if extra and k in extra:
                items.append((k, extra[k]))
            elif representable(v):
                items.append((k, cv(v)))
        return "(VObj %s)" % coq_list(["(%s, %s)" % (coq_str(k), t) for k, t in items], "(pystr * pyval)"), items

    for g in grants:
        toks = coq_list([obj(t)[0] for t in g.issued_token], "pyval")
        tm = "(VDict %s)" % coq_list(["(%s, (VStr %s))" % (coq_str(k), coq_str(c.__module__ + "." + c.__name__)) for k, c in g.token_map.items()],
                                     "(pystr * pyval)")
        _, items = obj(g, {"issued_token": "(VList %s)" % toks, "token_map": tm})
        fields = coq_list(["(%s, %s)" % (coq_str(k), t) for k, t in items], "(pystr * pyval)")
        try:
            d = g.dump()
            if not representable(d):
                ctx.unmodelled += 1
                continue
            rt = "(Ok %s)" % cv_items(d)
        except Exception as e:
            rt = "(Err %s)" % EXC[type(e).__name__] if type(e).__name__ in EXC else None
            if rt is None:
                ctx.unmodelled += 1
                continue
        rec = {"grant": qn(g), "tokens": [t.token_class for t in g.issued_token], "used": g.used, "revoked": g.revoked}
        cases.append(("(%s, %s)" % (fields, rt), rec))
        ctx.case_seen(rec, bool(g.issued_token))
    imp = ["Lib.Base", "Lib.PyStr", "Lib.ImpExpTy", "Gen.ImpExpTables", "Model.ImpExp"]
    ctx.coq_check_cases(imp, "fields * res fields", "(chk_grant_dump impexp_tables)", cases, shard=10, label="grantdump")


def harvest_live(P):
    """live Item-family / node objects of a provider after a history (deep copies)"""
    from idpyoidc.server.session.grant import Grant
    out = []
    for k, nd in P.ctx.session_manager.db.items():
        out.append(copy.deepcopy(nd))
        if isinstance(nd, Grant):
            out += [copy.deepcopy(t) for t in nd.issued_token]
    return out


# ======================================================================================== entry points
def run(ctx):
    import srv
    rng = ctx.rng
    q = ctx.quick
    # (1) file store
    shutil.rmtree(os.path.join(ctx.dir, "fs"), ignore_errors=True)
    traces = []
    for i in range(24 if q else 400):
        traces.append(fs_trace(ctx, rng, rng.randint(8, 40), "json" if i % 3 == 2 else "passthru", i))
    imp = ["Lib.Base", "Lib.PyStr", "Lib.Urlenc", "Model.FileStore"]
    ctx.coq_check_cases(imp, "list obs", "chk_trace", traces, shard=12, label="fstrace", diag="diag_trace")
    fs_witnesses(ctx)
    quote_cases(ctx, rng, 200 if q else 4000)
    # (1b) key families whose converted names are in prefix relation (k, k + ".x", k + ".lock", k + ".", k + "*", URL-shaped
    # ids one of which extends the other): the same traces, the shorter key removed / rewritten while the longer one holds a
    # value, a new instance after every step, and the contents of every file in the directory against the model
    fam_traces, fam_files = [], []
    for i in range(18 if q else 300):
        t, f = fs_trace(ctx, rng, rng.randint(12, 36), "json" if i % 3 == 2 else "passthru", "f%d" % i, family=name_family(rng))
        fam_traces.append(t)
        fam_files.append(f)
    ctx.coq_check_cases(imp, "list obs", "chk_trace", fam_traces, shard=12, label="fsfamily", diag="diag_trace")
    ctx.coq_check_cases(imp + ["Model.FileStoreFrame"], "list bytes * list fobs", "chk_files", fam_files, shard=12, label="fsfiles",
                        diag="diag_files")
    related_cases(ctx, rng, 200 if q else 4000)
    shutil.rmtree(os.path.join(ctx.dir, "fs"), ignore_errors=True)

    # (2) provider
    clock = srv.Clock().install()
    reb = Rebinder(clock)
    live = []
    try:
        kinds = [({"jwt_access": False, "pin": "pwsalt"}, "context", True), ({"jwt_access": True, "pin": "pwsalt"}, "context", True),
                 ({"jwt_access": False, "pin": "key"}, "context", True), ({"jwt_access": False, "pin": "keyfile"}, "context", True),
                 ({"jwt_access": False, "pin": "pwsalt"}, "session_manager", False)]
        reps = 2 if q else 20
        for kind in (kinds[0][0], kinds[1][0]):
            live += harvest_live(provider_history(ctx, rng, reb, kind, 0, True, "context", fixed=MATRIX))[:40]
        for kind, how, rich in kinds:
            for r in range(reps):
                P = provider_history(ctx, rng, reb, kind, rng.randint(8, 14) if q else rng.randint(10, 24), rich, how)
                if r == 0:
                    live += harvest_live(P)
        # sessions that change AFTER the restore and are then resolved by their id; sharing inside the exported state
        for kind, how in ((kinds[0][0], "context"), (kinds[1][0], "session_manager"))[:1 if q else 2]:
            provider_history(ctx, rng, reb, kind, 0, True, how, fixed=SESSION_MATRIX, share=True)
        for r in range(3 if q else 30):
            kind, how, rich = kinds[(0, 4, 1)[r % 3]]
            provider_history(ctx, rng, reb, kind, rng.randint(9, 13) if q else rng.randint(10, 22), rich, how,
                             p_session=0.45, battery=True, share=True)
        jwks_def_witness(ctx, reb)
        par_json_witness(ctx, reb)
        session_config_witness(ctx, reb)
        # (2b) the client database is the file-backed store; client ids whose file names are in prefix relation
        import logging
        lg = logging.getLogger("idpyoidc")
        lvl = lg.level
        lg.setLevel(logging.CRITICAL)      # (look-ups of unregistered clients are part of the histories: the store logs each)
        try:
            for r in range(3 if q else 40):
                filecdb_history(ctx, rng, reb, r, rng.randint(9, 12) if q else rng.randint(10, 20))
        finally:
            lg.setLevel(lvl)
        shutil.rmtree(os.path.join(ctx.dir, "cdb"), ignore_errors=True)
    finally:
        reb.restore()
        clock.uninstall()
    for c in SHARE_CASES:
        ctx.case_seen(c[1], True)
    ctx.coq_check_cases(["Lib.Base", "Lib.PyStr", "Lib.ImpExpTy", "Model.ImpExp"], "sdb * list share_step", "chk_share",
                        SHARE_CASES, shard=12, label="share", diag="diag_share")
    del SHARE_CASES[:]

    # (3) relying party
    for _ in range(4 if q else 80):
        rp_history(ctx, rng, rng.randint(8, 16))

    # (3b) relying party: sessions that are removed / re-keyed AFTER the restore, look-ups through every bound key, chains
    import srv_c13
    import logging
    clock = srv.Clock().install()
    reb = Rebinder(clock)
    srv_c13.cur_log_install()
    lg = logging.getLogger("idpyoidc")
    lvl = lg.level
    lg.setLevel(logging.CRITICAL)      # (refused requests are part of the histories: the library logs a traceback for each)
    try:
        for variant in ("sac", "rph"):
            rp_session_history(ctx, rng, clock, reb, variant, 0, fixed=RP_SESSION_MATRIX)
        for r in range(6 if q else 120):
            rp_session_history(ctx, rng, clock, reb, ("sac", "rph")[r % 2], rng.randint(10, 18))
    finally:
        lg.setLevel(lvl)
        srv_c13.cur_log_uninstall()
        reb.restore()
        clock.uninstall()
    for c in CUR_CASES:
        ctx.case_seen(c[1], True)
    imp = ["Lib.Base", "Lib.PyStr", "Lib.ImpExpTy", "Gen.ImpExpTables", "Model.ImpExp", "Model.ImpExpReq"]
    cases = CUR_CASES + cur_traces(ctx, rng, 80 if q else 2000)
    check_cases_prelude(ctx, imp, "list (cop * cout)", "(chk_cur impexp_tables c_Current)", cases, CUR_INTERN.prelude(),
                        shard=60 if q else 400, label="rpstore", diag="(diag_cur impexp_tables c_Current)")
    del CUR_CASES[:]
    CUR_INTERN.__init__()
    # attribute census: (class, attributes live instances carry) against the regenerated tables
    for c in CENSUS_CASES.values():
        ctx.case_seen(c[1], True)
    ctx.coq_check_cases(imp, "pystr * list pystr", "(chk_census impexp_tables census_closed census_transient)",
                        list(CENSUS_CASES.values()), label="census", diag="(diag_census impexp_tables census_closed census_transient)")
    CENSUS_CASES.clear()

    # (4) codec
    from idpyoidc.server.session.grant import Grant
    grant_cases(ctx, [x for x in live if isinstance(x, Grant)][:24 if q else 300])
    codec_cases(ctx, rng, 400 if q else 6000, live[:60 if q else 800])


def replay(ctx, rp):
    ctx.notes.append("replay re-runs the generator with the recorded seed")
    ctx.rng.seed(rp.get("seed", ctx.seed))
    run(ctx)
