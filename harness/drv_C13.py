"""C13 driver — exported state restores to an equivalent provider / relying party; the file store shows a
new instance what was written or deleted.

Four streams, all on the REAL code:
  (1) file store: random dictionary-operation traces over hostile keys on AbstractFileSystem(QPKey) with both
      value converters; a second instance is opened after every operation.  Model = Model/FileStore.v
      (chk_trace by vm_compute); oracle = a plain Python dict kept from the property text.
  (2) provider: random protocol histories on one provider; after EVERY prefix the state is exported, a fresh
      provider is built from the same configuration, the export is imported and the rest of the history is
      run on it; all outcomes must equal those of the original (token values -> indices).  Configurations:
      opaque / JWT access tokens x key pinning by password+salt, explicit key, key file; the `jwks_def` way
      is replayed as a fixed witness.
  (3) relying party: the same with RP histories (pending authorizations, nonce bindings, tokens).
  (4) ImpExp codec: dump_attr / load_attr / dump / load of real ImpExp instances against Model/ImpExp.v and the
      regenerated `parameter` tables.
"""
import base64
import binascii
import copy
import json
import os
import shutil
import sys
import urllib.parse

import engine as E
from engine import coq_str, coq_list, coq_bool, coq_z, coq_nat

RULE = ("(1) file-store traces of 8-40 ops (set/get/del/in/keys/items/len/clear/re-open) over keys drawn from a hostile "
        "pool (URL-shaped ids, %, +, space, /, '.', '..', '', *.lock, unicode, case pairs, %-escapes) and random strings, "
        "values with edge whitespace / unicode / JSON documents, both value converters, second instance after every op; "
        "non-trivial = at least one accepted set and one delete/clear/re-open. "
        "(2) provider histories of 8-16 ops generated adaptively (authorize, redeem, refresh, revoke, introspect, userinfo, "
        "tick, dynamic registration + read, PAR + redemption, client_secret_jwt with jti replay, wrong client / wrong class / "
        "garbage tokens), dumped and restored after EVERY prefix, per configuration kind; non-trivial = the suffix contains "
        "an op whose outcome depends on pre-dump state. (3) RP histories likewise. (4) codec cases: every type marker x "
        "JSON-like values incl. 'BYTES:' strings, 'upstream_get' / 'class' keys; real Item/SessionToken/Grant/NodeInfo/"
        "Current instances (random and harvested from the live provider)")
ASSUMPTIONS = ["str.encode('utf-8') / decode round-trips (keys and values are modelled as UTF-8 byte / code point strings)",
               "the filesystem keeps what was written; file modification times order writes (single writer per directory)",
               "json.dumps / json.loads round-trip JSON-like values; Message.to_dict / from_dict round-trip (C10)",
               "Fernet / the JWS library are deterministic functions of their keys (same key material => same acceptance)",
               "rndstr / uuid values are fresh (token values, states, client ids are compared by minting index)"]

SIG_LOCK_W = "filestore-lock-suffix-key"
SIG_LOCK_R = "filestore-lock-name-phantom-read"
SIG_CR = "filestore-cr-newline-translation"
SIG_FS = "filestore-new-instance-differs"
SIG_JWKS = "token-keys-jwks_def-not-used"
SIG_PARJSON = "dump-not-json-pending-par"
SIG_RESTORE = "restore-diverges"
SIG_REDUMP = "dump-after-load-differs"
SIG_RP = "rp-restore-diverges"


def coq_bytes(b):
    return "[" + ";".join(str(x) for x in b) + "]%N" if b else "(@nil N)"


# ======================================================================================== (1) file store
KEYPOOL = ["a", "A", "a b", "a+b", "a%20b", "a%2Fb", "a/b", "https://client.example.org/cb?x=1&y=2#f", "urn:uuid:1-2",
           "", ".", "..", "...", ".hidden", "a.lock", "x.lock", ".lock", "a.lock.lock", "lock", "a.lck", "åäö", "日本語",
           "a\nb", "a\tb", " lead", "trail ", "*", "~tilde", "%", "%41", "%zz", "+", "con", "a" * 90, "q?x=y", "semi;colon",
           "client_1", "diana@example.org", " ", "é.lock"]
VALS = ["v", "", " ", "  v \n", "\n", "v\n\n", "\tv", "åäö", "line1\nline2", "{\"not\": \"json\"", "x" * 300, "  u", "0",
        "a\rb", "a\r\nb", "\r"]
JVALS = [{"client_id": "c", "redirect_uris": ["https://x/cb"], "n": 1}, [], {}, "s", "  edge \n", 0, None, True,
         {"nested": {"a": [1, 2, {"b": None}]}, "t": " x "}, ["\r", "a\rb"], {"k": "v\r\n"}]


def exc_out(e):
    if isinstance(e, KeyError):
        return "(RErr KeyError)"
    if isinstance(e, IsADirectoryError):
        return "(RErr (Refused 21))"
    if isinstance(e, ValueError):
        return "(RErr ValueError)"
    return "(RErr (Refused 99))"


def fs_trace(ctx, rng, n, conv, tno):
    from idpyoidc.storage.abfile import AbstractFileSystem
    d = os.path.join(ctx.dir, "fs", "t%d" % tno)
    shutil.rmtree(d, ignore_errors=True)
    vconv = "idpyoidc.util.JSON" if conv == "json" else ""

    def mk():
        return AbstractFileSystem(fdir=d, key_conv="idpyoidc.util.QPKey", value_conv=vconv)

    ser = (lambda v: json.dumps(v)) if conv == "json" else (lambda v: v)
    keys = rng.sample(KEYPOOL, 6) + ["".join(rng.choice("ab.%+ /ål") for _ in range(rng.randint(1, 6))) for _ in range(2)]
    if rng.random() < 0.5:
        k0 = rng.choice(["a", "x", "é"])
        keys += [k0, k0 + ".lock"]
    fs = mk()
    ref = {}
    rec = {"conv": conv, "keys": keys, "ops": []}
    obs = []
    accepted = removed = False
    pending = None      # read-modify-write: the object a get handed out, to be changed in place and stored again
    for _ in range(n):
        r = rng.random()
        k = rng.choice(keys)
        if pending is not None:
            r, k = 0.0, pending[0]
        elif 0.36 <= r < 0.52 and ref and rng.random() < 0.6:
            k = rng.choice(sorted(ref))
        kb = coq_bytes(k.encode("utf-8"))
        before = dict(ref)
        if r < 0.36:
            if pending is not None:
                v, pending = pending[1], None
                if isinstance(v, dict):
                    v["rmw"] = v.get("rmw", 0) + 1
                else:
                    v.append("rmw")
                ctx.count("fs:read-modify-write")
            else:
                v = copy.deepcopy(rng.choice(JVALS if conv == "json" else VALS))
                if conv == "json" and rng.random() < 0.3:
                    v = {"k": k, "i": rng.randint(0, 9)}
            op, opt = ("set", k, v), "(OSet %s %s)" % (kb, coq_str(ser(v)))
            try:
                fs[k] = v
                out, ref[k] = "RUnit", copy.deepcopy(v)
                accepted = True
            except Exception as e:
                out = exc_out(e)
        elif r < 0.52:
            op, opt = ("get", k), "(OGet %s)" % kb
            try:
                got = fs[k]
                out = "(RVal %s)" % coq_str(ser(got))
                if isinstance(got, (dict, list)) and rng.random() < 0.85:
                    pending = (k, got)
                if k not in ref:
                    ctx.violation(SIG_LOCK_R if k.endswith(".lock") else SIG_FS,
                                  "file store returns %r for key %r that holds no value" % (got, k), rec)
                elif got != ref[k]:
                    ctx.violation(SIG_FS, "file store returns %r for key %r, written %r" % (got, k, ref[k]), rec)
            except Exception as e:
                out = exc_out(e)
                if k in ref:
                    ctx.violation(SIG_LOCK_W if k.endswith(".lock") else SIG_FS,
                                  "key %r was written but reading it raises %r" % (k, e), rec)
        elif r < 0.66:
            op, opt = ("del", k), "(ODel %s)" % kb
            try:
                del fs[k]
                out = "RUnit"
                removed = removed or k in ref
                ref.pop(k, None)
            except Exception as e:
                out = exc_out(e)
        elif r < 0.74:
            op, opt = ("in", k), "(OContains %s)" % kb
            got = k in fs
            out = "(RBool %s)" % coq_bool(got)
            if got != (k in ref):
                ctx.violation(SIG_LOCK_R if k.endswith(".lock") and k not in ref else SIG_FS,
                              "%r in store is %r, expected %r" % (k, got, k in ref), rec)
        elif r < 0.81:
            op, opt = ("keys",), "OKeys"
            got = list(fs.keys())
            out = "(RKeys %s)" % coq_list([coq_bytes(x.encode("utf-8")) for x in got], "bytes")
            if sorted(got) != sorted(ref):
                ctx.violation(SIG_FS, "keys() = %r, expected %r" % (sorted(got), sorted(ref)), rec)
        elif r < 0.86:
            op, opt = ("items",), "OItems"
            got = list(fs.items())
            out = "(RItems %s)" % coq_list(["(%s, %s)" % (coq_bytes(a.encode("utf-8")), coq_str(ser(b))) for a, b in got], "(bytes * pystr)")
            if dict(got) != ref or len(got) != len(ref):
                ctx.violation(SIG_FS, "items() = %r, expected %r" % (got, ref), rec)
        elif r < 0.90:
            op, opt = ("len",), "OLen"
            got = len(fs)
            out = "(RLen %s)" % coq_nat(got)
            if got != len(ref):
                ctx.violation(SIG_FS, "len() = %r, expected %r" % (got, len(ref)), rec)
        elif r < 0.93:
            op, opt = ("clear",), "OClear"
            fs.clear()
            out = "RUnit"
            removed = removed or bool(ref)
            ref = {}
        else:
            op, opt = ("reopen",), "OReopen"
            fs = mk()
            out = "RUnit"
            removed = True
        # ---- what a NEW instance over the same directory sees (the property's second sentence)
        n2 = mk()
        seen = list(n2.items())
        listing = sorted(os.listdir(d))
        rec["ops"].append({"op": op, "out": out})
        if dict(seen) != ref or len(seen) != len(ref):
            bad = [x for x in set(dict(seen)) | set(ref) if dict(seen).get(x, "<absent>") != ref.get(x, "<absent>")]
            kk = bad[0] if bad else None
            if kk is not None and kk.endswith(".lock"):
                sig = SIG_LOCK_W if kk in ref else SIG_LOCK_R
            elif kk in ref and isinstance(ref[kk], str) and "\r" in ref[kk]:
                sig = SIG_CR
            else:
                sig = SIG_FS
            ctx.violation(sig, "after %r a new instance sees %r for key %r, the dictionary interface wrote %r"
                          % (op, dict(seen).get(kk, "<absent>"), kk, ref.get(kk, "<absent>")), rec)
        for kk in keys:
            if (kk in n2) != (kk in ref) or n2.get(kk, None) != ref.get(kk, None):
                ctx.violation(SIG_LOCK_R if kk.endswith(".lock") and kk not in ref else SIG_FS,
                              "after %r: new instance: %r in -> %r, get -> %r; expected %r / %r"
                              % (op, kk, kk in n2, n2.get(kk), kk in ref, ref.get(kk)), rec)
        if out.startswith("(RErr") and op[0] == "set" and ref != before:
            ctx.violation(SIG_FS, "refused write changed the store", rec)
        obs.append("(%s, (%s, (%s, %s)))" % (
            opt, out,
            coq_list(["(%s, %s)" % (coq_bytes(a.encode("utf-8")), coq_str(ser(b))) for a, b in seen], "(bytes * pystr)"),
            coq_list([coq_bytes(x.encode("utf-8")) for x in listing], "fname")))
        ctx.count("fs:" + op[0])
    ctx.case_seen(rec, accepted and removed)
    return (coq_list(obs, "obs"), rec)


def fs_witnesses(ctx):
    """fixed inputs of repaired / reported defects, replayed on every run (regression oracle)"""
    from idpyoidc.storage.abfile import AbstractFileSystem
    d = os.path.join(ctx.dir, "fs", "witness")
    shutil.rmtree(d, ignore_errors=True)
    mk = lambda: AbstractFileSystem(fdir=d, key_conv="idpyoidc.util.QPKey")
    fs = mk()
    rec = {"witness": "lock names / carriage return"}
    try:
        fs["client.lock"] = "v1"
        if "client.lock" not in mk() or mk().get("client.lock") != "v1":
            ctx.violation(SIG_LOCK_W, "fs['client.lock']='v1' accepted but a new instance does not see it", rec)
    except ValueError:
        pass
    fs["a"] = "v"
    if fs.get("a.lock") is not None or mk().get("a.lock") is not None or "a.lock" in fs:
        ctx.violation(SIG_LOCK_R, "after fs['a']='v', key 'a.lock' (never written) reads %r" % (mk().get("a.lock"),), rec)
    for v in ("a\rb", "a\r\nb", "\r"):
        fs["cr"] = v
        got = mk().get("cr")
        if got != v:
            ctx.violation(SIG_CR, "fs['cr']=%r: a new instance reads %r" % (v, got), rec)
    ctx.case_seen(rec, True)


def quote_cases(ctx, rng, n):
    alpha = list(b"abzAZ09_.-~ +%/&=#?:\x00\x7f\x80\xc3\xa5\xff\n")
    q, u = [], []
    for _ in range(n):
        b = bytes(rng.choice(alpha) for _ in range(rng.randint(0, 8)))
        q.append(("(%s, %s)" % (coq_bytes(b), coq_bytes(urllib.parse.quote_plus(b).encode())), {"quote_plus": list(b)}))
        s = "".join(rng.choice("ab%+2fFzZ 5%") for _ in range(rng.randint(0, 8)))
        u.append(("(%s, %s)" % (coq_bytes(s.encode()), coq_bytes(urllib.parse.unquote_to_bytes(s.replace("+", " ")))),
                  {"unquote_plus": s}))
    for c in q + u:
        ctx.case_seen(c[1], True)
    imp = ["Lib.Base", "Lib.PyStr", "Lib.Urlenc", "Model.FileStore"]
    ctx.coq_check_cases(imp, "bytes * bytes", "chk_quote", q, label="quote")
    ctx.coq_check_cases(imp, "bytes * bytes", "chk_unquote", u, label="unquote")


# ======================================================================================== (2) provider
class Rebinder:
    """keeps srv.Clock bound in modules that are imported after the first install"""

    def __init__(self, clock):
        self.clock, self.saved = clock, []

    def rebind(self):
        for name, mod in list(sys.modules.items()):
            if mod is None or not (name.startswith("idpyoidc") or name.startswith("cryptojwt")):
                continue
            for fn in ("utc_time_sans_frac", "time_sans_frac"):
                cur = getattr(mod, fn, None)
                if cur is not None and cur is not self.clock:
                    self.saved.append((mod, fn, cur))
                    setattr(mod, fn, self.clock)

    def restore(self):
        for mod, fn, old in reversed(self.saved):
            setattr(mod, fn, old)
        self.saved = []


SCOPES = [["openid"], ["openid", "email"], ["openid", "offline_access"], ["openid", "profile", "offline_access"],
          ["openid", "email", "offline_access"], ["email"]]


def next_op(rng, P, jti_ctr, rich):
    """choose the next op from the current tables of the original provider (adaptive, mostly valid)"""
    import srv_c13
    toks = list(range(len(P.tokens)))
    by = lambda c: [i for i in toks if P.tclass[i] == c]

    def pick(cls):
        cand = by(cls)
        if cand and rng.random() < 0.88:
            return ("tok", rng.choice(cand[-4:] if rng.random() < 0.7 else cand))
        if toks and rng.random() < 0.6:
            return ("tok", rng.choice(toks))
        return ("garbage", rng.randint(0, 3))

    def owner(ref, wrong=0.12):
        o = P.towner[ref[1]] if ref[0] == "tok" and ref[1] < len(P.towner) else None
        if o is None or rng.random() < wrong:
            return rng.choice(srv_c13.CLIENTS)
        return tuple(o) if isinstance(o, list) else o

    def jti(cref):
        if cref != "client_2":
            return None
        if rich and jti_ctr and rng.random() < 0.25:   # (the replay cache lives in the context, not the session manager)
            return rng.choice(jti_ctr)          # replayed assertion id
        jti_ctr.append(len(jti_ctr) + 1)
        return jti_ctr[-1]

    r = rng.random()
    if r < 0.24 or not toks:
        cref = rng.choice(srv_c13.CLIENTS + ([("dyn", rng.randrange(len(P.dyn)))] if P.dyn else []))
        rt = "code" if rng.random() < 0.8 else rng.choice(["code id_token", "id_token token", "code token"])
        sc = ["openid"] if not isinstance(cref, str) else rng.choice(SCOPES)
        return ("authz", rng.choice(srv_c13.USERS), cref, sc, rt)
    if r < 0.44:
        ref = pick("code")
        c = owner(ref)
        return ("token", ref, c, jti(c), owner(ref, 0.0) if rng.random() < 0.9 else c)
    if r < 0.56:
        ref = pick("refresh_token")
        c = owner(ref)
        return ("refresh", ref, c, rng.choice([None, None, ["openid"], ["openid", "email"]]), jti(c))
    if r < 0.64:
        ref = pick(rng.choice(["access_token", "refresh_token", "code"]))
        return ("revoke", ref, owner(ref) if owner(ref) != "client_2" else "client_1", rng.choice([None, "access_token", "refresh_token"]))
    if r < 0.74:
        ref = pick(rng.choice(["access_token", "refresh_token", "access_token", "id_token"]))
        c = owner(ref)
        return ("introspect", ref, c if c != "client_2" else "client_1")
    if r < 0.84:
        return ("userinfo", pick("access_token"))
    if r < 0.91:
        return ("tick", rng.choice([1, 60, 200, 301, 601, 3601, 86401]))
    if not rich:
        return ("tick", 1)
    if r < 0.94:
        return ("register", len(P.dyn))
    if r < 0.96:
        return ("regread", rng.randrange(len(P.dyn))) if P.dyn else ("register", 0)
    if r < 0.98 or not P.par:
        return ("par", rng.choice(["client_1", "client_3"]), rng.choice(SCOPES[:4]))
    i = rng.randrange(len(P.par))
    return ("authz_par", i, rng.choice(srv_c13.USERS), rng.choice(["client_1", "client_3"]))


def export(server, how):
    """the exported state as a self-contained value: JSON text when possible, else a deep copy"""
    d = server.context.dump() if how == "context" else server.context.session_manager.dump()
    try:
        return json.dumps(d), None
    except TypeError as e:
        return None, (copy.deepcopy(d), str(e))


def strip_volatile(d):
    d = json.loads(json.dumps(d, default=lambda o: "<%s>" % type(o).__name__))
    kj = d.get("keyjar")
    if isinstance(kj, dict):
        iss = kj.get("issuers", {})
        d["keyjar"] = {i: sorted((k.get("kid", ""), k.get("kty", ""), k.get("use", "")) for b in v.get("bundles", []) for k in b.get("keys", []))
                       for i, v in iss.items()} if isinstance(iss, dict) else "?"
    return d


# one history that puts every clause of the property on both sides of every crash point: pending code, used
# code, live / revoked / expired tokens, usage counter, refresh chain, registered client + its registration
# token, pending and consumed pushed request, seen and unseen client-assertion ids
MATRIX = [
    ("authz", "diana", "client_1", ["openid", "email", "offline_access"], "code"),        # 0: code 0
    ("authz", "babs", "client_2", ["openid", "offline_access"], "code"),                  # 1: code 1
    ("register", 0),                                                                      # 2
    ("par", "client_1", ["openid", "email"]),                                             # 3: request_uri 0
    ("token", ("tok", 0), "client_1", None, "client_1"),                                  # 4: tokens 2,3,4
    ("token", ("tok", 1), "client_2", 1, "client_2"),                                     # 5: tokens 5,6,7 (assertion id 1)
    ("refresh", ("tok", 6), "client_2", None, 1),                                         # 6: replayed assertion id
    ("authz_par", 0, "diana", "client_1"),                                                # 7: code 8
    ("authz_par", 0, "babs", "client_1"),                                                 # 8: consumed request_uri
    ("regread", 0),                                                                       # 9
    ("authz", "diana", ("dyn", 0), ["openid"], "code"),                                   # 10: code 9
    ("token", ("tok", 9), ("dyn", 0), None, ("dyn", 0)),                                  # 11: tokens 10,11
    ("refresh", ("tok", 3), "client_1", None, None),                                      # 12: tokens 12,13,14
    ("revoke", ("tok", 2), "client_1", None),                                             # 13
    ("introspect", ("tok", 2), "client_1"),                                               # 14
    ("userinfo", ("tok", 2)),                                                             # 15: revoked
    ("userinfo", ("tok", 5)),                                                             # 16: live
    ("refresh", ("tok", 6), "client_2", None, 2),                                         # 17: fresh assertion id
    ("userinfo", ("tok", 12)),                                                            # 18: live, from the refresh chain
    ("refresh", ("tok", 3), "client_1", None, None),                                      # 19: rotated-away / reused refresh token
    ("token", ("tok", 0), "client_1", None, "client_1"),                                  # 20: used code
    ("userinfo", ("tok", 12)),                                                            # 21
    ("tick", 601),                                                                        # 22
    ("userinfo", ("tok", 5)),                                                             # 23: expired
    ("introspect", ("tok", 6), "client_1"),                                               # 24
    ("token", ("tok", 8), "client_1", None, "client_1"),                                  # 25: code from the pushed request, expired
]


def provider_history(ctx, rng, reb, kind, n, rich, how="context", fixed=None):
    import srv, srv_c13
    clock = reb.clock
    clock.now = 1_700_000_000
    A = srv_c13.Prov(kind, clock)
    reb.rebind()
    hist, outs, snaps = [], [], []
    jti_ctr = []
    rec = {"kind": kind, "how": how, "history": hist, "outs": outs}
    for step in range(len(fixed) if fixed else n):
        op = fixed[step] if fixed else next_op(rng, A, jti_ctr, rich)
        hist.append(op)
        outs.append(A.run(op))
        js, alt = export(A.server, how)
        if alt is not None and not (A.ctx.par_db and "AuthorizationRequest" in alt[1]):
            ctx.violation("dump-not-json", "exported state is not JSON-serialisable: %s" % alt[1], rec)
        snaps.append((js, alt[0] if alt else None, A.tables(), clock.now, A.snapshot()))
        ctx.count("prov:" + op[0])
        ctx.count("prov-out:" + str(outs[-1][0]))
    end = clock.now
    depends = False
    for i, (js, alt, tab, now, snapA) in enumerate(snaps):
        B = srv_c13.Prov(kind, clock)
        reb.rebind()
        dump = json.loads(js) if js is not None else alt
        try:
            if how == "context":
                srv_c13.restore(B.server, dump)
            else:
                B.ctx.session_manager.load(dump, init_args={"upstream_get": B.ctx.unit_get})
        except Exception as e:
            ctx.violation(SIG_RESTORE, "import of the state exported after step %d (%r) raises %r" % (i, hist[i], e), rec)
            continue
        B.set_tables(tab)
        clock.now = now
        snapB = B.snapshot()
        if snapB != snapA:
            ctx.violation(SIG_RESTORE, "session tree differs right after import at step %d: %s" % (
                i, [k for k in set(snapA) | set(snapB) if snapA.get(k) != snapB.get(k)][:3]), rec)
        if js is not None and how == "context":
            try:
                again = strip_volatile(B.ctx.dump())
                first = strip_volatile(json.loads(js))
                if again != first:
                    ctx.violation(SIG_REDUMP, "dump(load(dump)) differs from dump at step %d in %s" % (
                        i, [k for k in first if first.get(k) != again.get(k)]), rec)
            except Exception as e:
                ctx.violation(SIG_REDUMP, "re-export after import raises %r" % (e,), rec)
        for j in range(i + 1, len(hist)):
            o = B.run(hist[j])
            if o != outs[j]:
                sig = SIG_JWKS if kind.get("pin") == "jwks_def" else SIG_RESTORE
                ctx.violation(sig, "restored after step %d (%r): op %d %r answered %s by the restored provider, %s by the original"
                              % (i, hist[i], j, hist[j], json.dumps(o)[:300], json.dumps(outs[j])[:300]),
                              dict(rec, restore_point=i, op_index=j))
                break
            if outs[j][0] == "ok" and hist[j][0] in ("token", "refresh", "userinfo", "introspect", "regread", "authz_par"):
                depends = True
    clock.now = end
    ctx.case_seen({"kind": kind, "how": how, "history": hist, "outs": [o[0] for o in outs]}, depends)
    return A


def jwks_def_witness(ctx, reb):
    """fixed witness of the recorded finding: token keys pinned through `jwks_def` are not used"""
    import srv_c13
    clock = reb.clock
    clock.now = 1_700_000_000
    kind = {"pin": "jwks_def"}
    A = srv_c13.Prov(kind, clock)
    reb.rebind()
    h = [("authz", "diana", "client_1", ["openid", "offline_access"], "code"), ("token", ("tok", 0), "client_1")]
    o0 = A.run(h[0])
    js, _ = export(A.server, "context")
    tab = A.tables()
    o1 = A.run(h[1])
    B = srv_c13.Prov(kind, clock)
    reb.rebind()
    srv_c13.restore(B.server, json.loads(js))
    B.set_tables(tab)
    clock.now = 1_700_000_000
    o1b = B.run(h[1])
    rec = {"kind": kind, "history": h, "original": [o0[0], o1[0]], "restored": o1b}
    ctx.case_seen(rec, True)
    if o1b != o1:
        ctx.violation(SIG_JWKS, "token_handler_args.jwks_def (key file): a provider restored from the same configuration and key "
                                "file answers %s to the redemption of a pending code, the original answers %s"
                      % (json.dumps(o1b)[:120], json.dumps(o1)[:60]), rec)


def par_json_witness(ctx, reb):
    import srv_c13
    clock = reb.clock
    clock.now = 1_700_000_000
    A = srv_c13.Prov({"pin": "pwsalt"}, clock)
    reb.rebind()
    o = A.run(("par", "client_1", ["openid"]))
    js, alt = export(A.server, "context")
    rec = {"history": [("par", "client_1", ["openid"])], "out": o}
    ctx.case_seen(rec, True)
    if o[0] == "ok" and js is None:
        ctx.violation(SIG_PARJSON, "with a pushed authorization request pending, EndpointContext.dump() is not exportable: %s" % alt[1], rec)


# ======================================================================================== (3) relying party
def rp_history(ctx, rng, n):
    import srv_c13
    A = srv_c13.RPx()
    hist, outs, snaps = [], [], []
    rec = {"rp_history": hist, "outs": outs}
    for _ in range(n):
        r = rng.random()
        ns = len(A.states)
        i = rng.randrange(ns) if ns and rng.random() < 0.9 else ns + 1
        if r < 0.25 or not ns:
            op = ("begin", rng.choice([["openid"], ["openid", "email"], ["openid", "offline_access"]]))
        elif r < 0.42:
            op = ("authresp", i, "code-%d" % rng.randint(0, 99))
        elif r < 0.55:
            op = ("token_req", i)
        elif r < 0.67:
            op = ("tokenresp", i, "at-%d" % rng.randint(0, 99), rng.choice(["", "rt-%d" % rng.randint(0, 99)]))
        elif r < 0.75:
            op = ("refresh_req", i)
        elif r < 0.83:
            op = ("userinfo_req", i)
        elif r < 0.90:
            op = ("nonce_owner", i)
        elif r < 0.96:
            op = ("known", i)
        else:
            op = ("remove", i)
        hist.append(op)
        outs.append(A.run(op))
        snaps.append((json.dumps(A.dump()), A.tables(), A.snapshot()))
        ctx.count("rp:" + op[0])
    depends = False
    for i, (js, tab, snapA) in enumerate(snaps):
        B = srv_c13.RPx()
        try:
            B.load(json.loads(js))
        except Exception as e:
            ctx.violation(SIG_RP, "RP import of the state exported after step %d raises %r" % (i, e), rec)
            continue
        B.set_tables(tab)
        if B.snapshot() != snapA:
            sa, sb = snapA, B.snapshot()
            ctx.violation(SIG_RP, "RP state differs right after import at step %d in %s" % (i, [k for k in sa if sa[k] != sb.get(k)]), rec)
        try:
            if strip_volatile(B.dump()) != strip_volatile(json.loads(js)):
                a, b = strip_volatile(json.loads(js)), strip_volatile(B.dump())
                ctx.violation(SIG_REDUMP, "RP dump(load(dump)) differs in %s" % [k for k in a if a.get(k) != b.get(k)], rec)
        except Exception as e:
            ctx.violation(SIG_REDUMP, "RP re-export raises %r" % (e,), rec)
        for j in range(i + 1, len(hist)):
            o = B.run(hist[j])
            if o != outs[j]:
                ctx.violation(SIG_RP, "RP restored after step %d: op %d %r answered %s, original %s"
                              % (i, j, hist[j], json.dumps(o)[:300], json.dumps(outs[j])[:300]), dict(rec, restore_point=i))
                break
            if outs[j][0] == "ok" and hist[j][0] in ("token_req", "refresh_req", "userinfo_req", "nonce_owner"):
                depends = True
    ctx.case_seen({"rp_history": hist, "outs": [o[0] for o in outs]}, depends)


# ======================================================================================== (4) ImpExp codec
def short(s):
    """long opaque strings (token values, keys) are replaced by a digest on both sides: literals stay small"""
    if len(s) > 100 and not s.startswith("BYTES:"):
        import hashlib
        return "LONG:" + hashlib.sha1(s.encode("utf-8", "replace")).hexdigest()
    return s


def cv(v):
    """Python value -> Gallina pyval (Message instances become the model's message objects)"""
    from idpyoidc.message import Message
    if v is None:
        return "VNone"
    if v is True or v is False:
        return "(VBool %s)" % coq_bool(v)
    if isinstance(v, int):
        return "(VInt %s)" % coq_z(v)
    if isinstance(v, str):
        return "(VStr %s)" % coq_str(short(v))
    if isinstance(v, Message):
        return "(mk_msg %s %s)" % (coq_str(type(v).__module__ + "." + type(v).__name__), cv_items(v.to_dict()))
    if isinstance(v, (list, tuple)):
        return "(VList %s)" % coq_list([cv(x) for x in v], "pyval")
    if isinstance(v, dict):
        return "(VDict %s)" % cv_items(v)
    raise ValueError("no pyval for %r" % (v,))


def cv_items(d):
    return coq_list(["(%s, %s)" % (coq_str(k), cv(x)) for k, x in d.items()], "(pystr * pyval)")


def representable(v):
    from idpyoidc.message import Message
    if v is None or isinstance(v, (bool, int, str)):
        return True
    if isinstance(v, Message):
        return representable(v.to_dict())
    if isinstance(v, (list, tuple)):
        return all(representable(x) for x in v)
    if isinstance(v, dict):
        return all(isinstance(k, str) and representable(x) for k, x in v.items())
    return False


def cv_loaded(x, y):
    """canonical form of load_attr's result y for input x: bytes made from a 'BYTES:' string -> the model's marker"""
    if isinstance(y, bytes) and isinstance(x, str) and x.startswith("BYTES:"):
        return "(VObj [(s_BYTES, VStr %s)])" % coq_str(x[6:])
    if isinstance(y, list) and isinstance(x, list) and len(x) == len(y):
        return "(VList %s)" % coq_list([cv_loaded(a, b) for a, b in zip(x, y)], "pyval")
    if isinstance(y, dict) and isinstance(x, dict) and list(x) == list(y):
        return "(VDict %s)" % coq_list(["(%s, %s)" % (coq_str(k), cv_loaded(x[k], y[k])) for k in y], "(pystr * pyval)")
    return cv(y)


EXC = {"AttributeError": "AttributeError", "ValueError": "ValueError", "KeyError": "KeyError", "TypeError": "TypeError",
       "IndexError": "IndexError"}
MARKERS = [(None, "PNone"), (0, "PInt"), ("", "PStr"), (bool, "PBool"), ({}, "PDict"), ([], "PList"), ("DICT_TYPE", "PDictType")]


def gen_json(rng, depth=0):
    r = rng.random()
    if depth > 2 or r < 0.45:
        return rng.choice(["", "x", "BYTES:QUJD", "BYTES:", "BYTE", "bytes:QQ==", "BYTES:!!", "class", " s ", "å", 0, 1, -7, True, False, None,
                           "upstream_get", "BYTES:QQ=="])
    if r < 0.7:
        return [gen_json(rng, depth + 1) for _ in range(rng.randint(0, 3))]
    d = {}
    for _ in range(rng.randint(0, 3)):
        k = rng.choice(["a", "b", "class", "upstream_get", "kwargs", "DICT_TYPE", "BYTES:k", "x y"])
        if k == "class" and rng.random() < 0.7:
            d[k] = rng.choice(["pkg.mod.Cls", "BYTES:QQ==", ""])
        else:
            d[k] = gen_json(rng, depth + 1)
    return d


def codec_cases(ctx, rng, n, live):
    from idpyoidc.impexp import ImpExp
    from idpyoidc.server.authn_event import AuthnEvent
    from idpyoidc.message.oauth2 import AuthorizationRequest
    ie = ImpExp()
    dumps, loads = [], []
    msgs = [AuthnEvent(uid="diana", authn_info="pw", authn_time=1, valid_until=9),
            AuthorizationRequest(client_id="c", response_type="code", scope="openid", state="BYTES:x")]
    for i in range(n):
        mk, mt = rng.choice(MARKERS)
        v = gen_json(rng) if rng.random() < 0.9 else rng.choice(msgs)
        if rng.random() < 0.5:      # well-typed for its marker most of the time
            v = {"PDict": {"k": v}, "PList": [v], "PStr": "s%d" % i if not isinstance(v, str) else v,
                 "PInt": i, "PBool": bool(i % 2), "PDictType": {"c": {"client_id": "c"}}}.get(mt, v)
        try:
            r = ie.dump_attr(copy.deepcopy(mk) if isinstance(mk, (dict, list)) else mk, copy.deepcopy(v))
            rt = "(Ok %s)" % cv(r) if representable(r) else None
        except Exception as e:
            rt = "(Err %s)" % EXC[type(e).__name__] if type(e).__name__ in EXC else None
        if rt is None:
            ctx.unmodelled += 1
        else:
            dumps.append(("(%s, %s, %s)" % (mt, cv(v), rt), {"dump_attr": mt, "value": repr(v)[:200], "out": rt[:200]}))
        if hasattr(v, "to_dict"):
            continue
        try:
            r = ie.load_attr(copy.deepcopy(mk) if isinstance(mk, (dict, list)) else mk, copy.deepcopy(v))
            rt = "(Ok %s)" % cv_loaded(v, r)
        except binascii.Error:
            rt = None
        except Exception as e:
            rt = "(Err %s)" % EXC[type(e).__name__] if type(e).__name__ in EXC else None
        if rt is None:
            ctx.unmodelled += 1
        else:
            loads.append(("(%s, %s, %s)" % (mt, cv(v), rt), {"load_attr": mt, "value": repr(v)[:200], "out": rt[:200]}))
    for c in dumps + loads:
        ctx.case_seen(c[1], True)
    imp = ["Lib.Base", "Lib.PyStr", "Lib.ImpExpTy", "Model.ImpExp"]
    ctx.coq_check_cases(imp, "ptype * pyval * res pyval", "chk_dump_attr", dumps, label="dumpattr", diag="diag_dump_attr")
    ctx.coq_check_cases(imp, "ptype * pyval * res pyval", "chk_load_attr", loads, label="loadattr", diag="diag_load_attr")
    # how many of those the model declares outside its fragment (skipped, counted)
    body = ("Definition dc : list (ptype * pyval * res pyval) := [\n%s\n].\nDefinition lc : list (ptype * pyval * res pyval) := [\n%s\n].\n"
            "Eval vm_compute in (length (filter is_unmodelled_dump dc) + length (filter is_unmodelled_load lc))%%nat.\n"
            % (";\n".join(t for t, _ in dumps[:300]), ";\n".join(t for t, _ in loads[:300])))
    rc, out, vals = ctx.coq_eval("C13_unmodelled_count", imp, body)
    try:
        ctx.unmodelled += int(vals[-1].split(":")[0].strip().replace("%nat", ""))
    except Exception:
        ctx.notes.append("could not count Unmodelled codec cases: %s" % out[-200:])

    # ---- whole instances against the REGENERATED tables
    from idpyoidc.server.session.token import Item, SessionToken, AccessToken, AuthorizationCode, RefreshToken, IDToken
    from idpyoidc.server.session.info import NodeInfo, UserSessionInfo, ClientSessionInfo
    from idpyoidc.server.session.grant import Grant, GrantMessage
    from idpyoidc.client.current import Current
    objs = list(live)
    for i in range(n // 4):
        cls = rng.choice([Item, SessionToken, AccessToken, AuthorizationCode, RefreshToken, IDToken, NodeInfo, UserSessionInfo,
                          ClientSessionInfo, GrantMessage, Current, Grant])
        x = cls()
        for attr, marker in cls.parameter.items():
            if attr in cls.special_load_dump or rng.random() < 0.25:
                continue
            if marker == 0:
                val = rng.choice([0, 1, 1700000000, None])
            elif marker == "":
                val = rng.choice(["", "v%d" % i, "BYTES:QUJD" if rng.random() < 0.1 else "tok", None])
            elif marker is bool:
                val = rng.choice([True, False])
            elif marker == {}:
                val = rng.choice([{}, {"max_usage": 1, "supports_minting": ["access_token"]}, {"userinfo": {"email": None}}, None,
                                  {"upstream_get": 1, "class": "x.Y"}])
            elif marker == []:
                val = rng.choice([[], ["openid", "email"], ["u;;c"], None])
            elif marker is None:
                val = rng.choice([None, {"s": {"iss": "i"}}, {}])
            elif isinstance(marker, type):
                val = rng.choice([None, msgs[0]]) if marker is AuthnEvent else rng.choice([None, msgs[1]])
            else:
                continue
            setattr(x, attr, val)
        objs.append(x)
    dcases, lcases = [], []
    for x in objs:
        cls = type(x)
        cname = cls.__module__ + "." + cls.__name__
        attrs = {k: v for k, v in vars(x).items() if representable(v)}
        try:
            d = x.dump()
            for sp in cls.special_load_dump:
                d.pop(sp, None)
            rt = "(Ok %s)" % cv_items(d) if representable(d) else None
        except Exception as e:
            d, rt = None, ("(Err %s)" % EXC[type(e).__name__] if type(e).__name__ in EXC else None)
        if rt is None:
            ctx.unmodelled += 1
            continue
        rec = {"class": cname, "attrs": repr(attrs)[:300]}
        dcases.append(("(%s, %s, %s)" % (coq_str(cname), cv_items(attrs), rt), rec))
        ctx.case_seen(rec, True)
        if d is None:
            continue
        y = cls()
        o0 = {k: v for k, v in vars(y).items() if representable(v)}
        try:
            y.load(copy.deepcopy(d))
            after = {k: v for k, v in vars(y).items() if representable(v) and not isinstance(v, bytes)}
            bts = [k for k, v in vars(y).items() if isinstance(v, bytes)]
            if bts:
                ctx.unmodelled += 1
                continue
            rt = "(Ok %s)" % cv_items(after)
        except binascii.Error:
            ctx.unmodelled += 1
            continue
        except Exception as e:
            rt = "(Err %s)" % EXC[type(e).__name__] if type(e).__name__ in EXC else None
            if rt is None:
                ctx.unmodelled += 1
                continue
        lcases.append(("(%s, %s, %s, %s)" % (coq_str(cname), cv_items(o0), cv_items(d), rt), rec))
    imp = ["Lib.Base", "Lib.PyStr", "Lib.ImpExpTy", "Gen.ImpExpTables", "Model.ImpExp"]
    ctx.coq_check_cases(imp, "pystr * fields * res fields", "(chk_dump_obj impexp_tables)", dcases, shard=40, label="dumpobj")
    ctx.coq_check_cases(imp, "pystr * fields * fields * res fields", "(chk_load_obj impexp_tables)", lcases, shard=40, label="loadobj")


def grant_cases(ctx, grants):
    """whole Grant.dump() incl. issued_token / token_map against Model.ImpExp.grant_dump"""
    from idpyoidc.message import Message
    cases = []

    def qn(o):
        return type(o).__module__ + "." + type(o).__name__

    def obj(o, extra=None):
        items = [("__class__", "(VStr %s)" % coq_str(qn(o)))]
        for k, v in vars(o).items():
            if extra and k in extra:
                items.append((k, extra[k]))
            elif representable(v):
                items.append((k, cv(v)))
        return "(VObj %s)" % coq_list(["(%s, %s)" % (coq_str(k), t) for k, t in items], "(pystr * pyval)"), items

    for g in grants:
        toks = coq_list([obj(t)[0] for t in g.issued_token], "pyval")
        tm = "(VDict %s)" % coq_list(["(%s, (VStr %s))" % (coq_str(k), coq_str(c.__module__ + "." + c.__name__)) for k, c in g.token_map.items()],
                                     "(pystr * pyval)")
        _, items = obj(g, {"issued_token": "(VList %s)" % toks, "token_map": tm})
        fields = coq_list(["(%s, %s)" % (coq_str(k), t) for k, t in items], "(pystr * pyval)")
        try:
            d = g.dump()
            if not representable(d):
                ctx.unmodelled += 1
                continue
            rt = "(Ok %s)" % cv_items(d)
        except Exception as e:
            rt = "(Err %s)" % EXC[type(e).__name__] if type(e).__name__ in EXC else None
            if rt is None:
                ctx.unmodelled += 1
                continue
        rec = {"grant": qn(g), "tokens": [t.token_class for t in g.issued_token], "used": g.used, "revoked": g.revoked}
        cases.append(("(%s, %s)" % (fields, rt), rec))
        ctx.case_seen(rec, bool(g.issued_token))
    imp = ["Lib.Base", "Lib.PyStr", "Lib.ImpExpTy", "Gen.ImpExpTables", "Model.ImpExp"]
    ctx.coq_check_cases(imp, "fields * res fields", "(chk_grant_dump impexp_tables)", cases, shard=10, label="grantdump")


def harvest_live(P):
    """live Item-family / node objects of a provider after a history (deep copies)"""
    from idpyoidc.server.session.grant import Grant
    out = []
    for k, nd in P.ctx.session_manager.db.items():
        out.append(copy.deepcopy(nd))
        if isinstance(nd, Grant):
            out += [copy.deepcopy(t) for t in nd.issued_token]
    return out


# ======================================================================================== entry points
def run(ctx):
    import srv
    rng = ctx.rng
    q = ctx.quick
    # (1) file store
    shutil.rmtree(os.path.join(ctx.dir, "fs"), ignore_errors=True)
    traces = []
    for i in range(24 if q else 400):
        traces.append(fs_trace(ctx, rng, rng.randint(8, 40), "json" if i % 3 == 2 else "passthru", i))
    imp = ["Lib.Base", "Lib.PyStr", "Lib.Urlenc", "Model.FileStore"]
    ctx.coq_check_cases(imp, "list obs", "chk_trace", traces, shard=12, label="fstrace", diag="diag_trace")
    fs_witnesses(ctx)
    quote_cases(ctx, rng, 200 if q else 4000)
    shutil.rmtree(os.path.join(ctx.dir, "fs"), ignore_errors=True)

    # (2) provider
    clock = srv.Clock().install()
    reb = Rebinder(clock)
    live = []
    try:
        kinds = [({"jwt_access": False, "pin": "pwsalt"}, "context", True), ({"jwt_access": True, "pin": "pwsalt"}, "context", True),
                 ({"jwt_access": False, "pin": "key"}, "context", True), ({"jwt_access": False, "pin": "keyfile"}, "context", True),
                 ({"jwt_access": False, "pin": "pwsalt"}, "session_manager", False)]
        reps = 2 if q else 20
        for kind in (kinds[0][0], kinds[1][0]):
            live += harvest_live(provider_history(ctx, rng, reb, kind, 0, True, "context", fixed=MATRIX))[:40]
        for kind, how, rich in kinds:
            for r in range(reps):
                P = provider_history(ctx, rng, reb, kind, rng.randint(8, 14) if q else rng.randint(10, 24), rich, how)
                if r == 0:
                    live += harvest_live(P)
        jwks_def_witness(ctx, reb)
        par_json_witness(ctx, reb)
    finally:
        reb.restore()
        clock.uninstall()

    # (3) relying party
    for _ in range(4 if q else 80):
        rp_history(ctx, rng, rng.randint(8, 16))

    # (4) codec
    from idpyoidc.server.session.grant import Grant
    grant_cases(ctx, [x for x in live if isinstance(x, Grant)][:24 if q else 300])
    codec_cases(ctx, rng, 400 if q else 6000, live[:60 if q else 800])


def replay(ctx, rp):
    ctx.notes.append("replay re-runs the generator with the recorded seed")
    ctx.rng.seed(rp.get("seed", ctx.seed))
    run(ctx)
