"""C14 driver — session database: identifier codec and tree operations.

Drives the real SessionManager (GrantManager/Database API) with operation traces over hostile
identifiers; after every operation the whole database is snapshotted. The Gallina model
(Model/Db.v, Model/Lv.v) is evaluated on the same traces by vm_compute (check_trace). Separately the
property oracle (written from the property text, independent of the model) checks resolution of
every handed-out session id, tree consistency, exact removal and the frame condition.
"""
import base64
import copy
import json

import engine as E
from engine import coq_str, coq_list, coq_bool, coq_nat, coq_z

RULE = ("operation traces (10-56 draws, each 1-4 operations) over 4 users x 4 clients with identifiers from a hostile alphabet "
        "(';', ';;', ':', digits mimicking length prefixes, whitespace, unicode, empty); ops = add_grant / "
        "revoke_sub_tree(level) and remove_session / remove_branch THROUGH AN IDENTIFIER (one used before in a query or "
        "another operation, a second identifier of the same path, a fresh one, a tampered one; identifiers of user, "
        "client, grant level and of paths that are not stored) / delete(path at every depth) / flush / the READ-ONLY "
        "queries interleaved and repeated (sm[id], get, get_user_info, get_node_info by level and by node_type, "
        "get_grant, get_client_session_info, get_user_session_info, client_session_is_revoked, get_grant_argument, "
        "branch_info with and without selection, get_session_info, get_subordinates, grants by id and by path, "
        "get_authentication_events, find_token, decrypt_branch_id / decrypt_session_id, encrypted_branch_id); lists and "
        "dicts handed back by a query are emptied / scribbled on by the caller; after EVERY operation the whole database "
        "is snapshotted and EVERY identifier handed out so far is resolved again (decrypt -> path, sm[id] -> node); "
        "a case is one trace, non-trivial when it contains an accepted add_grant, a delete or revoke and a query; plus "
        "pure codec cases for lv_pack / lv_unpack / branch_key / unpack_branch_key / int(); "
        "CREATION goes through every entry point (add_grant / add_exchange_grant with an explicit path, create_session / "
        "create_grant / create_exchange_session / create_exchange_grant through make_path; sub_type public / pairwise / "
        "ephemeral) and revoke_client_session is an operation; a second family of histories draws users and clients from "
        "pools of NORMALISATION-EQUIVALENT-BUT-DIFFERENT identifiers (one base string and its spellings with leading / "
        "trailing white space of every kind str.strip() removes, other letter case / case folding, NFC / NFD / NFKC / NFKD "
        "forms, a trailing NUL, zero-width characters): after every creation the session id, get_session_info, "
        "get_user_info(user), get([user, client]), grants(sid) and get_authentication_events(user_id, client_id) are asked "
        "with the identifiers exactly as given, and only the three nodes of the created path may have changed")
ASSUMPTIONS = ["the encrypter under a branch id (cryptojwt's FernetEncrypter over cryptography's Fernet, an authenticated "
               "encryption) hands back the plaintext up to trailing blanks: decrypt(encrypt(m)) = rstrip_blanks(m + blanks) - it "
               "pads with U+0020 and strips every trailing U+0020; the library's framing lv_pack(rnd, key, '') makes that "
               "harmless (theorem C14_sid_resolves_through_encrypter); an identifier that does not resolve to the path it was "
               "minted for because of it is reported as id-trailing-space and not used further in the history",
               "uuid1().hex grant ids are fresh and contain no ';'"]

EXC = {"ValueError": "ValueError", "KeyError": "KeyError", "AttributeError": "AttributeError",
       "IndexError": "IndexError", "TypeError": "TypeError"}


def coq_res_unit(r):
    return "(Ok tt)" if r == "ok" else "(Err %s)" % r


def snap(sm):
    from idpyoidc.server.session.grant import Grant
    out = []
    for k, n in sm.db.items():
        if isinstance(n, Grant):
            out.append((k, True, "", [], bool(n.revoked)))
        else:
            out.append((k, False, n.id, list(n.subordinate), bool(n.revoked)))
    return out


def coq_snap(s):
    return coq_list(["(%s, (%s, %s, %s, %s))" % (coq_str(k), coq_bool(g), coq_str(i),
                                                    coq_list([coq_str(x) for x in subs], "pystr"), coq_bool(r))
                     for k, g, i, subs, r in s], "snap_node")


def coq_op(op):
    t = op[0]
    if t == "add":
        return "(OAddGrant %s %s %s false)" % (coq_str(op[1]), coq_str(op[2]), coq_str(op[3]))
    if t == "revoke":
        lvl = "None" if op[2] is None else "(Some %s)" % coq_nat(op[2])
        return "(ORevoke %s %s)" % (coq_list([coq_str(x) for x in op[1]], "pystr"), lvl)
    if t == "delete":
        return "(ODelete %s)" % coq_list([coq_str(x) for x in op[1]], "pystr")
    return "OFlush"


IDS_OK = ["diana", "u2", "client_1", "c", "x:y", "3:abc", "a;b", " lead", "trail ", "new\nline", "åäö", "0", "a:;:b",
          ";lead", ";a;b", "dian", "client_12", "", " ", "end  "]    # the empty identifier (default of create_session); a single ';' at the start is legal; string-prefix relations
IDS_BAD = ["a;;b", "semi;", ";;", "x;;;y", ";"]

# ---- normalisation-equivalent-but-different identifiers: every string of a family is a DIFFERENT identifier
WHITE = [" ", "\t", "\n", "\r", "\x0b", "\x0c", "\x1c", "\x1d", "\x1e", "\x1f", "\x85", "\xa0", "\u1680", "\u2000",
         "\u2003", "\u2009", "\u200a", "\u2028", "\u2029", "\u202f", "\u205f", "\u3000"]      # what str.strip() removes
BASES = ["alice", "rp", "Zo\u00eb", "\ufb01ona", "stra\u00dfe", "\uff21dmin", "client_1", "\u0130d", "o\u0308zil", "", "\u212bngstr\u00f6m",
         "https://rp.example/cb"]


def equiv_family(base):
    """different strings that some normalisation (strip, case mapping, Unicode normal form, cut at NUL, removal of
    zero-width characters) maps to the same string as `base`; base first"""
    import unicodedata
    out = [base]
    for w in WHITE:
        out += [base + w, w + base]
    out += ["\t" + base + "\n", " " + base + " ", base + "  ", base + "\r\n", "\u3000" + base + "\xa0"]
    out += [base.upper(), base.lower(), base.capitalize(), base.swapcase(), base.casefold(), base.title()]
    out += [unicodedata.normalize(f, base) for f in ("NFC", "NFD", "NFKC", "NFKD")]
    out += [unicodedata.normalize("NFKC", base).casefold(), unicodedata.normalize("NFD", base.upper())]
    out += [base + "\x00", base + "\x00x", "\ufeff" + base, base + "\u200b", base + "\u00ad"]
    seen, fam = set(), []
    for x in out:
        if x not in seen:
            seen.add(x)
            fam.append(x)
    return fam


ENTRIES = ["add_grant", "create_session", "create_grant", "create_exchange_session", "create_exchange_grant", "add_exchange_grant"]
COQ_ENTRY = {"add_grant": "EAddGrant", "create_session": "ECreateSession", "create_grant": "ECreateGrant",
             "create_exchange_session": "ECreateExchangeSession", "create_exchange_grant": "ECreateExchangeGrant",
             "add_exchange_grant": "EAddExchangeGrant"}

POOL_CAP = 30          # identifiers that are re-resolved after every operation
LEVEL_CLASS = {1: ("UserSessionInfo",), 2: ("ClientSessionInfo",), 3: ("Grant", "ExchangeGrant")}   # an ExchangeGrant is a Grant
NODE_TYPES = ["user", "client", "grant"]


def exc_name(e):
    n = type(e).__name__
    if n == "InvalidBranchID":
        return n
    return EXC.get(n, "TypeError")


def coq_exc(n):
    return "(Refused 1)" if n == "InvalidBranchID" else n


def structural_oracle(sm, ctx, trace_rec):
    """every stored node reachable from its parent; subordinate entries exist; grants are leaves"""
    from idpyoidc.server.session.grant import Grant
    db = sm.db
    for k, n in db.items():
        parts = k.split(";;")
        if len(parts) > 1:
            pk = ";;".join(parts[:-1])
            if pk not in db:
                ctx.violation("orphan", "node %r stored but its parent %r is not" % (k, pk), trace_rec)
            elif k not in getattr(db[pk], "subordinate", []):
                ctx.violation("unlisted", "node %r not listed by its parent %r" % (k, pk), trace_rec)
        if isinstance(n, Grant):
            continue
        for s in n.subordinate:
            if s not in db:
                ctx.violation("dangling", "node %r lists missing subordinate %r" % (k, s), trace_rec)
            elif not s.startswith(k + ";;"):
                ctx.violation("foreign-child", "node %r lists %r which is not below it" % (k, s), trace_rec)


def node_snap(k, n):
    from idpyoidc.server.session.grant import Grant
    from idpyoidc.server.session.info import NodeInfo
    if isinstance(n, Grant):
        return (k, True, "", [], bool(n.revoked))
    if isinstance(n, NodeInfo):
        return (k, False, n.id, list(n.subordinate), bool(n.revoked))
    return ("<not a node: %s>" % type(n).__name__, False, "", [], False)


def deep(sm):
    """everything the database holds, for the read-only check: the exported state, and which object sits where"""
    return (json.dumps(sm.dump(), sort_keys=True, default=str), tuple((k, id(v)) for k, v in sm.db.items()))


class _Capped:
    """the driver's view of ctx inside one history: the first violations of a history are recorded in full, the
    rest only counted (one broken identifier fails every later re-resolution of the history)"""
    CAP = 6

    def __init__(self, ctx):
        self._ctx, self._n = ctx, {}

    def __getattr__(self, name):
        return getattr(self._ctx, name)

    def violation(self, sig, what, case):
        self._n[sig] = self._n.get(sig, 0) + 1
        if self._n[sig] <= self.CAP:
            self._ctx.violation(sig, what, case)
        else:
            self._ctx.count("violations-not-recorded-in-full:" + sig)


class TraceRun:
    """One history on the real SessionManager.  Operations: add_grant, revoke_sub_tree / remove_branch through an
    identifier (an identifier used before, or a fresh one), delete(path), flush, and the read-only queries through
    a path or an identifier of any level.  After EVERY operation: whole-database snapshot, and every identifier
    handed out so far is resolved again (decrypt_branch_id and sm[id])."""

    def __init__(self, ctx, server, rng, n, hostile, scribble, equiv=False):
        self.ctx, self.rng, self.n = _Capped(ctx), rng, n
        self.equiv = equiv
        self.scribble = scribble    # the caller empties / appends to every list or dict a query hands back
        self.sm = server.context.session_manager
        self.sm.flush()
        self.users = rng.sample(IDS_OK, 3) + ([rng.choice(IDS_BAD)] if hostile else [])
        self.clients = rng.sample(IDS_OK, 3) + ([rng.choice(IDS_BAD)] if hostile else [])
        if equiv:
            # users of one family, clients of another: any two of them are different identifiers
            fu, fc = equiv_family(rng.choice(BASES)), equiv_family(rng.choice(BASES))
            self.users = ([fu[0]] if rng.random() < 0.7 else []) + rng.sample(fu[1:], 3)
            self.clients = ([fc[0]] if rng.random() < 0.7 else []) + rng.sample(fc[1:], 2)
            rng.shuffle(self.users)
            rng.shuffle(self.clients)
        self.pool = []          # identifiers handed out: {bid, plain, path, how, grant}
        self.live = []          # (sid, path, grant object) of add_grant
        self.all_paths = []
        self.steps = []         # (xop, out, snapshot, resolution vector)
        self.rec = {"users": self.users, "clients": self.clients, "identifier_pools": "normalisation-equivalent" if equiv else "hostile alphabet",
                    "after_every_op": "every identifier handed out so far is resolved again: decrypt_branch_id(id), sm[id]",
                    "caller_modifies_returned_lists": scribble, "ops": []}
        self.sid_cases = []
        self.bad_id = None

    # ---------------------------------------------------------------- identifiers
    def plain_of(self, bid):
        return self.sm.crypt.decrypt(base64.b64decode(bid)).decode()

    def register(self, bid, path, how, grant=None, pooled=True):
        from idpyoidc.server.util import lv_unpack
        plain = self.plain_of(bid)
        e = {"bid": bid, "plain": plain, "path": list(path), "how": how, "grant": grant, "n": len(self.pool) if pooled else None}
        if pooled:
            self.pool.append(e)
        rnd = lv_unpack(plain)[0]
        self.sid_cases.append(("(%s, %s, %s)" % (coq_str(rnd), coq_list([coq_str(x) for x in path], "pystr"), coq_str(plain)),
                               {"sid_plain": plain, "path": list(path)}))
        return e

    def describe_target(self, t):
        if t[0] == "path":
            return {"path": t[1]}
        if t[0] == "id":
            return {"id_no": t[1]["n"], "issued_for": t[1]["path"], "issued_by": t[1]["how"]}
        return {"id": "tampered"}

    def mint(self, path):
        """encrypted_branch_id(*path) as an operation of the history (read-only); None when refused"""
        before = self.before()
        sm = self.sm
        try:
            bid = sm.encrypted_branch_id(*path)
            back = list(sm.decrypt_branch_id(bid))
            if back != list(path) and path[-1].endswith(" ") and back == list(path[:-1]) + [path[-1].rstrip(" ")]:
                # the encryption layer is not the identity on plaintexts that end in U+0020 (cryptojwt's FernetEncrypter
                # pads with spaces and strips them): outside the model's assumption decrypt(encrypt(m)) = m.  Reported
                # under its own signature; the identifier is not used further.
                self.ctx.violation("id-trailing-space", "encrypted_branch_id(*%r) hands out an identifier that resolves to %r"
                                   % (list(path), back), self.rec)
                self.ctx._ctx.unmodelled += 1
                self.ctx.count("mint:trailing-space")
                return None
            e = self.register(bid, path, "encrypted_branch_id", pooled=len(self.pool) < POOL_CAP)
            from idpyoidc.server.util import lv_unpack
            out = ("ok", lv_unpack(e["plain"])[1:2], [])      # the key the identifier carries
        except Exception as err:
            e, out = None, ("err", exc_name(err))
        self.finish(("query", ("path", list(path)), ("mint",)), out, before, "encrypted_branch_id", readonly=True)
        return e

    def id_for(self, path, fresh_p=0.3):
        """an identifier of the path: one used before, or a fresh one"""
        have = [e for e in self.pool if e["path"] == list(path)]
        if have and self.rng.random() >= fresh_p:
            return self.rng.choice(have)
        return self.mint(path)

    # ---------------------------------------------------------------- bookkeeping around one operation
    def before(self):
        return ({k: (g, i, tuple(s), r) for k, g, i, s, r in snap(self.sm)}, deep(self.sm))

    def resolve_all(self, rec_op):
        """every identifier handed out so far: decrypt -> path, sm[id] -> node.  The returned path list belongs to
        the caller: it is emptied after use."""
        sm, ctx = self.sm, self.ctx
        idmap = {id(v): k for k, v in sm.db.items()}
        vec = []
        for e in self.pool:
            path, key = e["path"], ";;".join(e["path"])
            try:
                ret = sm.decrypt_branch_id(e["bid"])
                got = list(ret)
                if self.scribble:
                    ret.clear()
                dec = ("ok", got)
                if got != path:
                    ctx.violation("sid-resolution", "identifier no %d issued for %r (%s) resolves to %r after %r"
                                  % (e["n"], path, e["how"], got, rec_op), self.rec)
            except Exception as err:
                dec = ("err", exc_name(err))
                ctx.violation("sid-resolution", "identifier no %d issued for %r no longer decrypts (%r) after %r"
                              % (e["n"], path, err, rec_op), self.rec)
            try:
                node = sm[e["bid"]]
                k = idmap.get(id(node), "<not stored>")
                res = ("ok", node_snap(k, node))
                if key not in sm.db:
                    ctx.violation("sid-resolution", "identifier no %d issued for %r: its node is gone but sm[id] gives node %r after %r"
                                  % (e["n"], path, k, rec_op), self.rec)
                elif node is not sm.db[key]:
                    ctx.violation("sid-resolution", "identifier no %d issued for %r: sm[id] gives the node stored at %r after %r"
                                  % (e["n"], path, k, rec_op), self.rec)
                elif type(node).__name__ not in LEVEL_CLASS.get(len(path), ()):
                    ctx.violation("sid-resolution", "identifier no %d issued for the %d-level path %r gives a %s"
                                  % (e["n"], len(path), path, type(node).__name__), self.rec)
                elif e["grant"] is not None and node is not e["grant"]:
                    ctx.violation("sid-resolution", "session id no %d of %r no longer gives the grant it was created with"
                                  % (e["n"], path), self.rec)
            except Exception as err:
                res = ("err", exc_name(err))
                if key in sm.db:
                    ctx.violation("sid-resolution", "identifier no %d issued for %r: the node is stored but sm[id] raises %r after %r"
                                  % (e["n"], path, err, rec_op), self.rec)
                elif not isinstance(err, KeyError):
                    ctx.violation("sid-resolution", "identifier no %d issued for the removed %r: sm[id] raises %r, not KeyError"
                                  % (e["n"], path, err), self.rec)
            vec.append((dec, res))
        return vec

    def finish(self, xop, out, before, api, readonly, op=None):
        """xop: the operation for the model; op: the old-style (op, path..) tuple of a mutating operation"""
        sm, ctx, rec = self.sm, self.ctx, self.rec
        before, before_deep = before
        s = snap(sm)
        rec_op = [api] + ([self.describe_target(xop[1])] if xop[0] in ("query", "revoke_id", "remove_id", "revoke_client") else []) + \
                 ([list(op[1:])] if op is not None and xop[0] == "op" else []) + ([xop[2]] if xop[0] == "revoke_id" else [])
        rec["ops"].append({"op": rec_op, "out": out if out[0] == "err" else "ok", "n_nodes": len(s)})
        after = {k: (g, i, tuple(sb), r) for k, g, i, sb, r in s}
        ctx.count("api:" + api)
        # ---- property oracle (independent of the model)
        structural_oracle(sm, ctx, rec)
        if readonly:
            if deep(sm) != before_deep:
                changed = sorted(k for k in set(before) | set(after) if before.get(k) != after.get(k))
                ctx.violation("query-mutates", "read-only %s changed the database (nodes %r)" % (rec_op, changed), rec)
        okout = "ok" if out[0] == "ok" else out[1]
        if op is not None:
            if op[0] != "flush":
                root = op[1] if op[0] == "add" else (op[1][0] if op[1] else None)
                for k in set(before) | set(after):
                    kr = k.split(";;")[0]
                    if kr != root and before.get(k) != after.get(k):
                        ctx.violation("frame", "op %r on branch %r changed node %r of another user" % (op, root, k), rec)
            if op[0] == "add" and okout == "ok":
                own = {op[1], ";;".join(op[1:3]), ";;".join(op[1:4])}
                for k in set(before) | set(after):
                    if k not in own and before.get(k) != after.get(k):
                        ctx.violation("frame", "creation (%s) for %r changed node %r, which is not on its path" % (op[4], list(op[1:4]), k), rec)
                if ";;".join(op[1:4]) not in after or not after[";;".join(op[1:4])][0]:
                    ctx.violation("orphan", "creation (%s) for %r: no grant is stored under its path" % (op[4], list(op[1:4])), rec)
            if op[0] == "delete" and okout == "ok":
                key = ";;".join(op[1])
                if key in before:
                    gone = set(before) - set(after)
                    sub = {k for k in before if k == key or k.startswith(key + ";;")}
                    # ancestors that became childless may go too
                    anc = set()
                    parts = op[1]
                    for i in range(len(parts) - 1, 0, -1):
                        pk = ";;".join(parts[:i])
                        kids = [x for x in before.get(pk, (0, 0, (), 0))[2] if x not in sub and x not in anc]
                        if pk in before and not kids:
                            anc.add(pk)
                        else:
                            break
                    if gone != sub | anc:
                        ctx.violation("remove-exact", "delete %r removed %r, expected subtree %r plus childless ancestors %r"
                                      % (op[1], sorted(gone), sorted(sub), sorted(anc)), rec)
                    # what stays is what it was (ancestors lose the entry of the removed child, nothing else)
                    for k in set(after):
                        if k not in before:
                            ctx.violation("remove-exact", "delete %r created node %r" % (op[1], k), rec)
                        elif before[k] != after[k]:
                            is_anc = key.startswith(k + ";;")
                            b, a = before[k], after[k]
                            if not (is_anc and (b[0], b[1], b[3]) == (a[0], a[1], a[3]) and
                                    [x for x in b[2] if x not in gone] == list(a[2])):
                                ctx.violation("remove-exact", "delete %r changed the surviving node %r: %r -> %r" % (op[1], k, b, a), rec)
                elif before != after:
                    ctx.violation("remove-exact", "delete of a missing path %r changed the database" % (op[1],), rec)
            if op[0] == "revoke" and okout == "ok":
                lvl = op[2]
                pre = op[1] if lvl is None else op[1][:lvl + 1]
                key = ";;".join(pre)
                for k in after:
                    inside = k == key or k.startswith(key + ";;")
                    if inside and not after[k][3]:
                        ctx.violation("revoke-cascade", "node %r below revoked %r is not revoked" % (k, key), rec)
                    if not inside and before.get(k) != after.get(k):
                        ctx.violation("frame", "revoke of %r changed %r" % (key, k), rec)
                if set(after) != set(before):
                    ctx.violation("frame", "revoke of %r added or removed nodes" % (key,), rec)
            if op[0] in ("delete", "revoke") and okout != "ok" and before != after:
                ctx.violation("frame", "refused %r (%s) changed the database" % (op, okout), rec)
        # every live session id still resolves to its own grant object (or is gone)
        for sid, path, grant in self.live:
            key = ";;".join(path)
            if key in sm.db:
                try:
                    if sm.decrypt_branch_id(sid) != path:
                        ctx.violation("sid-resolution", "sid for %r resolves elsewhere" % (path,), rec)
                except Exception as e:
                    ctx.violation("sid-resolution", "sid for %r no longer resolves: %r" % (path, e), rec)
        vec = self.resolve_all(rec_op)
        self.steps.append((xop, out, s, vec, op))

    # ---------------------------------------------------------------- mutating operations
    def create(self, entry, u, c):
        """one creation through the entry point `entry`; the identifiers go in exactly as drawn"""
        from idpyoidc.server.authn_event import create_authn_event
        from idpyoidc.message.oidc import AuthorizationRequest
        from idpyoidc.message.oauth2 import TokenExchangeRequest
        sm, rng = self.sm, self.rng
        if entry in ("add_grant",):
            return sm.add_grant([u, c], authentication_event=create_authn_event(u))
        if entry in ("create_session", "create_grant"):
            areq = AuthorizationRequest(client_id=c, redirect_uri="https://rp.example/cb", scope=["openid"], state="STATE",
                                        response_type="code")
            sub_type = rng.choice(["public", "public", "pairwise", "ephemeral"])
            return getattr(sm, entry)(create_authn_event(u), areq, user_id=u, client_id=c, sub_type=sub_type,
                                      sector_identifier="https://sector.example" if sub_type == "pairwise" else "")
        # token exchange: the new grant descends from a stored grant (of any user / client)
        sid0, _, g0 = rng.choice([l for l in self.live if ";;".join(l[1]) in sm.db])
        xreq = TokenExchangeRequest(grant_type="urn:ietf:params:oauth:grant-type:token-exchange", subject_token="tok",
                                    subject_token_type="urn:ietf:params:oauth:token-type:access_token")
        if entry == "add_exchange_grant":
            return sm.add_exchange_grant(exchange_request=xreq, original_branch_id=sid0, path=[u, c],
                                         authentication_event=g0.authentication_event, sub=g0.sub)
        return getattr(sm, entry)(xreq, g0, sid0, user_id=u, client_id=c)

    def creation_oracle(self, sid, u, c, gid, grant, before):
        """written from the property text: the session id handed out resolves to exactly the user, client and grant it
        was created for, and the identifiers AS GIVEN name the nodes of this creation - not those of another identifier"""
        sm, ctx, rec = self.sm, self.ctx, self.rec
        db = sm.db

        def bad(what):
            ctx.violation("creation-verbatim", "creation for user %r client %r: %s" % (u, c, what), rec)
        try:
            info = sm.get_session_info(sid)
            if info["user_id"] != u or info["client_id"] != c or info["grant_id"] != gid:
                bad("get_session_info(sid) names (%r, %r, %r)" % (info["user_id"], info["client_id"], info["grant_id"]))
            if info["grant"] is not grant or getattr(info["user"], "id", None) != u or getattr(info["client"], "id", None) != c:
                bad("get_session_info(sid) hands back the nodes of user %r client %r" % (getattr(info["user"], "id", None),
                                                                                         getattr(info["client"], "id", None)))
        except Exception as err:
            bad("get_session_info(sid) raises %r" % (err,))
        try:
            un = sm.get_user_info(u)
            if un.id != u:
                bad("get_user_info(%r) gives the node of user %r" % (u, un.id))
        except Exception as err:
            un = None
            bad("get_user_info(%r) raises %r although the user has a session" % (u, err))
        try:
            cn = sm.get([u, c])
            if getattr(cn, "id", None) != c or type(cn).__name__ != "ClientSessionInfo":
                bad("get([user, client]) gives %s %r" % (type(cn).__name__, getattr(cn, "id", None)))
            elif un is not None and not any(db.get(k) is cn for k in un.subordinate):
                bad("the client node is not listed by the user node of %r" % (u,))
            elif not any(db.get(k) is grant for k in cn.subordinate):
                bad("the new grant is not listed by the client node of (%r, %r)" % (u, c))
        except Exception as err:
            cn = None
            bad("get([%r, %r]) raises %r although the pair has a session" % (u, c, err))
        if ";" not in u + c:
            # the grants of this very pair: what was stored for it before, plus the new one
            ck = u + ";;" + c + ";;"
            mine_before = sorted(k for k, v in before[0].items() if v[0] and k.startswith(ck))
            try:
                got = sm.grants(sid)
                idmap = {id(v): k for k, v in db.items()}
                keys = sorted(idmap.get(id(g), "<not stored>") for g in got)
                if keys != sorted(mine_before + [ck + gid]):
                    bad("grants(sid) lists %r; this pair had %r and was given %r" % (keys, mine_before, ck + gid))
            except Exception as err:
                bad("grants(sid) raises %r" % (err,))
            if u and c:
                try:
                    evs = sm.get_authentication_events(user_id=u, client_id=c)
                    if len(evs) != len(mine_before) + 1 or not any(e is grant.authentication_event for e in evs):
                        bad("get_authentication_events(user_id, client_id) gives %d events, the pair has %d grants"
                            % (len(evs), len(mine_before) + 1))
                except Exception as err:
                    bad("get_authentication_events(user_id=%r, client_id=%r) raises %r" % (u, c, err))

    def op_add(self):
        sm, rng = self.sm, self.rng
        u, c = rng.choice(self.users), rng.choice(self.clients)
        entry = rng.choice(ENTRIES)
        if entry in ("create_exchange_session", "create_exchange_grant", "add_exchange_grant") and \
                not any(";;".join(l[1]) in sm.db for l in self.live):
            entry = {"add_exchange_grant": "add_grant", "create_exchange_grant": "create_grant"}.get(entry, "create_session")
        before = self.before()
        gid, out = "x", ("ok", [], [])
        made = None
        try:
            sid = self.create(entry, u, c)
            path = sm.decrypt_branch_id(sid)
            gid = path[-1] if len(path) == 3 else "x"
            grant = sm[sid]
            if type(grant).__name__ == "ExchangeGrant" and grant.authentication_event is not None:
                # the library lets an exchange grant share the AuthnEvent OBJECT of the grant it descends from; the
                # driver tells whose event an answer of get_authentication_events is by object identity, so the new
                # grant is given its own copy (same content)
                grant.authentication_event = copy.copy(grant.authentication_event)
            self.live.append((sid, [u, c, gid], grant))
            self.all_paths.append([u, c, gid])
            # oracle: resolves to exactly what it was created for
            if path != [u, c, gid] or len(path) != 3:
                self.ctx.violation("sid-resolution", "session id created (%s) for %r resolves to %r" % (entry, [u, c], path), self.rec)
            self.register(sid, [u, c, gid], entry, grant=grant, pooled=len(self.pool) < POOL_CAP + 10)
            made = (sid, grant)
        except Exception as e:
            out = ("err", exc_name(e))
        if made is not None:
            self.creation_oracle(made[0], u, c, gid, made[1], before)
        op = ("add", u, c, gid, entry)
        self.ctx.count("create:" + entry)
        self.finish(("op", op), out, before, entry, readonly=False, op=op)

    def op_revoke_client(self):
        """revoke_client_session(id): through a session id handed out by a creation, or any other identifier"""
        rng, sm = self.rng, self.sm
        if not self.all_paths:
            return
        path = rng.choice(self.all_paths)
        if rng.random() < 0.2:
            path = path[:rng.choice([1, 2])]
        e = self.id_for(path, fresh_p=0.15)
        if e is None:
            return
        before = self.before()
        out = ("ok", [], [])
        try:
            sm.revoke_client_session(e["bid"])
        except Exception as err:
            out = ("err", exc_name(err))
        self.finish(("revoke_client", ("id", e)), out, before, "revoke_client_session", readonly=False, op=("revoke", list(path), 1))

    def op_revoke(self):
        rng, sm = self.rng, self.sm
        if not self.all_paths:
            return
        lvl = rng.choice([None, None, 0, 1, 2, 3, 5])
        path = rng.choice(self.all_paths)
        if rng.random() < 0.4:
            path = path[:rng.choice([1, 2])]        # an identifier of the user or the client node
        if rng.random() < 0.06:
            tgt, bid = ("bad",), self.tampered()
        else:
            e = self.id_for(path)
            if e is None:
                return
            tgt, bid = ("id", e), e["bid"]
        before = self.before()
        out = ("ok", [], [])
        try:
            sm.revoke_sub_tree(bid, lvl)
        except Exception as err:
            out = ("err", exc_name(err))
        op = ("revoke", list(path), lvl) if tgt[0] == "id" else None
        self.finish(("revoke_id", tgt, lvl), out, before, "revoke_sub_tree", readonly=(op is None), op=op)

    def op_delete(self):
        rng, sm = self.rng, self.sm
        depth, odd = rng.choice([1, 2, 3, 3, 3]), rng.random() < 0.25
        odd = odd or not self.all_paths
        if odd:
            path = [rng.choice(self.users + ["nobody"]), rng.choice(self.clients + ["noclient"]), "nogrant"][:depth]
        else:
            path = rng.choice(self.all_paths)[:depth]
        if self.all_paths and rng.random() < 0.12:
            # an identifier that spells the stored key of somebody else's inner node ("user;;client")
            q = rng.choice(self.all_paths)
            j = rng.choice([2, 3])
            path = [";;".join(q[:j])] + (q[j:] if rng.random() < 0.5 else [])
            odd = True
            self.ctx.count("delete:alias-of-inner-key")
        by_id = rng.random() < (0.5 if not odd else 0.3)
        e = self.id_for(path) if by_id else None
        if by_id and e is None and rng.random() < 0.3:
            e = "bad"
        before = self.before()
        out = ("ok", [], [])
        op = ("delete", list(path))
        try:
            if e == "bad":
                op = None
                sm.remove_branch(self.tampered())
            elif e is not None:
                (sm.remove_session if rng.random() < 0.5 else sm.remove_branch)(e["bid"])
            else:
                sm.delete(path)
        except Exception as err:
            out = ("err", exc_name(err))
        if e == "bad":
            self.finish(("remove_id", ("bad",)), out, before, "remove_branch", readonly=True)
        elif e is not None:
            self.finish(("remove_id", ("id", e)), out, before, "remove_session", readonly=False, op=op)
        else:
            self.finish(("op", op), out, before, "delete", readonly=False, op=op)

    def op_flush(self):
        before = self.before()
        self.sm.flush()
        op = ("flush",)
        self.finish(("op", op), ("ok", [], []), before, "flush", readonly=False, op=op)

    def tampered(self):
        if self.bad_id is None or self.rng.random() < 0.3:
            src = self.rng.choice(self.pool)["bid"] if self.pool else base64.b64encode(b"gAAAAABnothing").decode()
            i = self.rng.randrange(len(src) // 2, len(src) - 2)
            # the changed character must change the BYTES the text encodes: the last character in front of base64 padding
            # carries bits no decoder reads, so replacing it can give another spelling of the very same identifier (which
            # then rightly resolves to its own session - seen once in a thorough run, a false alarm of this generator)
            def raw(t):
                try:
                    return base64.urlsafe_b64decode(t + "=" * (-len(t) % 4))
                except Exception:
                    return None
            while i > 0:
                bad = src[:i] + ("A" if src[i] != "A" else "B") + src[i + 1:]
                if raw(bad) is None or raw(bad) != raw(src):
                    break
                i -= 1
            self.bad_id = bad
        return self.bad_id

    # ---------------------------------------------------------------- read-only queries
    def some_path(self):
        rng = self.rng
        r = rng.random()
        if self.all_paths and r < 0.7:
            return rng.choice(self.all_paths)[:rng.choice([1, 2, 2, 3])]
        if self.all_paths and r < 0.8:
            q = rng.choice(self.all_paths)
            return q + ["extra"]
        if self.all_paths and r < 0.88:
            q = rng.choice(self.all_paths)
            j = rng.choice([2, 3])
            return [";;".join(q[:j])] + q[j:]
        return [rng.choice(self.users + ["nobody"]), rng.choice(self.clients + ["noclient"]), "nogrant"][:rng.choice([1, 2, 3])]

    def op_query(self):
        rng, sm, ctx = self.rng, self.sm, self.ctx
        r = rng.random()
        if r < 0.08:
            tgt = ("bad",)
        elif r < 0.70:
            if self.pool and rng.random() < 0.75:
                tgt = ("id", rng.choice(self.pool))          # an identifier used before
            else:
                e = self.mint(self.some_path())              # an identifier of any level, a second identifier of a path
                if e is None or e["n"] is None:
                    return
                tgt = ("id", e)
        else:
            tgt = ("path", [] if rng.random() < 0.04 else list(self.some_path()))
        repeat = 1 if rng.random() < 0.6 else rng.choice([2, 3])     # the same question asked again
        if tgt[0] == "path":
            kind = rng.choice(["get", "get", "subs", "subs", "grants", "grants", "user_info"])
            if kind == "user_info" and len(tgt[1]) != 1:
                kind = "get"
        else:
            kind = rng.choice(["getitem", "getitem", "node_info", "node_info", "node_type", "typed", "typed", "branch_info",
                               "session_info", "grants", "grants", "grants", "authn", "find_token", "decrypt", "decrypt",
                               "scalar"])
        lvl = rng.choice([0, 1, 2, 2, 3])
        sel = rng.choice([[], [], [0], [1], [2], [0, 1], [1, 2], [2, 0]])
        for _ in range(repeat):
            self.one_query(tgt, kind, lvl, sel)

    def one_query(self, tgt, kind, lvl, sel):
        sm, ctx, rng = self.sm, self.ctx, self.rng
        before = self.before()
        idmap = {id(v): k for k, v in sm.db.items()}
        bid = tgt[1]["bid"] if tgt[0] == "id" else (self.tampered() if tgt[0] == "bad" else None)
        path = tgt[1] if tgt[0] == "path" else None

        def nodes(objs):
            return [node_snap(idmap.get(id(o), "<not stored>"), o) for o in objs]
        expect = None          # oracle: keys of the nodes the answer must consist of (None: not judged)
        issued = tgt[1]["path"] if tgt[0] == "id" else path
        try:
            if kind in ("getitem", "get", "user_info"):
                q, api = ("get",), {"getitem": "__getitem__", "get": "get", "user_info": "get_user_info"}[kind]
                node = sm[bid] if kind == "getitem" else (sm.get(path) if kind == "get" else sm.get_user_info(path[0]))
                out = ("ok", [], nodes([node]))
                expect = [";;".join(issued)] if issued else None
            elif kind == "scalar":
                # scalar questions about the node of the identifier; judged against the database itself
                q, api = ("get",), "get_grant_argument"
                val = sm.get_grant_argument(bid, "revoked")
                node = sm[bid]
                if val is not node.revoked:
                    ctx.violation("query-answer", "get_grant_argument(id of %r, 'revoked') = %r but the node says %r"
                                  % (issued, val, node.revoked), self.rec)
                out = ("ok", [], nodes([node]))
                expect = [";;".join(issued)]
            elif kind in ("node_info", "node_type"):
                q, api = ("nodeinfo", lvl, False), "get_node_info"
                if kind == "node_type":
                    lvl = min(lvl, 2)
                    q = ("nodeinfo", lvl, False)
                    ident, node = sm.get_node_info(bid, node_type=NODE_TYPES[lvl])
                else:
                    ident, node = sm.get_node_info(bid, level=lvl)
                out = ("ok", [ident], nodes([node]))
                expect = [";;".join(issued[:lvl + 1])]
            elif kind == "typed":
                lvl = min(lvl, 2)
                q, api = ("nodeinfo", lvl, True), ["get_user_session_info", "get_client_session_info", "get_grant"][lvl]
                node = getattr(sm, api)(bid)
                if lvl == 1 and rng.random() < 0.5:
                    if sm.client_session_is_revoked(bid) is not node.revoked:
                        ctx.violation("query-answer", "client_session_is_revoked(id of %r) disagrees with the client node" % (issued,), self.rec)
                out = ("ok", [], nodes([node]))
                expect = [";;".join(issued[:lvl + 1])]
            elif kind in ("branch_info", "session_info"):
                if kind == "session_info":
                    sel = []
                q, api = ("branchinfo", sel), ("branch_info" if kind == "branch_info" else "get_session_info")
                lv = [i for i in range(3) if not sel or i in sel]
                info = sm.get_session_info(bid) if kind == "session_info" else sm.branch_info(bid, *[NODE_TYPES[i] for i in sel])
                if info.get("branch_id") != bid or sorted(info) != sorted(["branch_id"] + [NODE_TYPES[i] for i in lv] + [NODE_TYPES[i] + "_id" for i in lv]):
                    ctx.violation("query-answer", "%s(id of %r) has keys %r / another branch_id" % (api, issued, sorted(info)), self.rec)
                out = ("ok", [info[NODE_TYPES[i] + "_id"] for i in lv], nodes([info[NODE_TYPES[i]] for i in lv]))
                expect = [";;".join(issued[:i + 1]) for i in lv]
                if self.scribble:
                    info.clear()
            elif kind == "subs":
                q, api = ("subs",), "get_subordinates"
                ret = sm.get_subordinates(path)
                out = ("ok", [], nodes(ret))
                expect = list(before[0][";;".join(path)][2]) if path and ";;".join(path) in before[0] else None
                if self.scribble:
                    ret.clear()
            elif kind == "grants":
                q, api = ("grants", tgt[0] != "path"), "grants"
                if tgt[0] == "path":
                    ret = sm.grants(path=path)
                else:
                    ret = sm.grants(bid) if rng.random() < 0.5 else sm.grants(branch_id=bid)
                out = ("ok", [], nodes(ret))
                # the grants of the very (user, client) the question is about
                ck = ";;".join(issued[:2]) if tgt[0] != "path" and len(issued) == 3 else ";;".join(issued)
                expect = [k for k, v in before[0].items() if v[0] and k.startswith(ck + ";;") and len(k.split(";;")) == len(ck.split(";;")) + 1]
                if self.scribble:
                    ret.clear()
            elif kind == "authn":
                q, api = ("authn",), "get_authentication_events"
                evs = sm.get_authentication_events(session_id=bid)
                owners = {id(v.authentication_event): v for v in sm.db.values() if getattr(v, "authentication_event", None) is not None}
                out = ("ok", [], nodes([owners.get(id(ev), ev) for ev in evs]))
                ck = ";;".join(issued[:2])
                expect = [k for k, v in before[0].items() if v[0] and k.startswith(ck + ";;")]
                if self.scribble:
                    evs.clear()
            elif kind == "find_token":
                q, api = ("findtoken",), "find_token"
                tok = sm.find_token(bid, "no-such-token-value")
                out = ("ok", [], []) if tok is None else ("ok", ["<a token>"], [])
            else:
                q, api = ("decrypt",), "decrypt_branch_id"
                ret = (sm.decrypt_session_id if rng.random() < 0.5 else sm.decrypt_branch_id)(bid)
                out = ("ok", list(ret), [])
                if list(ret) != issued:
                    ctx.violation("sid-resolution", "identifier issued for %r decrypts to %r" % (issued, list(ret)), self.rec)
                if self.scribble:
                    ret.append("scribbled by the caller")
        except Exception as err:
            out = ("err", exc_name(err))
            if tgt[0] == "id" and len(issued) == 3 and ";;".join(issued) in before[0] and kind not in ("node_info",):
                # a session id whose grant is stored answers every question about its own branch
                ctx.violation("sid-resolution", "%s through the session id of the stored grant %r raises %r" % (api, issued, err), self.rec)
        if out[0] == "ok" and expect is not None and tgt[0] != "bad":
            got = [n[0] for n in out[2]]
            same = sorted(got) == sorted(expect) if kind in ("grants", "authn", "subs") else got == expect
            if not same:
                ctx.violation("query-answer", "%s asked through %r handed back the nodes %r, the nodes of that branch are %r"
                              % (api, self.describe_target(tgt), got, expect), self.rec)
        self.finish(("query", tgt, q), out, before, api, readonly=True)

    # ---------------------------------------------------------------- one history
    def run(self):
        rng = self.rng
        for _ in range(self.n):
            r = rng.random()
            if r < 0.28:
                self.op_add()
            elif r < 0.35:
                self.op_revoke()
            elif r < 0.38:
                self.op_revoke_client()
            elif r < 0.56:
                self.op_delete()
            elif r < 0.59:
                self.op_flush()
            else:
                self.op_query()
        ctx = self.ctx
        muts = [s for s in self.steps if s[4] is not None]
        nontrivial = any(s[4][0] == "add" and s[1][0] == "ok" for s in muts) and any(s[4][0] in ("delete", "revoke") for s in muts) \
            and any(s[0][0] == "query" for s in self.steps)
        ctx.case_seen(self.rec, nontrivial)
        for s in self.steps:
            ctx.count("op:" + (s[4][0] if s[4] is not None else s[0][0]))
            ctx.count("out:" + ("ok" if s[1][0] == "ok" else s[1][1]))
        return self


# ---------------------------------------------------------------------- Coq terms of a history (strings and repeated
# sub-terms are emitted once per shard as Definitions: elaborating string literals is what makes coqc slow)
class Interner:
    def __init__(self):
        self.names, self.order = {}, []

    def share(self, text, ty, prefix):
        n = self.names.get((ty, text))
        if n is None:
            n = "%s_%d" % (prefix, len(self.order))
            self.names[(ty, text)] = n
            self.order.append((n, ty, text))
        return n

    def s(self, string):
        return self.share(coq_str(string), "pystr", "s")

    def strs(self, l):
        return coq_list([self.s(x) for x in l], "pystr")

    def node(self, n):
        k, g, i, subs, r = n
        return self.share("(%s, (%s, %s, %s, %s))" % (self.s(k), coq_bool(g), self.s(i), self.strs(subs), coq_bool(r)), "snap_node", "n")

    def nodes(self, l):
        return self.share(coq_list([self.node(n) for n in l], "snap_node"), "list snap_node", "l")

    def prelude(self):
        return "".join("Definition %s : %s := %s.\n" % d for d in self.order)


def coq_xtrace(I, tr):
    def res(out, f):
        return "(Ok %s)" % f(out) if out[0] == "ok" else "(Err %s)" % coq_exc(out[1])

    def target(t):
        if t[0] == "path":
            return "(ByPath %s)" % I.strs(t[1])
        if t[0] == "id":
            return "(ById %s)" % I.s(t[1]["plain"])
        return "ByBadId"

    def qkind(q):
        k = q[0]
        if k == "nodeinfo":
            return "(QNodeInfo %s %s)" % (coq_nat(q[1]), coq_bool(q[2]))
        if k == "branchinfo":
            return "(QBranchInfo %s)" % coq_list([coq_nat(i) for i in q[1]], "nat")
        if k == "grants":
            return "(QGrants %s)" % coq_bool(q[1])
        return {"get": "QGet", "subs": "QSubs", "authn": "QAuthnEvents", "findtoken": "QFindToken", "decrypt": "QDecrypt",
                "mint": "QMint"}[k]

    def old_op(op):
        t = op[0]
        if t == "add":
            return "(OAddGrant %s %s %s false)" % (I.s(op[1]), I.s(op[2]), I.s(op[3]))
        if t == "revoke":
            return "(ORevoke %s %s)" % (I.strs(op[1]), "None" if op[2] is None else "(Some %s)" % coq_nat(op[2]))
        if t == "delete":
            return "(ODelete %s)" % I.strs(op[1])
        return "OFlush"

    def cop(x):
        if x[0] == "op" and x[1][0] == "add":
            o = x[1]
            return "(CCreate %s %s %s %s false)" % (COQ_ENTRY[o[4]], I.s(o[1]), I.s(o[2]), I.s(o[3]))
        if x[0] == "revoke_client":
            return "(CRevokeClientSession %s)" % target(x[1])
        return "(CX %s)" % xop(x)

    def xop(x):
        if x[0] == "op":
            return "(XOp %s)" % old_op(x[1])
        if x[0] == "revoke_id":
            return "(XRevokeId %s %s)" % (target(x[1]), "None" if x[2] is None else "(Some %s)" % coq_nat(x[2]))
        if x[0] == "remove_id":
            return "(XRemoveId %s)" % target(x[1])
        return "(XQuery %s %s)" % (target(x[1]), qkind(x[2]))

    def rvec(v):
        dec, r = v
        return I.share("(%s, %s)" % (res(dec, lambda d: I.strs(d[1])), res(r, lambda x: I.nodes([x[1]]))), "rvec", "r")

    steps, old = [], []
    for x, out, snp, vec, op in tr.steps:
        ans = res(out, lambda o: "(%s, %s)" % (I.strs(o[1]), I.nodes(o[2])))
        rv = I.share(coq_list([rvec(v) for v in vec], "rvec"), "list rvec", "v")
        steps.append("(%s, (%s, %s, %s))" % (cop(x), ans, I.nodes(snp), rv))
        if op is not None:
            # the same history as the mutating operations alone see it (checked by the first checker, chk_trace)
            old.append("(%s, (%s, %s))" % (old_op(op), "(Ok tt)" if out[0] == "ok" else "(Err %s)" % coq_exc(out[1]), I.nodes(snp)))
    ids = coq_list([I.s(e["plain"]) for e in tr.pool], "pystr")
    return "(%s, %s)" % (ids, coq_list(steps, "cstep_rec")), coq_list(old, "(op bool * (res unit * list snap_node))")


def check_xtraces(ctx, runs, shard=10):
    """chk_ctrace (creation-level operations, Model/DbCreate.v) and chk_xtrace (the same steps read as operations of
    Model/Db.v) on the full histories and chk_trace on their mutating operations, by vm_compute"""
    imp = ["Lib.Base", "Lib.PyStr", "Model.Lv", "Model.Db", "Model.DbCheck", "Model.DbCreate"]
    jobs = []
    for i in range(0, len(runs), shard):
        part = runs[i:i + shard]
        I = Interner()
        terms = [coq_xtrace(I, t) for t in part]
        ctx.shard_seq += 1
        name = "%s_xtrace_%03d" % (ctx.prop, ctx.shard_seq)
        body = I.prelude() + \
            "Definition cases : list (list pystr * list cstep_rec) := [\n%s\n].\n" % ";\n".join(t[0] for t in terms) + \
            "Definition ocases : list (list (op bool * (res unit * list snap_node))) := [\n%s\n].\n" % ";\n".join(t[1] for t in terms) + \
            ("Eval vm_compute in (bad_indices chk_ctrace cases).\n" if ctx.quick else     # thorough: also as a trace of Model/Db.v
             "Eval vm_compute in (bad_indices (fun c => chk_ctrace c && chk_xtrace (fst c, xsteps_of (snd c))) cases).\n") + \
            "Eval vm_compute in (bad_indices chk_trace ocases).\n"
        jobs.append((name, body, part, terms))
    from concurrent.futures import ThreadPoolExecutor

    def go(job):
        return job, ctx.coq_eval(job[0], imp, job[1])
    with ThreadPoolExecutor(max_workers=min(E.NCPU, max(1, len(jobs)))) as ex:
        results = list(ex.map(go, jobs))
    for (name, body, part, terms), (rc, out, vals) in results:
        if rc != 0 or len(vals) < 2:
            ctx.broken.append("correspondence shard %s does not evaluate: %s" % (name, out.strip()[-600:]))
            continue
        try:
            bad_x, bad_o = E.parse_nat_list(vals[0]), E.parse_nat_list(vals[1])
        except ValueError as e:
            ctx.broken.append("correspondence shard %s: %s" % (name, e))
            continue
        ctx.traces += 2 * len(part)
        dvals = {}
        if bad_x:
            dbody = I_prelude_of(body) + "".join("Eval vm_compute in (cdiag (nth %d cases ([], []))).\n" % i for i in bad_x[:3])
            drc, dout, dv = ctx.coq_eval(name + "_diag", imp, dbody)
            dvals = dict(zip(bad_x[:3], dv))
        for i in bad_x:
            ctx.mismatch("model and implementation disagree (ctrace, %s[%d]): first differing step and what the model says there"
                         % (name, i), part[i].rec, model=(dvals.get(i) or "")[:3000])
        for i in bad_o:
            ctx.mismatch("model and implementation disagree (trace of the mutating operations, %s[%d])" % (name, i), part[i].rec)


def I_prelude_of(body):
    return body[:body.index("Eval vm_compute")]


def codec_cases(ctx, rng, n):
    from idpyoidc.server.util import lv_pack, lv_unpack
    from idpyoidc.server.session.database import Database
    # \x1c..\x1f are str.isspace() but int() does not skip them (ValueError); \x0b \x0c \x85 \xa0 are skipped
    alpha = ["a", "b", ":", ";", "1", "3", "0", " ", "\n", "\t", "-", "+", "_", "å", "　", "٣", "x", "9",
             "\x1c", "\x1f", "\x0b", "\x85", "\xa0"]
    def rs(maxlen=6):
        return "".join(rng.choice(alpha) for _ in range(rng.randint(0, maxlen)))
    packs, unpacks, bks, ubks, ints = [], [], [], [], []
    for i in range(n):
        l = [rs() for _ in range(rng.randint(0, 4))]
        p = lv_pack(*l)
        packs.append(("(%s, %s)" % (coq_list([coq_str(x) for x in l], "pystr"), coq_str(p)), {"lv_pack": l}))
        # unpack: genuine pack, or a mutated / random text
        txt = p if rng.random() < 0.5 else (rs(10) if rng.random() < 0.5 else p[:rng.randint(0, len(p))] + rs(2))
        if any(ord(ch) > 127 and ch.isdigit() for ch in txt.split(":")[0]):
            pass
        try:
            r = "(Ok %s)" % coq_list([coq_str(x) for x in lv_unpack(txt)], "pystr")
        except ValueError:
            r = "(Err ValueError)"
        except Exception as e:
            r = "(Err %s)" % EXC.get(type(e).__name__, "TypeError")
        unpacks.append(("(%s, %s)" % (coq_str(txt), r), {"lv_unpack": txt, "out": r}))
        args = [rng.choice(IDS_OK + IDS_BAD + [rs()]) for _ in range(rng.randint(1, 4))]
        try:
            r = "(Ok %s)" % coq_str(Database.branch_key(*args))
        except ValueError:
            r = "(Err ValueError)"
        bks.append(("(%s, %s)" % (coq_list([coq_str(x) for x in args], "pystr"), r), {"branch_key": args, "out": r}))
        k = rng.choice([";;".join(args), rs(8)])
        ubks.append(("(%s, %s)" % (coq_str(k), coq_list([coq_str(x) for x in Database.unpack_branch_key(k)], "pystr")),
                     {"unpack_branch_key": k}))
        s = rng.choice([rs(4), str(rng.randint(0, 10 ** rng.randint(0, 6))), " 12 ", "1_0", "+7", "-3", "", "1__0", "_1", "1_",
                        "\x1c3", "3\x1f", "\x1d 3", "\x0b3\x0c", "\xa03\x85", "\u20283", "+\xa03", "-0_0"])
        try:
            r = "(Ok %s)" % coq_z(int(s))
            if any(ord(ch) > 127 and not ch.isspace() for ch in s):
                r = "Unmodelled"
        except ValueError:
            r = "(Err ValueError)" if not any(ord(ch) > 127 and not ch.isspace() for ch in s) else "Unmodelled"
        ints.append(("(%s, %s)" % (coq_str(s), r), {"int": s, "out": r}))
    for c in packs + unpacks + bks + ubks + ints:
        ctx.case_seen(c[1], True)
    imp = ["Lib.Base", "Lib.PyStr", "Model.Lv"]
    ctx.coq_check_cases(imp, "list pystr * pystr", "chk_lv_pack", packs, label="lvpack")
    # non-ASCII digits in a length prefix are outside the modelled fragment of int(): the model says Unmodelled
    unp = []
    for t, rec in unpacks:
        head = rec["lv_unpack"]
        if any(ord(ch) > 127 and not ch.isspace() for ch in head):
            ctx.unmodelled += 1
            continue
        unp.append((t, rec))
    ctx.coq_check_cases(imp, "pystr * res (list pystr)", "chk_lv_unpack", unp, label="lvunpack")
    ctx.coq_check_cases(imp, "list pystr * res pystr", "chk_branch_key", bks, label="bkey")
    ctx.coq_check_cases(imp, "pystr * list pystr", "chk_unpack_branch_key", ubks, label="ubkey")
    ctx.coq_check_cases(imp, "pystr * res Z", "chk_py_int", ints, label="pyint")


def run(ctx):
    import srv
    server = srv.make_server()
    rng = ctx.rng
    ntr = 90 if ctx.quick else 1500
    import logging
    logging.getLogger("idpyoidc.server.session.database").setLevel(logging.CRITICAL)   # tampered identifiers are logged as errors
    runs, sids = [], []
    for i in range(ntr):
        t = TraceRun(ctx, server, rng, rng.randint(10, 56), hostile=(i % 3 == 0), scribble=(i % 2 == 1)).run()
        runs.append(t)
        sids += t.sid_cases
    # histories over pools of normalisation-equivalent-but-different identifiers
    for i in range(36 if ctx.quick else 700):
        t = TraceRun(ctx, server, rng, rng.randint(20, 56), hostile=False, scribble=(i % 2 == 1), equiv=True).run()
        ctx.count("pool:normalisation-equivalent")
        runs.append(t)
        sids += t.sid_cases
    check_xtraces(ctx, runs)
    imp = ["Lib.Base", "Lib.PyStr", "Model.Lv", "Model.Db", "Model.DbCheck"]
    ctx.coq_check_cases(imp, "pystr * list pystr * pystr", "chk_sid", sids, shard=400, label="sid")
    codec_cases(ctx, rng, 300 if ctx.quick else 5000)


def replay(ctx, rp):
    ctx.notes.append("replay re-runs the generator with the recorded seed")
    ctx.rng.seed(rp.get("seed", ctx.seed))
    run(ctx)
