"""C14 driver — session database: identifier codec and tree operations.

Drives the real SessionManager (GrantManager/Database API) with operation traces over hostile
identifiers; after every operation the whole database is snapshotted. The Gallina model
(Model/Db.v, Model/Lv.v) is evaluated on the same traces by vm_compute (check_trace). Separately the
property oracle (written from the property text, independent of the model) checks resolution of
every handed-out session id, tree consistency, exact removal and the frame condition.
"""
import base64
import copy
import json

import engine as E
from engine import coq_str, coq_list, coq_bool, coq_nat, coq_z

RULE = ("operation traces (length 6-40) over 4 users x 4 clients with identifiers from a hostile alphabet "
        "(';', ';;', ':', digits mimicking length prefixes, whitespace, unicode, empty); ops = add_grant / "
        "revoke_sub_tree(level) / delete(path at every depth) / remove_branch / flush; a case is one trace, "
        "non-trivial when it contains at least one accepted add_grant and one delete or revoke; plus pure "
        "codec cases for lv_pack / lv_unpack / branch_key / unpack_branch_key / int()")
ASSUMPTIONS = ["Fernet (cryptography) is an authenticated encryption: decrypt(encrypt(m)) = m",
               "uuid1().hex grant ids are fresh and contain no ';'"]

EXC = {"ValueError": "ValueError", "KeyError": "KeyError", "AttributeError": "AttributeError",
       "IndexError": "IndexError", "TypeError": "TypeError"}


def coq_res_unit(r):
    return "(Ok tt)" if r == "ok" else "(Err %s)" % r


def snap(sm):
    from idpyoidc.server.session.grant import Grant
    out = []
    for k, n in sm.db.items():
        if isinstance(n, Grant):
            out.append((k, True, "", [], bool(n.revoked)))
        else:
            out.append((k, False, n.id, list(n.subordinate), bool(n.revoked)))
    return out


def coq_snap(s):
    return coq_list(["(%s, (%s, %s, %s, %s))" % (coq_str(k), coq_bool(g), coq_str(i),
                                                    coq_list([coq_str(x) for x in subs], "pystr"), coq_bool(r))
                     for k, g, i, subs, r in s], "snap_node")


def coq_op(op):
    t = op[0]
    if t == "add":
        return "(OAddGrant %s %s %s false)" % (coq_str(op[1]), coq_str(op[2]), coq_str(op[3]))
    if t == "revoke":
        lvl = "None" if op[2] is None else "(Some %s)" % coq_nat(op[2])
        return "(ORevoke %s %s)" % (coq_list([coq_str(x) for x in op[1]], "pystr"), lvl)
    if t == "delete":
        return "(ODelete %s)" % coq_list([coq_str(x) for x in op[1]], "pystr")
    return "OFlush"


IDS_OK = ["diana", "u2", "client_1", "c", "x:y", "3:abc", "a;b", " lead", "trail ", "new\nline", "åäö", "0", "a:;:b",
          ";lead", ";a;b", "dian", "client_12", ""]    # the empty identifier (default of create_session); a single ';' at the start is legal; string-prefix relations
IDS_BAD = ["a;;b", "semi;", ";;", "x;;;y", ";"]


def gen_trace(rng, n, hostile):
    users = rng.sample(IDS_OK, 3) + ([rng.choice(IDS_BAD)] if hostile else [])
    clients = rng.sample(IDS_OK, 3) + ([rng.choice(IDS_BAD)] if hostile else [])
    ops = []
    for _ in range(n):
        r = rng.random()
        if r < 0.45:
            ops.append(("add", rng.choice(users), rng.choice(clients)))
        elif r < 0.62:
            ops.append(("revoke", rng.choice([None, None, 0, 1, 2, 3, 5])))
        elif r < 0.95:
            ops.append(("delete", rng.choice([1, 2, 3, 3, 3]), rng.random() < 0.25))
        else:
            ops.append(("flush",))
    return users, clients, ops


def structural_oracle(sm, ctx, trace_rec):
    """every stored node reachable from its parent; subordinate entries exist; grants are leaves"""
    from idpyoidc.server.session.grant import Grant
    db = sm.db
    for k, n in db.items():
        parts = k.split(";;")
        if len(parts) > 1:
            pk = ";;".join(parts[:-1])
            if pk not in db:
                ctx.violation("orphan", "node %r stored but its parent %r is not" % (k, pk), trace_rec)
            elif k not in getattr(db[pk], "subordinate", []):
                ctx.violation("unlisted", "node %r not listed by its parent %r" % (k, pk), trace_rec)
        if isinstance(n, Grant):
            continue
        for s in n.subordinate:
            if s not in db:
                ctx.violation("dangling", "node %r lists missing subordinate %r" % (k, s), trace_rec)
            elif not s.startswith(k + ";;"):
                ctx.violation("foreign-child", "node %r lists %r which is not below it" % (k, s), trace_rec)


def run_trace(ctx, server, rng, n, hostile):
    sm = server.context.session_manager
    sm.flush()
    users, clients, plan = gen_trace(rng, n, hostile)
    live = []        # (sid, path, grant object)
    all_paths = []
    trace = []       # (op for model, out, snapshot)
    rec = {"users": users, "clients": clients, "ops": []}
    sid_cases = []
    for p in plan:
        before = {k: (g, i, tuple(s), r) for k, g, i, s, r in snap(sm)}
        kind = p[0]
        out = "ok"
        if kind == "add":
            u, c = p[1], p[2]
            gid = "x"
            try:
                sid = sm.add_grant([u, c])
                plain = sm.crypt.decrypt(base64.b64decode(sid)).decode()
                path = sm.decrypt_branch_id(sid)
                gid = path[-1] if len(path) == 3 else "x"
                grant = sm[sid]
                live.append((sid, [u, c, gid], grant))
                all_paths.append([u, c, gid])
                # oracle: resolves to exactly what it was created for
                if path != [u, c, gid] or len(path) != 3:
                    ctx.violation("sid-resolution", "session id created for %r resolves to %r" % ([u, c], path), rec)
                from idpyoidc.server.util import lv_unpack
                rnd = lv_unpack(plain)[0]
                sid_cases.append(("(%s, %s, %s)" % (coq_str(rnd), coq_list([coq_str(x) for x in [u, c, gid]], "pystr"), coq_str(plain)),
                                  {"sid_plain": plain, "path": [u, c, gid]}))
            except Exception as e:
                out = EXC.get(type(e).__name__, "TypeError")
            op = ("add", u, c, gid)
        elif kind == "revoke":
            if not all_paths:
                continue
            path = rng.choice(all_paths)
            try:
                bid = sm.encrypted_branch_id(*path)
                sm.revoke_sub_tree(bid, p[1])
            except Exception as e:
                out = EXC.get(type(e).__name__, "TypeError")
            op = ("revoke", path, p[1])
        elif kind == "delete":
            depth, odd = p[1], p[2]
            odd = odd or not all_paths
            if odd:
                path = [rng.choice(users + ["nobody"]), rng.choice(clients + ["noclient"]), "nogrant"][:depth]
            else:
                path = rng.choice(all_paths)[:depth]
            alias = False
            if all_paths and rng.random() < 0.12:
                # an identifier that spells the stored key of somebody else's inner node ("user;;client")
                q = rng.choice(all_paths)
                j = rng.choice([2, 3])
                path = [";;".join(q[:j])] + (q[j:] if rng.random() < 0.5 else [])
                alias = odd = True
                ctx.count("delete:alias-of-inner-key")
            try:
                if depth == 3 and not odd and rng.random() < 0.5:
                    sm.remove_branch(sm.encrypted_branch_id(*path))
                else:
                    sm.delete(path)
            except Exception as e:
                out = EXC.get(type(e).__name__, "TypeError")
            op = ("delete", path)
        else:
            sm.flush()
            op = ("flush",)
        s = snap(sm)
        trace.append((op, out, s))
        rec["ops"].append({"op": op, "out": out, "n_nodes": len(s)})
        after = {k: (g, i, tuple(sb), r) for k, g, i, sb, r in s}
        # ---- property oracle (independent of the model)
        structural_oracle(sm, ctx, rec)
        if op[0] != "flush":
            root = op[1] if op[0] == "add" else (op[1][0] if op[1] else None)
            for k in set(before) | set(after):
                kr = k.split(";;")[0]
                if kr != root and before.get(k) != after.get(k):
                    ctx.violation("frame", "op %r on branch %r changed node %r of another user" % (op, root, k), rec)
        if op[0] == "delete" and out == "ok":
            key = ";;".join(op[1])
            if key in before:
                gone = set(before) - set(after)
                sub = {k for k in before if k == key or k.startswith(key + ";;")}
                # ancestors that became childless may go too
                anc = set()
                parts = op[1]
                for i in range(len(parts) - 1, 0, -1):
                    pk = ";;".join(parts[:i])
                    kids = [x for x in before.get(pk, (0, 0, (), 0))[2] if x not in sub and x not in anc]
                    if pk in before and not kids:
                        anc.add(pk)
                    else:
                        break
                if gone != sub | anc:
                    ctx.violation("remove-exact", "delete %r removed %r, expected subtree %r plus childless ancestors %r"
                                  % (op[1], sorted(gone), sorted(sub), sorted(anc)), rec)
            elif before != after:
                ctx.violation("remove-exact", "delete of a missing path %r changed the database" % (op[1],), rec)
        if op[0] == "revoke" and out == "ok":
            lvl = op[2]
            pre = op[1] if lvl is None else op[1][:lvl + 1]
            key = ";;".join(pre)
            for k in after:
                inside = k == key or k.startswith(key + ";;")
                if inside and not after[k][3]:
                    ctx.violation("revoke-cascade", "node %r below revoked %r is not revoked" % (k, key), rec)
                if not inside and before.get(k) != after.get(k):
                    ctx.violation("frame", "revoke of %r changed %r" % (key, k), rec)
        # every live session id still resolves to its own grant object (or is gone)
        for sid, path, grant in live:
            key = ";;".join(path)
            if key in sm.db:
                try:
                    if sm.decrypt_branch_id(sid) != path:
                        ctx.violation("sid-resolution", "sid for %r resolves elsewhere" % (path,), rec)
                except Exception as e:
                    ctx.violation("sid-resolution", "sid for %r no longer resolves: %r" % (path, e), rec)
    nontrivial = any(t[0][0] == "add" and t[1] == "ok" for t in trace) and any(t[0][0] in ("delete", "revoke") for t in trace)
    ctx.case_seen(rec, nontrivial)
    for t in trace:
        ctx.count("op:" + t[0][0])
        ctx.count("out:" + t[1])
    term = coq_list(["(%s, (%s, %s))" % (coq_op(o), coq_res_unit(out), coq_snap(s)) for o, out, s in trace])
    return (term, rec), sid_cases


def codec_cases(ctx, rng, n):
    from idpyoidc.server.util import lv_pack, lv_unpack
    from idpyoidc.server.session.database import Database
    alpha = ["a", "b", ":", ";", "1", "3", "0", " ", "\n", "\t", "-", "+", "_", "å", "　", "٣", "x", "9"]
    def rs(maxlen=6):
        return "".join(rng.choice(alpha) for _ in range(rng.randint(0, maxlen)))
    packs, unpacks, bks, ubks, ints = [], [], [], [], []
    for i in range(n):
        l = [rs() for _ in range(rng.randint(0, 4))]
        p = lv_pack(*l)
        packs.append(("(%s, %s)" % (coq_list([coq_str(x) for x in l], "pystr"), coq_str(p)), {"lv_pack": l}))
        # unpack: genuine pack, or a mutated / random text
        txt = p if rng.random() < 0.5 else (rs(10) if rng.random() < 0.5 else p[:rng.randint(0, len(p))] + rs(2))
        if any(ord(ch) > 127 and ch.isdigit() for ch in txt.split(":")[0]):
            pass
        try:
            r = "(Ok %s)" % coq_list([coq_str(x) for x in lv_unpack(txt)], "pystr")
        except ValueError:
            r = "(Err ValueError)"
        except Exception as e:
            r = "(Err %s)" % EXC.get(type(e).__name__, "TypeError")
        unpacks.append(("(%s, %s)" % (coq_str(txt), r), {"lv_unpack": txt, "out": r}))
        args = [rng.choice(IDS_OK + IDS_BAD + [rs()]) for _ in range(rng.randint(1, 4))]
        try:
            r = "(Ok %s)" % coq_str(Database.branch_key(*args))
        except ValueError:
            r = "(Err ValueError)"
        bks.append(("(%s, %s)" % (coq_list([coq_str(x) for x in args], "pystr"), r), {"branch_key": args, "out": r}))
        k = rng.choice([";;".join(args), rs(8)])
        ubks.append(("(%s, %s)" % (coq_str(k), coq_list([coq_str(x) for x in Database.unpack_branch_key(k)], "pystr")),
                     {"unpack_branch_key": k}))
        s = rng.choice([rs(4), str(rng.randint(0, 10 ** rng.randint(0, 6))), " 12 ", "1_0", "+7", "-3", "", "1__0", "_1", "1_"])
        try:
            r = "(Ok %s)" % coq_z(int(s))
            if any(ord(ch) > 127 and not ch.isspace() for ch in s):
                r = "Unmodelled"
        except ValueError:
            r = "(Err ValueError)" if not any(ord(ch) > 127 and not ch.isspace() for ch in s) else "Unmodelled"
        ints.append(("(%s, %s)" % (coq_str(s), r), {"int": s, "out": r}))
    for c in packs + unpacks + bks + ubks + ints:
        ctx.case_seen(c[1], True)
    imp = ["Lib.Base", "Lib.PyStr", "Model.Lv"]
    ctx.coq_check_cases(imp, "list pystr * pystr", "chk_lv_pack", packs, label="lvpack")
    # non-ASCII digits in a length prefix are outside the modelled fragment of int(): the model says Unmodelled
    unp = []
    for t, rec in unpacks:
        head = rec["lv_unpack"]
        if any(ord(ch) > 127 and not ch.isspace() for ch in head):
            ctx.unmodelled += 1
            continue
        unp.append((t, rec))
    ctx.coq_check_cases(imp, "pystr * res (list pystr)", "chk_lv_unpack", unp, label="lvunpack")
    ctx.coq_check_cases(imp, "list pystr * res pystr", "chk_branch_key", bks, label="bkey")
    ctx.coq_check_cases(imp, "pystr * list pystr", "chk_unpack_branch_key", ubks, label="ubkey")
    ctx.coq_check_cases(imp, "pystr * res Z", "chk_py_int", ints, label="pyint")


def run(ctx):
    import srv
    server = srv.make_server()
    rng = ctx.rng
    ntr = 60 if ctx.quick else 1500
    traces, sids = [], []
    for i in range(ntr):
        t, s = run_trace(ctx, server, rng, rng.randint(6, 40), hostile=(i % 3 == 0))
        traces.append(t)
        sids += s
    imp = ["Lib.Base", "Lib.PyStr", "Model.Lv", "Model.Db", "Model.DbCheck"]
    ctx.coq_check_cases(imp, "list (op bool * (res unit * list snap_node))", "chk_trace", traces, shard=20, label="trace")
    ctx.coq_check_cases(imp, "pystr * list pystr * pystr", "chk_sid", sids, shard=400, label="sid")
    codec_cases(ctx, rng, 300 if ctx.quick else 5000)


def replay(ctx, rp):
    ctx.notes.append("replay re-runs the generator with the recorded seed")
    ctx.rng.seed(rp.get("seed", ctx.seed))
    run(ctx)
