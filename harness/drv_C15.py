"""C15 driver — PKCE binds the code to the party that started the flow.

Drives the REAL authorization and token endpoints of providers built with the pkce add-on
(idpyoidc.server.oauth2.add_on.pkce.add_support) in several configurations, and the REAL relying-party
add-on (idpyoidc.client.oauth2.add_on.pkce) through Service.construct_request.  Every flow is
(authorization request -> code -> token request); the observed outcome is compared with Model/Pkce.v
(flow / rp_make, evaluated by vm_compute with the hash given as a finite table computed here with hashlib),
and judged by an oracle written from the property text (recomputes the transform with hashlib/base64).

Transport flows (run_dflow): the authorization request reaches the provider as a signed request object by value
(`request`), by reference (`request_uri`), or pushed (PAR) and redeemed through the issued urn, while the front channel
carries its own (same / different / partial) code_challenge + code_challenge_method next to it.  Model: delivery /
assembled / flow_d / recorded_d of Model/Pkce.v; oracle: the pair of the protected request (ref_request_pair) decides
which verifier must be accepted / refused, and the pair recorded in the grant of the code is observed directly.

Interactive flows (run_iflow): providers whose authentication method shows a LOG-IN PAGE (UserPassJinja2 with the signed
token in the form, and an own UserAuthnMethod subclass that writes a plain form).  The authorization request (any
transport) is parsed, process_request answers with the page, the application rebuilds the request from the page's
`query` exactly as example/flask_op/views.py::verify does (request_cls().from_urlencoded(query) -> create_session ->
authz_part2), and the code minted THEN is redeemed with the right / a wrong / no verifier.  Histories: the form posted
twice, the page answered hours later, re-authentication (prompt=login, max_age exceeded) of a browser that has a session
for another challenge, two pages answered in the reverse order, cookie SSO on the same providers.  Model: resume /
recorded_i / flow_i of Model/Pkce.v (the query goes through the urllib model of Lib/Qs.v); oracle: the grant of the code
records the pair of the request that led to the page, and only its verifier redeems the code.
"""
import base64
import hashlib
import html
import json
import re
import time
import urllib.parse

import engine as E
from engine import coq_str, coq_list, coq_bool, coq_n, coq_opt

RULE = ("flows through the real authorization+token endpoints of 9 providers (configured method sets "
        "{all four, S256, plain+S256, S256+S512} x essential on/off, OIDC and plain OAuth2) x per-client "
        "pkce_essential unset/true/false; (1) exhaustive 2^4 presence table of code_challenge, "
        "code_challenge_method, code_verifier and a token-request code_challenge_method for every method; "
        "(2) single-fault matrix around a valid flow: verifier missing / empty / one character changed / case "
        "swapped / '=' padded / +/ for -_ / challenge replayed as verifier with a 'plain' method in the token "
        "request / verifier of another flow / method unknown / method unsupported by the configuration / no "
        "challenge; (3) verifier lengths 0,1,42,43,64,128,129,1000 and alphabets unreserved / other ASCII / "
        "non-ASCII; (4) the real RP add-on for every configured method x length, its requests sent to every "
        "provider; (5) random multi-fault flows.  A case is one flow; non-trivial when a challenge was sent "
        "or PKCE is essential.  (6) TRANSPORTS of the authorization request: the two PKCE parameters delivered inside a "
        "signed request object by value (`request`), by reference (`request_uri` document), pushed (PAR, plain body or "
        "an object in the body; redeemed through the issued urn) x what travels NEXT to it on the front channel "
        "(nothing / the same pair / another challenge / another challenge and method / only a method / the same "
        "challenge under 'plain' / an unsupported method) x the protected request with both, one or none of the two "
        "parameters x verifier of the protected challenge / of the front-channel challenge / the challenge itself / "
        "none, on all 9 providers; the pair recorded in the grant of the code is observed as well; the library's RP "
        "pair sent through every transport with a foreign challenge on the front channel; random transport flows.  "
        "(7) INTERACTIVE AUTHENTICATION: 7 providers whose authentication method answers with a log-in page (UserPassJinja2 "
        "with the request in the signed token of the form / an own method writing an unsigned form; essential on and off, "
        "OIDC and OAuth2): authorization request through every transport -> page -> request rebuilt from the page's query "
        "the way example/flask_op does -> create_session -> authz_part2 -> token request with the right / a one-character-"
        "off / another flow's / no verifier / the challenge under 'plain', for every configured method, default method, no "
        "challenge, unsupported method, challenges containing the characters the query encoding treats specially (&, =, %, "
        "+, space, non-ASCII, an injected '&code_challenge_method=plain'); histories: form posted twice (both codes), page "
        "answered 2 h later, prompt=login and max_age exceeded for a browser whose session belongs to ANOTHER challenge, two "
        "pending pages answered in reverse order, cookie SSO without a page; the library's RP pair through the page; random "
        "interactive flows.  Observed: the pair in the page's query, the pair in the grant of the code, the outcome.  "
        "(8) EXTENSION PARAMETERS (whether the two post-parse hooks RUN): next to the genuine parameters the authorization "
        "request (on the front channel / inside the signed object / in the pushed body / both) and the token request carry "
        "members the endpoint machinery itself gives a meaning to somewhere - error, error_description, error_uri, return_uri, "
        "response_args, authenticated, client_authn_method, __verified_*, http_response, fragment_enc, response_placement, "
        "redirect_location, cookie, session_id, names of the hooks' keyword arguments and of the add-on's configuration keys, a "
        "code_verifier next to an authorization request, authorization-request members next to a token request, members given "
        "twice (list values), unknown names - every name alone on each leg x {no challenge, method only, unknown method, no "
        "method, valid pair} x {no, one-character-off, right verifier, challenge under 'plain'} x all 5 transports x 9 providers "
        "(essential on/off) and through the log-in page (7 histories), plus random multi-member flows.  Ground truth: the "
        "hashlib verdict on the PKCE parameters alone, and the TWIN flow without the extension parameters (same outcome, same "
        "recorded pair); model: flow_x / authz_leg_x / token_hook / post_parse of Model/Pkce.v (the request is a list of "
        "members, the hooks read theirs by name; C15_extras_irrelevant).  "
        "(9) HISTORIES OF THE RELYING PARTY'S VERIFIER STORE: an OAuth2 and an OIDC relying party (real authorization and "
        "access-token services with the PKCE add-on) x configured method S256/S384/S512/default (random part: also methods the "
        "RP has no transform for) x configured length none/43/64/128 (random part: 1, 42, 129) x the authorization request "
        "built 1..3 times under ONE state value (caller-supplied fixed state or cstate.create_state; state passed in the "
        "request arguments or as keyword) x requests under a second state interleaved x the response to an earlier request "
        "stored in between or not x which request's code is redeemed by the RP's own token request (each of them; an earlier "
        "one and then the latest), every request sent to a real provider.  Observed: the verifier each request drew, the "
        "challenge it sent, the code_verifier of the token request, the provider's answer.  Oracle: the token request carries the "
        "verifier of the LATEST request built under its state (rp-stale-verifier), the code of the latest request is redeemed "
        "(rp-op-disagree), the code of an earlier request yields tokens only if the verifier sent transforms to the challenge "
        "recorded for it; model: rp_run / rp_sent of Model/PkceRp.v (Current.update / set / get_set, the OAuth2 service "
        "updates the record, the OIDC service resets it; C15_rp_latest_begin_sent, C15_rp_latest_pair_accepted).")
ASSUMPTIONS = [
    "HB bits v = b64url_nopad(sha<bits>(ascii v)) is an arbitrary function in C15_bound/_essential/_no_downgrade; "
    "C15_near_miss_refused assumes it injective (collision-free hash), C15_rp_op_agree assumes its output non-empty",
    "the authorization code resolves to the grant of the authorization request that produced it (C02/C14)",
    "Message.from_dict drops empty-string parameters (modelled as norm); parameters are strings",
    "transport flows use genuine request objects (signed by the client's registered key, iss/aud/client_id right) and "
    "pushes with valid client credentials: whether an object / a push is authentic is C16's subject; C15 fixes which of "
    "the transported PKCE pairs binds the code (the protected one; a request_uri document lets front-channel "
    "parameters fill what it does not carry, C16's 'override same-named' rule)",
    "interactive flows: the application that answers the log-in page is the one of example/flask_op/views.py::verify "
    "(request_cls().from_urlencoded(query of the page) -> create_session -> authz_part2); whether the page's token is "
    "authentic and the user's password right is not C15's subject; urllib's quoting is Lib/Qs.v (validated by C10)",
    "extension parameters are not themselves named like the PKCE parameters of their leg (code_challenge / "
    "code_challenge_method; code_verifier / code_challenge_method): those would be other PKCE parameters, covered by (1)-(7). "
    "A push that fails as a whole because of a member of the pushed body (unchanged library: a plain body with "
    "`__verified_request`, AttributeError in Authorization._post_parse_request, nothing issued) is counted "
    "(extras:push-failed-for-another-reason), not modelled: whether a push is accepted is C16's subject",
    "relying-party histories: the add-on's configuration (method, length) is fixed during a history; what is stored under a "
    "state between two requests is an authorization response without a member called code_verifier (Current.update would take "
    "a member of that name; quiet of Proofs/PkceRp_proofs.v); only the string members of the stored request are given to the "
    "model and the authorization code is abbreviated there (the store's treatment of a member depends on its name only, and on "
    "the value for `nonce`)",
]

PKCE_FN = "idpyoidc.server.oauth2.add_on.pkce.add_support"
ALL = ["plain", "S256", "S384", "S512"]
UNRES = "abcdefghijklmnopqrstuvwxyzABCDEFGHIJKLMNOPQRSTUVWXYZ0123456789-._~"


# ---------------------------------------------------------------- independent reference transform
def ref_tr(method, v):
    """RFC 7636 transform, written from the RFC (not from the repo). None = no such method / not computable."""
    if method == "plain":
        return v
    bits = {"S256": 256, "S384": 384, "S512": 512}.get(method)
    if bits is None:
        return None
    try:
        raw = v.encode("ascii")
    except UnicodeEncodeError:
        return None
    return base64.urlsafe_b64encode(hashlib.new("sha%d" % bits, raw).digest()).decode("ascii").rstrip("=")


def hb_table(strings):
    rows = []
    seen = set()
    for s in strings:
        if s is None or s in seen:
            continue
        seen.add(s)
        try:
            raw = s.encode("ascii")
        except UnicodeEncodeError:
            continue
        for bits in (256, 384, 512):
            d = base64.urlsafe_b64encode(hashlib.new("sha%d" % bits, raw).digest()).decode("ascii").rstrip("=")
            rows.append("(%s, %s, %s)" % (coq_n(bits), coq_str(s), coq_str(d)))
    return coq_list(rows, "(N * pystr * pystr)")


# ---------------------------------------------------------------- request objects of client_1
_KEYS = {}


class _Resp:
    def __init__(self, code, text):
        self.status_code, self.status, self.text = code, code, text


def client_keys():
    """client_1's signing keys (generated once per process); the providers import the public halves"""
    if not _KEYS:
        from cryptojwt.key_jar import init_key_jar
        kj = init_key_jar(key_defs=[{"type": "RSA", "key": "", "use": ["sig"]}, {"type": "EC", "crv": "P-256", "use": ["sig"]}],
                          issuer_id="client_1")
        _KEYS["RS256"] = kj.get_signing_key("RSA", issuer_id="client_1")[0]
        _KEYS["ES256"] = kj.get_signing_key("EC", issuer_id="client_1")[0]
        _KEYS["jwks"] = kj.export_jwks(issuer_id="client_1")
    return _KEYS


def sign_object(claims, alg):
    from cryptojwt.jws.jws import JWS
    return JWS(json.dumps(claims), alg=alg).sign_compact([client_keys()[alg]])


def with_pair(d, pair):
    d = dict(d)
    if pair is not None:
        if pair[0] is not None:
            d["code_challenge"] = pair[0]
        if pair[1] is not None:
            d["code_challenge_method"] = pair[1]
    return d


# ---------------------------------------------------------------- providers
class Prov:
    def __init__(self, srv, methods, essential, oidc, extra=None):
        kw = {"essential": essential}
        if methods is not None:
            kw["code_challenge_methods"] = {m: m for m in methods}
        self.server = srv.make_server(add_ons={"pkce": {"function": PKCE_FN, "kwargs": kw}}, oidc=oidc, extra=extra)
        self.methods = list(methods) if methods is not None else list(ALL)
        self.essential = essential
        self.oidc = oidc
        self.az = self.server.get_endpoint("authorization")
        self.tk = self.server.get_endpoint("token")
        self.n = 0
        # what the server really holds (the model is given these, not what we asked for)
        conf = self.server.context.add_on["pkce"]
        self.methods = list(conf["code_challenge_methods"].keys())
        self.essential = bool(conf["essential"])

    def describe(self):
        return {"methods": self.methods, "essential": self.essential, "oidc": self.oidc}

    def set_client_flag(self, ce):
        rec = self.server.context.cdb["client_1"]
        if ce is None:
            rec.pop("pkce_essential", None)
        else:
            rec["pkce_essential"] = ce

    def authz(self, cc, ccm, state="ST", cookie=None):
        """returns ('code', code) | ('AzRefused', n) | ('AzRaised', name); self.last_cookie is the session cookie of the response"""
        self.n += 1
        self.cookie_in = cookie
        if self.n % 200 == 0 and cookie is None:
            self.server.context.session_manager.flush()
        req = {"client_id": "client_1", "redirect_uri": "https://client_1.example.com/cb", "scope": "openid",
               "state": state, "response_type": "code"}
        if cc is not None:
            req["code_challenge"] = cc
        if ccm is not None:
            req["code_challenge_method"] = ccm
        return self.authz_req(req)

    def authz_req(self, req):
        try:
            pr = self.az.parse_request(dict(req))
        except Exception as e:
            return ("AzRaised", type(e).__name__)
        if "error" in pr and self.is_error_msg(pr):
            d = pr.get("error_description", "")
            if d.startswith("Missing required code_challenge"):
                return ("AzRefused", 1)
            if d.startswith("Unsupported code_challenge_method"):
                return ("AzRefused", 2)
            return ("AzRefused", 0)
        try:
            ck = getattr(self, "cookie_in", None)
            res = self.az.process_request(pr, http_info={"cookie": ck} if ck else None)
        except Exception as e:
            return ("AzRaised", type(e).__name__)
        if isinstance(res, dict) and "http_response" in res and "response_args" not in res:
            return self.login_page(pr, res)
        self.last_cookie = res.get("cookie") if isinstance(res, dict) else None
        ra = res.get("response_args") if isinstance(res, dict) else None
        if ra is None or "code" not in ra:
            return ("AzRefused", 0)
        return ("code", ra["code"])

    def login_page(self, parsed, res):
        """process_request answered with a page instead of a code (providers with silent authentication never do)"""
        return ("AzRefused", 0)

    def is_error_msg(self, msg):
        """msg has a member `error`: is it an error message?  Always, unless this flow itself SENT extension parameters
        (self.xflag; one of them may be called `error`): then the class of the message tells (the endpoints answer
        with ResponseMessage subclasses, the request classes are none)."""
        if not getattr(self, "xflag", False):
            return True
        from idpyoidc.message.oauth2 import ResponseMessage
        return isinstance(msg, ResponseMessage)

    # ---- transports of the authorization request (request object by value / by reference, PAR)
    BASE = {"client_id": "client_1", "redirect_uri": "https://client_1.example.com/cb", "scope": "openid",
            "response_type": "code"}

    def enable_transports(self):
        if getattr(self, "docs", None) is not None:
            return
        self.docs = {}
        self.server.keyjar.import_jwks(client_keys()["jwks"], "client_1")
        self.server.context.httpc = self._httpc
        self.par = self.server.get_endpoint("pushed_authorization")

    def _httpc(self, method, url, **kw):
        if url in self.docs:
            return _Resp(200, self.docs[url])
        return _Resp(404, "")

    def request_object(self, pair, state, alg, extra=None):
        claims = with_pair(dict(self.BASE, state=state, iss="client_1", aud=self.server.context.issuer), pair)
        claims.update(extra or {})
        return sign_object(claims, alg)

    def deliver(self, d, state="ST"):
        """Sends the authorization request described by d (see run_dflow) to the real endpoints.
        returns ('code', code) | ('AzRefused', n) | ('AzRaised', name); a refused / failing PUSH is ('AzRefused', 97)"""
        self.enable_transports()
        self.n += 1
        self.cookie_in = getattr(self, "cookie_next", None)
        if self.n % 200 == 0 and self.cookie_in is None and not getattr(self, "pending", None):
            self.server.context.session_manager.flush()
        t = d["t"]
        alg = d.get("alg", "RS256")
        base = dict(self.BASE, state=state)
        # extension parameters next to the genuine ones: x_front on the front channel (for front: the request itself),
        # x_prot inside the protected part (the signed object; for a plain push the pushed body)
        xf, xp = dict(d.get("x_front") or {}), dict(d.get("x_prot") or {})
        self.xnames = tuple(xf) + tuple(k for k in xp if k not in xf)
        if t == "front":
            return self.authz_req(dict(with_pair(base, d["front"]), **xf))
        if t == "value":
            return self.authz_req(dict(with_pair(dict(base, request=self.request_object(d["obj"], state, alg, xp)), d["front"]), **xf))
        if t == "uri":
            u = "https://client_1.example.com/ro/%d" % self.n
            self.docs.clear()
            self.docs[u] = self.request_object(d["obj"], state, alg, xp)
            return self.authz_req(dict(with_pair(dict(base, request_uri=u), d["front"]), **xf))
        # pushed: over the authenticated back channel, then redeemed through the issued request_uri
        if t == "par":
            body = dict(with_pair(base, d["body"]), **xp)
        else:
            body = with_pair(dict(base, request=self.request_object(d["obj"], state, alg, xp)), d["body"])
        secret = self.server.context.cdb["client_1"]["client_secret"]
        if d.get("push_auth") == "post":
            body["client_secret"] = secret
            hi = {}
        else:
            hi = {"headers": {"authorization": "Basic " + base64.b64encode(("client_1:%s" % secret).encode()).decode()}}
        try:
            pr = self.par.parse_request(body, http_info=hi)
            if "error" in pr and self.is_error_msg(pr):
                return ("AzRefused", 97)
            urn = self.par.process_request(pr)["http_response"]["request_uri"]
        except Exception:
            return ("AzRefused", 97)
        if d.get("redeem") == "min":   # what the RP's PAR add-on leaves on the front channel
            red = {"client_id": "client_1", "response_type": "code", "request_uri": urn}
        else:
            red = dict(base, state="redeem-" + state, request_uri=urn)
        return self.authz_req(dict(with_pair(red, d["front"]), **xf))

    def recorded(self, code):
        """(code_challenge or None, code_challenge_method or None) of the authorization request stored in the grant of
        the code; None when the grant cannot be found"""
        try:
            g = self.server.context.session_manager.get_session_info_by_token(
                code, grant=True, handler_key="authorization_code")["grant"]
            ar = g.authorization_request
            return (ar.get("code_challenge"), ar.get("code_challenge_method"))
        except Exception:
            return None

    def token(self, code, cv, tccm, extra=None):
        """returns ('Tokens',) | ('TkRefused', n) | ('TkRaised', exc)"""
        treq = {"grant_type": "authorization_code", "code": code, "redirect_uri": "https://client_1.example.com/cb",
                "client_id": "client_1", "client_secret": self.server.context.cdb["client_1"]["client_secret"]}
        if cv is not None:
            treq["code_verifier"] = cv
        if tccm is not None:
            treq["code_challenge_method"] = tccm
        if extra:
            treq.update(extra)
        return self.token_req(treq)

    def token_req(self, treq):
        try:
            tp = self.tk.parse_request(dict(treq))
        except UnicodeEncodeError:
            return ("TkRaised", "UnicodeError")
        except KeyError:
            return ("TkRaised", "KeyError")
        except Exception as e:
            return ("TkRaised", "TypeError")
        if "error" in tp and self.is_error_msg(tp):
            d = tp.get("error_description", "")
            if d.startswith("Missing code_verifier"):
                return ("TkRefused", 3)
            if d.startswith("PKCE check failed"):
                return ("TkRefused", 4)
            return ("TkRefused", 0)
        try:
            tr = self.tk.process_request(tp)
        except Exception as e:
            return ("TkRaised", "TypeError")
        ra = tr.get("response_args") if isinstance(tr, dict) else None
        if ra is None or "access_token" not in ra:
            return ("TkRefused", 0)
        return ("Tokens",)


def coq_outcome(o):
    if o[0] == "Tokens":
        return "Tokens"
    if o[0] in ("AzRefused", "TkRefused"):
        return "(%s %s)" % (o[0], coq_n(o[1]))
    if o[0] == "AzRaised":
        return "(AzRefused 99%N)"
    return "(TkRaised %s)" % o[1]


def s_opt(x):
    return coq_opt(x, coq_str, "pystr")


def b_opt(x):
    return coq_opt(x, coq_bool, "bool")


# ---------------------------------------------------------------- one flow = one case
def run_flow(ctx, prov, ce, cc, ccm, cv, tccm, kind, cases, code_from=None, note=None):
    """Runs one flow on the real endpoints, applies the oracle, appends the model case.
    code_from: (cc', ccm') of ANOTHER flow whose verifier is being presented here is expressed by the caller
    simply as cv = that other verifier; the code always comes from this flow's authorization request."""
    prov.set_client_flag(ce)
    a = prov.authz(cc, ccm)
    if a[0] == "code":
        out = prov.token(a[1], cv, tccm)
    else:
        out = a
    return record_flow(ctx, prov, ce, cc, ccm, cv, tccm, kind, cases, out, note)


def record_flow(ctx, prov, ce, cc, ccm, cv, tccm, kind, cases, out, note=None):
    rec = {"kind": kind, "provider": {"methods": prov.methods, "essential": prov.essential, "oidc": prov.oidc},
           "pkce_essential": ce, "code_challenge": cc, "code_challenge_method": ccm, "code_verifier": cv,
           "token_code_challenge_method": tccm, "outcome": list(out)}
    if note:
        rec["note"] = note
    carried = isinstance(cc, str) and cc != ""
    essential = ce if ce is not None else prov.essential
    ctx.case_seen(rec, nontrivial=carried or essential)
    ctx.count("kind:" + kind)
    ctx.count("out:" + out[0] + (str(out[1]) if len(out) > 1 else ""))
    oracle(ctx, prov, rec, out, carried, essential)
    term = "(%s, %s, %s, %s, %s, %s, %s, %s, %s)" % (
        coq_list([coq_str(m) for m in prov.methods], "pystr"), coq_bool(prov.essential), b_opt(ce),
        s_opt(cc), s_opt(ccm), s_opt(cv), s_opt(tccm), hb_table([cv]), coq_outcome(out))
    cases.append((term, rec))
    return out


def oracle(ctx, prov, rec, out, carried, essential):
    """The property text decided on the observed behaviour; no model involved."""
    cc, ccm, cv = rec["code_challenge"], rec["code_challenge_method"], rec["code_verifier"]
    got_code = out[0] in ("Tokens", "TkRefused", "TkRaised")
    if out[0] == "Tokens" and carried:
        method = ccm if (isinstance(ccm, str) and ccm != "") else "plain"
        if not (isinstance(cv, str) and cv != ""):
            ctx.violation("tokens-missing-verifier",
                          "tokens issued although the authorization request carried code_challenge=%r and the token "
                          "request carried no code_verifier" % (cc,), rec)
        else:
            t = ref_tr(method, cv)
            if t is None:
                ctx.violation("tokens-unknown-method",
                              "tokens issued although method %r (recorded at authorization time) has no transform "
                              "for verifier %r" % (method, cv), rec)
            elif t != cc:
                ctx.violation("tokens-wrong-verifier",
                              "tokens issued although %s(code_verifier=%r) = %r differs from the code_challenge %r"
                              % (method, cv, t, cc), rec)
    if essential and got_code:
        method = ccm if (isinstance(ccm, str) and ccm != "") else "plain"
        if not carried:
            ctx.violation("essential-no-challenge",
                          "PKCE essential (client flag %r, global %r) but an authorization request without "
                          "code_challenge obtained a code" % (rec["pkce_essential"], prov.essential), rec)
        elif method not in prov.methods:
            ctx.violation("essential-unsupported-method",
                          "PKCE essential but an authorization request with unsupported method %r (configured %r) "
                          "obtained a code" % (method, prov.methods), rec)


# ---------------------------------------------------------------- flows whose authorization request came through a transport
# d = {"t": "front" | "value" | "uri" | "par" | "par_obj",
#      "obj":   [code_challenge, code_challenge_method] inside the signed request object     (value, uri, par_obj)
#      "body":  [...] plain parameters of the pushed body (par; par_obj: next to the object)  (par, par_obj)
#      "front": [...] next to request / request_uri on the front channel (front: the request itself)
#      "alg": signing algorithm of the object, "push_auth": basic | post, "redeem": full | min}
def nz(x):
    return x if isinstance(x, str) and x != "" else None


def ref_protected(d):
    """The PKCE pair of the authenticated / protected request: the signed object; for a plain push the pushed body.
    None: the request has no protected part."""
    t = d["t"]
    if t == "front":
        return None
    src = d["body"] if t == "par" else d["obj"]
    return (nz(src[0]), nz(src[1]))


def ref_request_pair(d):
    """The pair the provider has to go by.  Written from the rule, not from the code: a pushed request IS the request
    (RFC 9126: the urn stands for what was pushed); the parameters of a request object passed by value are the request
    (the object is the request); a request_uri document overrides same-named front-channel parameters (C16) and
    front-channel parameters only fill what the document does not carry."""
    f = (nz(d["front"][0]), nz(d["front"][1]))
    p = ref_protected(d)
    if p is None:
        return f
    if d["t"] == "uri":
        return (p[0] if p[0] is not None else f[0], p[1] if p[1] is not None else f[1])
    return p


def coq_pair(pr):
    pr = pr if pr is not None else [None, None]
    return "(%s, %s)" % (s_opt(pr[0]), s_opt(pr[1]))


def coq_delivery(d):
    t = d["t"]
    if t == "front":
        return "(DFront %s)" % coq_pair(d["front"])
    if t == "value":
        return "(DValue %s %s)" % (coq_pair(d["obj"]), coq_pair(d["front"]))
    if t == "uri":
        return "(DRef %s %s)" % (coq_pair(d["obj"]), coq_pair(d["front"]))
    if t == "par":
        return "(DPushed (PbPlain %s) %s)" % (coq_pair(d["body"]), coq_pair(d["front"]))
    return "(DPushed (PbObject %s %s) %s)" % (coq_pair(d["obj"]), coq_pair(d["body"]), coq_pair(d["front"]))


def run_dflow(ctx, prov, ce, d, cv, tccm, kind, dcases, note=None, token_req=None):
    """One flow: deliver the authorization request through d, look at what the grant of the code records, redeem the
    code with cv (token_req: a complete token request built by somebody else, e.g. the library's RP)."""
    prov.set_client_flag(ce)
    a = prov.deliver(d, state="ST%d" % prov.n)
    obs = None
    if a[0] == "code":
        obs = prov.recorded(a[1])
        out = prov.token_req(dict(token_req, code=a[1])) if token_req is not None else prov.token(a[1], cv, tccm)
    else:
        out = a
    return record_dflow(ctx, prov, ce, d, cv, tccm, kind, dcases, out, obs, note)


def record_dflow(ctx, prov, ce, d, cv, tccm, kind, dcases, out, obs, note=None, more=None):
    rec = {"kind": kind, "provider": prov.describe(),
           "pkce_essential": ce, "delivery": d, "code_verifier": cv, "token_code_challenge_method": tccm,
           "recorded_in_grant": list(obs) if obs is not None else None, "outcome": list(out)}
    if note:
        rec["note"] = note
    if more:
        rec.update(more)
    if getattr(prov, "xflag", False):
        rec["token_extras"] = dict(getattr(prov, "xtx", None) or {})
    eff = ref_request_pair(d)
    prot = ref_protected(d)
    essential = ce if ce is not None else prov.essential
    ctx.case_seen(rec, nontrivial=True)
    ctx.count("kind:" + kind)
    ctx.count("transport:" + d["t"])
    ctx.count("out:" + out[0] + (str(out[1]) if len(out) > 1 else ""))
    # the property text on the pair the provider has to go by (same oracle as for plain flows)
    oracle(ctx, prov, dict(rec, code_challenge=eff[0], code_challenge_method=eff[1]), out, eff[0] is not None, essential)
    oracle_transport(ctx, prov, rec, d, prot, eff, cv, out, obs)
    if obs is not None and obs[1] is not None:
        obs_t = "(Some (%s, %s))" % (s_opt(nz(obs[0])), coq_str(obs[1]))
    else:
        obs_t = "(@None (option pystr * pystr))"
    term = "(%s, %s, %s, %s, %s, %s, %s, %s, %s)" % (
        coq_list([coq_str(m) for m in prov.methods], "pystr"), coq_bool(prov.essential), b_opt(ce),
        coq_delivery(d), s_opt(cv), s_opt(tccm), hb_table([cv]), coq_outcome(out), obs_t)
    dcases.append((term, rec))
    return out


def oracle_transport(ctx, prov, rec, d, prot, eff, cv, out, obs):
    """What is specific to transports, decided without the model and without the details of how gaps are filled."""
    if prot is None:
        return
    got_code = out[0] in ("Tokens", "TkRefused", "TkRaised")
    front = (nz(d["front"][0]), nz(d["front"][1]))
    if got_code and prot[0] is not None and (obs is None or obs[0] != prot[0]):
        ctx.violation("recorded-challenge-not-protected",
                      "transport %s: the protected request carries code_challenge=%r, the front channel %r, but the grant "
                      "of the issued code records %r" % (d["t"], prot[0], front[0], obs and obs[0]), rec)
    if got_code and prot[1] is not None and (obs is None or obs[1] != prot[1]):
        ctx.violation("recorded-method-not-protected",
                      "transport %s: the protected request names code_challenge_method=%r, the front channel %r, but the "
                      "grant of the issued code records %r" % (d["t"], prot[1], front[1], obs and obs[1]), rec)
    if got_code and d["t"] != "uri" and obs is not None and prot[0] is None and nz(obs[0]) is not None:
        ctx.violation("recorded-challenge-from-front-channel",
                      "transport %s: the protected request carries no code_challenge but the grant records %r "
                      "(front channel: %r)" % (d["t"], obs[0], front[0]), rec)
    if out[0] == "Tokens" and prot[0] is not None:
        v = nz(cv)
        if v is None or all(ref_tr(m, v) != prot[0] for m in ALL):
            ctx.violation("tokens-not-protected-challenge",
                          "transport %s: tokens issued to code_verifier=%r which transforms to the protected "
                          "code_challenge %r under no method at all (front channel carried %r)"
                          % (d["t"], cv, prot[0], front), rec)
    # the other direction of 'iff': the complete protected pair with its verifier must be accepted
    if (prot[0] is not None and prot[1] in prov.methods and nz(cv) is not None and ref_tr(prot[1], cv) == prot[0]
            and out[0] != "Tokens"):
        ctx.violation("protected-pair-refused",
                      "transport %s: the protected request carries (%r, %r), the token request the matching verifier, "
                      "yet the outcome is %r (front channel carried %r)" % (d["t"], prot[0], prot[1], out, front), rec)


# ---------------------------------------------------------------- interactive authentication: the log-in page
USER, PASSWORD = "diana", "krall"


class FormTemplate:
    """template handler of UserPassJinja2 reduced to what matters: a form with the hidden, signed token"""

    def render(self, template, **kwargs):
        return ('<form action="%s" method="post"><input type="hidden" name="token" value="%s">'
                '<input name="username"><input name="password" type="password"></form>'
                % (html.escape(str(kwargs.get("action", "")), quote=True), html.escape(kwargs["token"], quote=True)))


def _page_authn_class():
    from idpyoidc.server.exception import FailedAuthentication
    from idpyoidc.server.user_authn.user import UserAuthnMethod

    class PageAuthn(UserAuthnMethod):
        """An authentication method of the harness: the log-in page is a plain form, every argument
        process_request hands over (query, authn_class_ref, return_uri ...) travels in a hidden field of its own."""
        url_endpoint = "/verify/page"

        def __init__(self, db, upstream_get=None, **kwargs):
            UserAuthnMethod.__init__(self, upstream_get=upstream_get, **kwargs)
            self.user_db = dict(db)

        def __call__(self, **kwargs):
            fields = "".join('<input type="hidden" name="%s" value="%s">'
                             % (html.escape(k, quote=True), html.escape(v if isinstance(v, str) else json.dumps(v), quote=True))
                             for k, v in kwargs.items())
            return ('<form action="%s" method="post">%s<input name="username"><input name="password" type="password">'
                    '</form>' % (self.url_endpoint, fields))

        def verify(self, *args, **kwargs):
            if self.user_db.get(kwargs.get("username")) == kwargs.get("password"):
                return kwargs["username"]
            raise FailedAuthentication()

    return PageAuthn


_HIDDEN = re.compile(r'<input type="hidden" name="([^"]*)" value="([^"]*)">')
# parameters of the request the model is told about next to the PKCE pair (everything else the request may hold - the
# request object itself, what the provider attached while parsing - has no say in the model: C15_resumed_others_irrelevant)
OTHERS = ("client_id", "redirect_uri", "scope", "state", "response_type", "prompt", "max_age", "nonce", "request_uri")


class IProv(Prov):
    """provider whose only authentication method shows a log-in page"""

    def __init__(self, srv, methods, essential, oidc, login):
        from idpyoidc.server.user_authn.authn_context import INTERNETPROTOCOLPASSWORD
        self.login = login
        if login == "jinja":
            authn = {"class": "idpyoidc.server.user_authn.user.UserPassJinja2",
                     "kwargs": {"db": {"class": dict, "kwargs": {USER: PASSWORD}}, "template_handler": FormTemplate(),
                                "verify_endpoint": "verify/user"}}
        else:
            authn = {"class": _page_authn_class(), "kwargs": {"db": {USER: PASSWORD}}}
        Prov.__init__(self, srv, methods, essential, oidc,
                      extra={"authentication": {"user": dict(authn, acr=INTERNETPROTOCOLPASSWORD)}})
        self.method = self.server.context.authn_broker.get_method_by_id("user")
        self.pending = []
        self.hold = False
        self.cookie_next = None
        cp = self.az.request_cls.c_param
        self.lists = sorted(k for k, spec in cp.items() if isinstance(spec[0], list))
        self.declares_pkce = [k for k in ("code_challenge", "code_challenge_method") if k in cp]

    def describe(self):
        return dict(Prov.describe(self), login=self.login)

    # -- first half: the authorization request arrives; the answer may be the log-in page
    def begin(self, d, state, extra=None, cookie=None, hold=True):
        """('page', handle) | ('code', code) | ('AzRefused', n) | ('AzRaised', name)"""
        self.BASE = dict(Prov.BASE, **(extra or {}))
        self.cookie_next = cookie
        self.hold = hold
        try:
            return self.deliver(d, state=state)
        finally:
            self.cookie_next = None
            self.__dict__.pop("BASE", None)

    def login_page(self, parsed, res):
        h = {"page": res["http_response"], "others": self.render_others(parsed)}
        self.pending.append(h)
        return ("page", h) if self.hold else self.finish(h)

    def render_others(self, parsed):
        res = []
        for k in OTHERS + tuple(x for x in getattr(self, "xnames", ()) if x not in OTHERS):
            if k not in parsed:
                continue
            v = parsed[k]
            if isinstance(v, str):
                res.append((k, "S", v))
            elif isinstance(v, bool):
                continue
            elif isinstance(v, int):
                res.append((k, "S", str(v)))
            elif isinstance(v, list) and all(isinstance(x, str) for x in v):
                res.append((k, "L", list(v)))
        return res

    # -- second half: the user posts the form; the application of example/flask_op/views.py::verify
    def read_page(self, page):
        fields = {k: html.unescape(v) for k, v in _HIDDEN.findall(page)}
        if self.login == "jinja":
            token = fields["token"]
            username = self.method.verify(username=USER, password=PASSWORD, token=token)
            return username, dict(self.method.unpack_token(token))
        username = self.method.verify(username=USER, password=PASSWORD)
        return username, fields

    def finish(self, h):
        """('code', code) | ('AzRefused', n) | ('AzRaised', name); h['query'] is the query the page carried"""
        if h in self.pending:
            self.pending.remove(h)
        try:
            username, auth_args = self.read_page(h["page"])
            h["query"] = auth_args["query"]
            authz_request = self.az.request_cls().from_urlencoded(auth_args["query"])
            sid = self.az.create_session(authz_request, username, auth_args["authn_class_ref"],
                                         auth_args.get("iat", 0), self.method)
            args = self.az.authz_part2(request=authz_request, session_id=sid)
        except Exception as e:
            return ("AzRaised", type(e).__name__)
        self.last_cookie = args.get("cookie") if isinstance(args, dict) else None
        ra = args.get("response_args") if isinstance(args, dict) else None
        if ra is None or "code" not in ra:
            return ("AzRefused", 0)
        return ("code", ra["code"])


def query_pair(q):
    """the PKCE pair a query string carries, read with urllib (not with the library)"""
    if q is None:
        return None
    d = urllib.parse.parse_qs(q, keep_blank_values=True)
    one = lambda k: (d[k][0] if len(d[k]) == 1 else d[k]) if k in d else None
    return (one("code_challenge"), one("code_challenge_method"))


def coq_opt_pk(p):
    if p is None:
        return "(@None pk)"
    return "(Some (%s, %s))" % (s_opt(p[0] if isinstance(p[0], str) else None if p[0] is None else json.dumps(p[0])),
                                 s_opt(p[1] if isinstance(p[1], str) else None if p[1] is None else json.dumps(p[1])))


def coq_others(others):
    rows = []
    for k, kind, v in others:
        val = "(PvS %s)" % coq_str(v) if kind == "S" else "(PvL %s)" % coq_list([coq_str(x) for x in v], "pystr")
        rows.append("(%s, %s)" % (coq_str(k), val))
    return coq_list(rows, "(pystr * pval)")


HOWS = ("login", "twice", "late", "relogin", "maxage", "swap")
EARLIER_V = "earlier-log-in-of-this-browser-0123456789-abcdefg"
SWAP_V = "the-other-pending-page-0123456789-abcdefghijklmnop"


def run_iflow(ctx, prov, ce, d, how, cv, tccm, kind, icases, dcases, note=None, token_req=None, state=None):
    """One interactive flow, self-contained (the history `how` asks for is produced here):
       login   request -> page -> post -> code
       twice   ... the form is posted twice: two codes, each redeemed
       late    ... the form is posted two hours after the page was shown
       relogin the browser has a session from an EARLIER log-in for another authorization request (another challenge);
               this request says prompt=login
       maxage  ... this request says max_age=10 and the earlier log-in is 100 s old
       swap    a second request (another challenge) gets its page while this one is pending and is answered first
       sso     the browser has a session, nothing asks for re-authentication: no page (recorded as a transport flow)"""
    prov.set_client_flag(ce)
    clock = prov.clock
    if prov.n % 150 > 140 and not prov.pending:
        prov.server.context.session_manager.flush()
    cookie, extra = None, {}
    m0 = prov.methods[0]
    if how in ("relogin", "maxage", "sso"):
        prov.set_client_flag(None)
        a0 = prov.begin({"t": "front", "front": [ref_tr(m0, EARLIER_V), m0]}, "EARLIER%d" % prov.n, hold=False)
        prov.set_client_flag(ce)
        cookie = getattr(prov, "last_cookie", None)
        if a0[0] != "code" or not cookie:
            ctx.notes.append("interactive %s: the earlier log-in produced no session cookie (%r)" % (how, a0))
            ctx.count("interactive:no-earlier-session")
            return None
        if how == "relogin":
            extra = {"prompt": ["login"]}
        elif how == "maxage":
            extra = {"max_age": 10}
            clock.tick(100)
    a = prov.begin(d, state or "ST%d" % prov.n, extra=extra, cookie=cookie, hold=True)
    shown = a[0] == "page"
    results = []
    if shown:
        h = a[1]
        if how == "late":
            clock.tick(7200)
        if how == "swap":
            b = prov.begin({"t": "front", "front": [ref_tr(m0, SWAP_V), m0]}, "SWAP%d" % prov.n, hold=True)
            if b[0] == "page":
                prov.finish(b[1])
        results.append(prov.finish(h))
        if how == "twice":
            results.append(prov.finish(h))
    else:
        h = None
        results.append(a)
    out = None
    for i, r in enumerate(results):
        obs = None
        if r[0] == "code":
            obs = prov.recorded(r[1])
            out = prov.token_req(dict(token_req, code=r[1])) if token_req is not None else prov.token(r[1], cv, tccm)
        else:
            out = r
        inter = {"how": how, "page_shown": shown, "post": i + 1, "extra": extra}
        if not shown:
            # no page: an ordinary (transport) flow on a provider that could have asked; model flow_d
            ctx.count("interactive:no-page:" + how)
            if how in ("relogin", "maxage") and r[0] == "code":
                ctx.notes.append("interactive %s: re-authentication was asked for but no log-in page was shown" % how)
            record_dflow(ctx, prov, ce, d, cv, tccm, kind, dcases, out, obs, note, more={"interactive": inter})
            continue
        record_iflow(ctx, prov, ce, d, cv, tccm, kind, icases, out, obs, h, inter, note)
    return out


def record_iflow(ctx, prov, ce, d, cv, tccm, kind, icases, out, obs, h, inter, note=None):
    qp = query_pair(h.get("query"))
    rec = {"kind": kind, "provider": prov.describe(), "interactive": inter,
           "pkce_essential": ce, "delivery": d, "code_verifier": cv, "token_code_challenge_method": tccm,
           "query_of_login_page": h.get("query"), "recorded_in_grant": list(obs) if obs is not None else None,
           "outcome": list(out)}
    if note:
        rec["note"] = note
    if getattr(prov, "xflag", False):
        rec["token_extras"] = dict(getattr(prov, "xtx", None) or {})
    eff = ref_request_pair(d)
    prot = ref_protected(d)
    essential = ce if ce is not None else prov.essential
    ctx.case_seen(rec, nontrivial=True)
    ctx.count("kind:" + kind)
    ctx.count("interactive:" + inter["how"])
    ctx.count("interactive-transport:" + d["t"])
    ctx.count("interactive-login:" + prov.login)
    ctx.count("out:" + out[0] + (str(out[1]) if len(out) > 1 else ""))
    oracle(ctx, prov, dict(rec, code_challenge=eff[0], code_challenge_method=eff[1]), out, eff[0] is not None, essential)
    oracle_transport(ctx, prov, rec, d, prot, eff, cv, out, obs)
    oracle_resume(ctx, prov, rec, d, eff, cv, out, obs)
    obs_r = None
    if out[0] in ("Tokens", "TkRefused", "TkRaised") and obs is not None:
        obs_r = (nz(obs[0]) if not isinstance(obs[0], list) else obs[0], nz(obs[1]) if not isinstance(obs[1], list) else obs[1])
    term = "(%s, %s, %s, %s, %s, %s, %s, %s, %s, %s, %s, %s)" % (
        coq_list([coq_str(m) for m in prov.methods], "pystr"), coq_bool(prov.essential), b_opt(ce),
        coq_delivery(d), coq_list([coq_str(x) for x in prov.lists], "pystr"), coq_others(h["others"]),
        s_opt(cv), s_opt(tccm), hb_table([cv]), coq_outcome(out), coq_opt_pk(qp), coq_opt_pk(obs_r))
    icases.append((term, rec))


def oracle_resume(ctx, prov, rec, d, eff, cv, out, obs):
    """The property text on a flow that went through the log-in page: the challenge recorded for the code is the one
    of the authorization request that led to it, under that request's method (the default when it named none), and
    its verifier redeems the code.  No model, no query parsing: request sent -> grant looked at -> token answer."""
    got_code = out[0] in ("Tokens", "TkRefused", "TkRaised")
    if not got_code:
        return
    how = rec["interactive"]["how"]
    if eff[0] is not None:
        if obs is None or obs[0] != eff[0]:
            ctx.violation("resumed-challenge-not-recorded",
                          "log-in page (%s, %s): the authorization request carried code_challenge=%r but the grant of the "
                          "code minted after the log-in records %r" % (prov.login, how, eff[0], obs and obs[0]), rec)
        want_m = eff[1] if eff[1] is not None else "plain"
        if obs is None or obs[1] != want_m:
            ctx.violation("resumed-method-not-recorded",
                          "log-in page (%s, %s): the authorization request named code_challenge_method=%r (-> %r) but the "
                          "grant of the code minted after the log-in records %r" % (prov.login, how, eff[1], want_m, obs and obs[1]), rec)
        if (want_m in prov.methods and nz(cv) is not None and ref_tr(want_m, cv) == eff[0] and out[0] != "Tokens"):
            ctx.violation("resumed-pair-refused",
                          "log-in page (%s, %s): the request carried (%r, %r), the token request the matching verifier, "
                          "yet the outcome is %r" % (prov.login, how, eff[0], eff[1], out), rec)
    elif obs is not None and nz(obs[0]) is not None:
        ctx.violation("resumed-challenge-of-another-request",
                      "log-in page (%s, %s): the authorization request carried no code_challenge but the grant of its code "
                      "records %r" % (prov.login, how, obs[0]), rec)


# ---------------------------------------------------------------- generators
def rstr(rng, n, alpha=UNRES):
    return "".join(rng.choice(alpha) for _ in range(n))


def near_misses(rng, v):
    res = []
    if v:
        i = rng.randrange(len(v))
        c = v[i]
        repl = rng.choice([x for x in UNRES if x != c])
        res.append(("one-char", v[:i] + repl + v[i + 1:]))
        sw = v.swapcase()
        if sw != v:
            res.append(("case", sw))
        res.append(("drop-last", v[:-1]))
    res.append(("pad", v + "="))
    res.append(("append", v + "A"))
    res.append(("space", v + " "))
    alt = v.replace("-", "+").replace("_", "/")
    if alt != v:
        res.append(("b64-alphabet", alt))
    return res


def presence_table(ctx, provs, rng, cases):
    for prov in provs:
        for m in ALL + ["S1", ""]:
            v = rstr(rng, rng.choice([43, 64, 128]))
            c = ref_tr(m, v) if m in ALL else v
            for bits in range(16):
                cc = c if bits & 1 else None
                ccm = m if bits & 2 else None
                cv = v if bits & 4 else None
                tccm = rng.choice(["plain", "S256", m]) if bits & 8 else None
                # when the method is absent the default applies: make half of those flows valid for it
                if ccm is None and cc is not None and bits & 4 and rng.random() < 0.5:
                    cc = v
                for ce in (None, True, False):
                    if ce is not None and bits not in (0, 2, 5, 7, 15) and rng.random() < 0.6:
                        continue
                    run_flow(ctx, prov, ce, cc, ccm, cv, tccm, "presence", cases)


def single_faults(ctx, provs, rng, cases):
    for prov in provs:
        for m in ALL:
            for ce in (None, True, False):
                v = rstr(rng, rng.choice([43, 50, 128]))
                c = ref_tr(m, v)
                run_flow(ctx, prov, ce, c, m, v, None, "valid", cases)
                run_flow(ctx, prov, ce, c, m, None, None, "fault:no-verifier", cases)
                run_flow(ctx, prov, ce, c, m, "", None, "fault:empty-verifier", cases)
                for name, w in near_misses(rng, v):
                    run_flow(ctx, prov, ce, c, m, w, None, "fault:verifier-" + name, cases)
                # downgrade attempts: the challenge itself replayed as verifier, token request says plain
                run_flow(ctx, prov, ce, c, m, c, "plain", "fault:downgrade-plain", cases)
                run_flow(ctx, prov, ce, c, m, v, "plain", "token-method-plain", cases)
                run_flow(ctx, prov, ce, c, m, v, "nonsense", "token-method-unknown", cases)
                # a verifier that belongs to another flow
                v2 = rstr(rng, len(v))
                run_flow(ctx, prov, ce, c, m, v2, None, "fault:other-flow-verifier", cases)
                # challenge computed with another method than the one named
                for m2 in ALL:
                    if m2 != m:
                        run_flow(ctx, prov, ce, ref_tr(m2, v), m, v, None, "fault:challenge-of-%s" % m2, cases)
                # challenge near misses
                for name, c2 in near_misses(rng, c)[:4]:
                    run_flow(ctx, prov, ce, c2, m, v, None, "fault:challenge-" + name, cases)
                # method faults
                for bad in ("s256", "S1", "none", "S256 ", "PLAIN"):
                    run_flow(ctx, prov, ce, c, bad, v, None, "fault:unknown-method", cases)
                run_flow(ctx, prov, ce, None, m, v, None, "fault:no-challenge", cases)
                run_flow(ctx, prov, ce, "", m, v, None, "fault:empty-challenge", cases)
                run_flow(ctx, prov, ce, None, None, None, None, "no-pkce", cases)


def lengths_and_alphabets(ctx, provs, rng, cases):
    alphas = [("unreserved", UNRES), ("ascii-other", " !\"#$%&'()*+,/:;<=>?@[\\]^`{|}"), ("non-ascii", "åäöé€λж"),
              ("mixed", UNRES + "å +/=")]
    for prov in provs[:4]:
        for n in (0, 1, 42, 43, 64, 128, 129, 1000):
            for an, alpha in alphas:
                if n == 1000 and an != "unreserved":
                    continue
                v = rstr(rng, n, alpha)
                for m in ALL:
                    if n == 1000 and m not in ("plain", "S256"):
                        continue
                    c = ref_tr(m, v)
                    if c is None:
                        # no transform exists (non-ASCII under a hash method): the best an attacker can send
                        c = rstr(rng, 43)
                    run_flow(ctx, prov, None, c, m, v, None, "length:%d:%s" % (n, an), cases)
                    if n and rng.random() < 0.3:
                        w = v[:-1] + ("å" if an != "non-ascii" else "a")
                        run_flow(ctx, prov, None, c, m, w, None, "length-fault:%d:%s" % (n, an), cases)


def random_flows(ctx, provs, rng, cases, n):
    pool_m = ALL + ["S1", "", "s256"]
    for _ in range(n):
        prov = rng.choice(provs)
        ce = rng.choice([None, None, True, False])
        v = rstr(rng, rng.choice([1, 43, 44, 64, 128]), rng.choice([UNRES, UNRES, UNRES + "å="]))
        m = rng.choice(pool_m)
        c = ref_tr(m, v) if m in ALL else v
        if c is None:
            c = rstr(rng, 43)
        cc = rng.choice([c, c, c, None, "", v, rstr(rng, 43)])
        ccm = rng.choice([m, m, m, None, rng.choice(pool_m)])
        cv = rng.choice([v, v, v, None, "", c, v[:-1], v + "=", v.swapcase()])
        tccm = rng.choice([None, None, "plain", "S256", m])
        run_flow(ctx, prov, ce, cc, ccm, cv, tccm, "random", cases)


# ---------------------------------------------------------------- the real relying party
def make_rp(secret):
    from idpyoidc.client.defaults import DEFAULT_OAUTH2_SERVICES
    from idpyoidc.client.entity import Entity
    from idpyoidc.client.oauth2.add_on import do_add_ons
    config = {
        "client_id": "client_1", "client_secret": secret,
        "redirect_uris": ["https://client_1.example.com/cb"],
        "preference": {"response_types": ["code"]},
        "add_ons": {"pkce": {"function": "idpyoidc.client.oauth2.add_on.pkce.add_support",
                             "kwargs": {"code_challenge_length": 64, "code_challenge_method": "S256"}}},
    }
    ent = Entity(config=config, services=DEFAULT_OAUTH2_SERVICES, client_type="oauth2")
    do_add_ons(config["add_ons"], ent.get_services())
    return ent


def rp_cases(ctx, provs, rng, cases, rpcases, unres_cases):
    import idpyoidc.client.oauth2.add_on.pkce as cp
    import idpyoidc.client.util as cu
    from idpyoidc.message.oauth2 import AuthorizationResponse
    # the real generator: alphabet check only (its randomness is not ours)
    for n in (0, 1, 43, 64, 128, 300):
        s = cu.unreserved(n)
        if len(s) != n:
            ctx.violation("rp-verifier-length", "unreserved(%d) returned %d characters" % (n, len(s)), {"unreserved": n})
        unres_cases.append(("(%s, true)" % coq_str(s), {"unreserved": s}))
    unres_cases.append(("(%s, false)" % coq_str("ab c"), {"unreserved": "ab c"}))
    alphabet = cu.BASECHR
    real_unreserved = cp.unreserved
    cp.unreserved = lambda size=64: "".join(rng.choice(alphabet) for _ in range(size))
    try:
        ent = make_rp(provs[0].server.context.cdb["client_1"]["client_secret"])
        rctx = ent.get_context()
        azs = ent.get_service("authorization")
        tks = ent.get_service("accesstoken")
        seq = 0
        for method in ("S256", "S384", "S512", "plain", "S1", None):
            for length in (None, 0, 1, 42, 43, 64, 128, 129, 1000):
                if length == 1000 and method not in ("S256", None):
                    continue
                kw = {}
                if method is not None:
                    kw["code_challenge_method"] = method
                if length is not None:
                    kw["code_challenge_length"] = length
                rctx.add_on["pkce"] = kw
                for prov in provs:
                    if length in (1, 42, 129, 1000) and prov is not provs[0] and rng.random() < 0.7:
                        continue
                    seq += 1
                    state = "rpstate%d" % seq
                    rec = {"kind": "rp", "rp_method": method, "rp_length": length,
                           "provider": {"methods": prov.methods, "essential": prov.essential, "oidc": prov.oidc}}
                    try:
                        areq = azs.construct_request({"state": state, "response_type": "code"}).to_dict()
                    except Exception as e:
                        rec["rp_outcome"] = type(e).__name__
                        ctx.case_seen(rec, True)
                        ctx.count("rp:" + type(e).__name__)
                        if type(e).__name__ == "Unsupported":
                            rpcases.append(("(%s, %s, %s, %s)" % (s_opt(method), coq_str(""), hb_table([]),
                                                                  "(@Err (pystr * pystr) (Refused 5%N))"), rec))
                        else:
                            ctx.mismatch("relying party raised %r" % e, rec)
                        break
                    item = rctx.cstate.get_set(state, claim=["code_verifier"])
                    v = item.get("code_verifier", "")
                    cc, ccm = areq.get("code_challenge"), areq.get("code_challenge_method")
                    rec.update({"code_challenge": cc, "code_challenge_method": ccm, "code_verifier": v})
                    want_len = 64 if length is None else length
                    if len(v) != want_len:
                        ctx.violation("rp-verifier-length", "RP configured with length %r drew a verifier of %d characters"
                                      % (length, len(v)), rec)
                    rpcases.append(("(%s, %s, %s, (Ok (%s, %s)))" % (s_opt(method), coq_str(v), hb_table([v]),
                                                                      coq_str(cc or ""), coq_str(ccm or "")), rec))
                    # oracle for the RP alone: the challenge is the RFC transform of the verifier it will send
                    if ref_tr(ccm, v) != cc:
                        ctx.violation("rp-challenge-wrong", "RP sent code_challenge %r for verifier %r under %r" % (cc, v, ccm), rec)
                    # send it to the provider
                    prov.set_client_flag(None)
                    areq["scope"] = "openid"
                    a = prov.authz_req(areq)
                    if a[0] == "code":
                        rctx.cstate.update(state, AuthorizationResponse(code=a[1], state=state))
                        treq = tks.construct_request(state=state).to_dict()
                        sent_v = treq.get("code_verifier")
                        out = prov.token_req(treq)
                    else:
                        sent_v = None
                        out = a
                    rec["token_code_verifier"] = sent_v
                    rec["outcome"] = list(out)
                    ctx.case_seen(rec, True)
                    ctx.count("rp:" + out[0] + (str(out[1]) if len(out) > 1 else ""))
                    supported = ccm in prov.methods
                    # RP-agree oracle. Configuration domain: code_challenge_length >= 1 (a length of 0 is outside
                    # the supported configuration space: the RP then sends no verifier at all and the provider must
                    # refuse; that flow is still run and compared with the model, C15_rp_op_agree_refuted).
                    if supported and out[0] != "Tokens" and v != "":
                        ctx.violation("rp-op-disagree",
                                      "pair produced by the library's RP (method %r, verifier length %d) refused by the "
                                      "library's provider (configured %r): %r" % (ccm, len(v), prov.methods, out), rec)
                    if v == "":
                        ctx.count("rp:length-0-outside-oracle-domain")
                    oracle(ctx, prov, {"code_challenge": cc, "code_challenge_method": ccm, "code_verifier": sent_v,
                                       "pkce_essential": None, **rec}, out, bool(cc), prov.essential)
                    term = "(%s, %s, %s, %s, %s, %s, %s, %s, %s)" % (
                        coq_list([coq_str(m) for m in prov.methods], "pystr"), coq_bool(prov.essential), b_opt(None),
                        s_opt(cc), s_opt(ccm), s_opt(sent_v), s_opt(None),
                        hb_table([sent_v]), coq_outcome(out))
                    cases.append((term, rec))
    finally:
        cp.unreserved = real_unreserved


# ---------------------------------------------------------------- histories of the relying party's verifier store
# The RP's add-on keeps the verifier in the client's state record (cstate) under the state value.  An application may build
# the authorization request again under the SAME state (regenerated log-in URL, retry, caller-supplied fixed state); the
# OAuth2 authorization service updates the existing record, the OIDC one resets it first.  A history:
#   spec = {"client_type": "oauth2" | "oidc", "method": configured method or None, "length": configured length or None,
#           "state_mode": "fixed" (caller-supplied value) | "created" (cstate.create_state first),
#           "state_via": "args" (request_args["state"]) | "kwargs" (construct_request(..., state=)),
#           "steps": [["begin", label] | ["resp", label] (the response to the latest request under label is stored) |
#                     ["redeem", label, j] (the code of the j-th answered request under label is redeemed by the RP's own
#                      token request; j = 0: the token request is only built)]}
# Model: rp_run / rp_sent of Model/PkceRp.v (C15_rp_latest_begin_sent, C15_rp_latest_pair_accepted).  Oracle (property text:
# "a challenge/verifier pair produced by this library's relying party is always accepted by this library's provider"): the
# token request carries the verifier drawn for the LATEST request built under its state (rp-stale-verifier), the code of the
# latest request is redeemed (rp-op-disagree), the code of an earlier request is decided by the provider on the challenge
# recorded for it (oracle(): tokens-wrong-verifier).
RP_ISS = "https://op.example.com"
HIST_IMP = ["Lib.Base", "Lib.PyStr", "Lib.PkceTy", "Gen.PkceTables", "Model.Pkce", "Model.PkceRp"]


def make_rp_ct(secret, ct):
    from idpyoidc.client.defaults import DEFAULT_OAUTH2_SERVICES, DEFAULT_OIDC_SERVICES
    from idpyoidc.client.entity import Entity
    from idpyoidc.client.oauth2.add_on import do_add_ons
    config = {
        "client_id": "client_1", "client_secret": secret, "issuer": RP_ISS,
        "redirect_uris": ["https://client_1.example.com/cb"],
        "preference": {"response_types": ["code"]},
        "add_ons": {"pkce": {"function": "idpyoidc.client.oauth2.add_on.pkce.add_support",
                             "kwargs": {"code_challenge_length": 64, "code_challenge_method": "S256"}}},
    }
    ent = Entity(config=config, services=DEFAULT_OAUTH2_SERVICES if ct == "oauth2" else DEFAULT_OIDC_SERVICES, client_type=ct)
    do_add_ons(config["add_ons"], ent.get_services())
    return ent


def coq_crec(pairs):
    return coq_list(["(%s, %s)" % (coq_str(k), coq_str(v)) for k, v in pairs], "(pystr * pystr)")


def coq_sent(x):
    if x == "KeyError":
        return "(@Err (option pystr) KeyError)"
    return "(@Ok (option pystr) %s)" % s_opt(x)


class Draws:
    """stands in for idpyoidc.client.oauth2.add_on.pkce.unreserved: our randomness (or recorded draws), remembered"""

    def __init__(self, rng, alphabet, feed=None):
        self.rng, self.alphabet, self.feed, self.last, self.all = rng, alphabet, list(feed or []), [], []

    def __call__(self, size=64):
        v = self.feed.pop(0) if self.feed else "".join(self.rng.choice(self.alphabet) for _ in range(size))
        self.last.append(v)
        self.all.append(v)
        return v


def run_history(ctx, prov, ent, spec, tag, draws, cases, rpcases, hcases):
    """runs one history on the real services of the relying party `ent` and the real provider `prov`"""
    from idpyoidc.message.oauth2 import AuthorizationResponse
    rctx = ent.get_context()
    azs, tks = ent.get_service("authorization"), ent.get_service("accesstoken")
    oidc = spec["client_type"] == "oidc"
    kw = {}
    if spec.get("method") is not None:
        kw["code_challenge_method"] = spec["method"]
    if spec.get("length") is not None:
        kw["code_challenge_length"] = spec["length"]
    rctx.add_on["pkce"] = kw
    iss = rctx.issuer or ""
    states, ops, trace, begins, drawn = {}, [], [], {}, []
    outs = []
    del draws.all[:]
    prov.set_client_flag(None)
    prov.cookie_in = None

    def state_of(label):
        if label not in states:
            if spec.get("state_mode") == "created":
                states[label] = rctx.cstate.create_state(iss=iss)
                ops.append("(RpStore %s %s)" % (coq_str(states[label]), coq_crec([("iss", iss)])))
            else:
                states[label] = "h%s%s" % (tag, label)
            begins[label] = []
        return states[label]

    def base_rec(label):
        return {"kind": "rp-history", "provider": prov.describe(), "rp_history": spec, "drawn": list(draws.all),
                "state": states[label], "trace": list(trace), "pkce_essential": None, "token_code_challenge_method": None}

    for step in spec["steps"]:
        label = step[1]
        s = state_of(label)
        if step[0] == "begin":
            del draws.last[:]
            args, kwargs = {"response_type": "code"}, {}
            if spec.get("state_via") == "kwargs":
                kwargs["state"] = s
            else:
                args["state"] = s
            try:
                areq = azs.construct_request(args, **kwargs).to_dict()
                err = None
            except Exception as e:
                areq, err = None, type(e).__name__
            v = draws.last[0] if draws.last else ""
            drawn.append(v)
            if err is not None:
                trace.append({"begin": label, "verifier_drawn": v, "raised": err})
                ops.append("(RpBegin %s %s %s %s %s %s)" % (coq_bool(oidc), coq_str(s), s_opt(spec.get("method")), coq_str(v),
                                                            coq_str(iss), coq_crec([])))
                ctx.count("rp-history:begin-" + err)
                if err == "Unsupported":
                    rpcases.append(("(%s, %s, %s, %s)" % (s_opt(spec.get("method")), coq_str(v), hb_table([v]),
                                                          "(@Err (pystr * pystr) (Refused 5%N))"), base_rec(label)))
                else:
                    ctx.mismatch("relying party raised %s while building the authorization request" % err, base_rec(label))
                continue
            cc, ccm = areq.get("code_challenge"), areq.get("code_challenge_method")
            others = [(k, x) for k, x in areq.items() if isinstance(x, str) and k not in ("code_challenge", "code_challenge_method")]
            ops.append("(RpBegin %s %s %s %s %s %s)" % (coq_bool(oidc), coq_str(s), s_opt(spec.get("method")), coq_str(v),
                                                        coq_str(iss), coq_crec(others)))
            try:
                stored = rctx.cstate.get_set(s, claim=["code_verifier"]).get("code_verifier")
            except KeyError:
                stored = "KeyError"
            a = prov.authz_req(dict(areq, scope="openid"))
            b = {"v": v, "cc": cc, "ccm": ccm, "code": a[1] if a[0] == "code" else None}
            begins[label].append(b)
            trace.append({"begin": label, "verifier_drawn": v, "code_challenge": cc, "code_challenge_method": ccm,
                          "verifier_in_state_record": stored, "authorization": a[0] if a[0] == "code" else list(a)})
            rec = base_rec(label)
            rpcases.append(("(%s, %s, %s, (Ok (%s, %s)))" % (s_opt(spec.get("method")), coq_str(v), hb_table([v]),
                                                              coq_str(cc or ""), coq_str(ccm or "")), rec))
            if ref_tr(ccm, v) != cc:
                ctx.violation("rp-challenge-wrong", "RP sent code_challenge %r for the verifier %r it drew, under %r" % (cc, v, ccm), rec)
            continue
        answered = [b for b in begins[label] if b["code"] is not None]
        if step[0] == "resp":
            if not answered or begins[label][-1]["code"] is None:
                continue
            code = begins[label][-1]["code"]
            rctx.cstate.update(s, AuthorizationResponse(code=code, state=s))
            ops.append("(RpStore %s %s)" % (coq_str(s), coq_crec([("code", code[:16]), ("state", s)])))
            trace.append({"response_stored": label, "for_request": len(begins[label])})
            continue
        # redeem: the response carrying the chosen code arrives, the RP builds its token request
        j = step[2]
        b = answered[j - 1] if 0 < j <= len(answered) else None
        code = b["code"] if b else "placeholder-code"
        rctx.cstate.update(s, AuthorizationResponse(code=code, state=s))
        ops.append("(RpStore %s %s)" % (coq_str(s), coq_crec([("code", code[:16]), ("state", s)])))
        try:
            treq = tks.construct_request(state=s).to_dict()
            sent_v = treq.get("code_verifier")
            obs = sent_v
        except KeyError:
            treq, sent_v, obs = None, None, "KeyError"
        latest = begins[label][-1] if begins[label] else None
        is_latest = b is not None and b is latest
        if b is not None and treq is not None:
            out = prov.token_req(treq)
        else:
            out = None
        trace.append({"redeem": label, "request": j if b else 0, "of": len(begins[label]), "token_code_verifier": obs,
                      "outcome": list(out) if out else None})
        rec = base_rec(label)
        rec.update({"redeemed_request": j if b else 0, "requests_under_state": len(begins[label]),
                    "latest_verifier": latest["v"] if latest else None, "token_code_verifier": obs,
                    "code_challenge": b["cc"] if b else None, "code_challenge_method": b["ccm"] if b else None,
                    "code_verifier": sent_v, "outcome": list(out) if out else None})
        ctx.case_seen(rec, True)
        ctx.count("rp-history:%s:%s" % (spec["client_type"],
                                         "built-only" if out is None else ("latest" if is_latest else "earlier") + ":" + out[0]))
        ctx.count("rp-history:requests-under-state=%d" % len(begins[label]))
        hcases.append(("(%s, %s, %s, %s)" % (coq_list(ops, "rp_op"), coq_str(s), hb_table(drawn), coq_sent(obs)), rec))
        # oracle 1: the token request carries the verifier of the latest request built under its state
        if latest is not None and obs != latest["v"]:
            ctx.violation("rp-stale-verifier",
                          "%s relying party: the authorization request was built %d time(s) under state %r, the latest one "
                          "with code_challenge %r (verifier %r); the token request carries code_verifier %r"
                          % (spec["client_type"], len(begins[label]), s, latest["cc"], latest["v"], obs), rec)
        if out is None:
            continue
        outs.append(out)
        # oracle 2: the pair of the latest request is accepted by this library's provider
        if is_latest and b["ccm"] in prov.methods and b["v"] != "" and out[0] != "Tokens":
            ctx.violation("rp-op-disagree",
                          "pair produced by the library's %s RP (method %r; request %d of %d under the state) refused by the "
                          "library's provider (configured %r): %r; %s(code_verifier sent) %s the code_challenge sent"
                          % (spec["client_type"], b["ccm"], j, len(begins[label]), prov.methods, out, b["ccm"],
                             "=" if ref_tr(b["ccm"], sent_v or "") == b["cc"] else "!="), rec)
        # oracle 3 (any code, earlier ones in particular): tokens only for a verifier that transforms to the challenge the
        # provider recorded for THAT code
        oracle(ctx, prov, rec, out, bool(b["cc"]), prov.essential)
        term = "(%s, %s, %s, %s, %s, %s, %s, %s, %s)" % (
            coq_list([coq_str(m) for m in prov.methods], "pystr"), coq_bool(prov.essential), b_opt(None),
            s_opt(b["cc"]), s_opt(b["ccm"]), s_opt(sent_v), s_opt(None), hb_table([sent_v]), coq_outcome(out))
        cases.append((term, rec))
    return outs


def history_spec(rng, ct, method, length, n, j, inter, mode="fixed", via="args"):
    steps = []
    for i in range(1, n + 1):
        steps.append(["begin", "A"])
        if inter and (i == 1 or rng.random() < 0.4):
            steps.append(["begin", "B"])
        if i < n and rng.random() < 0.5:
            steps.append(["resp", "A"])
    nb = sum(1 for x in steps if x == ["begin", "B"])
    b_first = inter and rng.random() < 0.5
    if b_first:
        steps.append(["redeem", "B", nb])
    steps.append(["redeem", "A", j])
    if j != n and rng.random() < 0.6:
        steps.append(["redeem", "A", n])       # ... and then the code of the latest request
    if inter and not b_first:
        steps.append(["redeem", "B", nb])
    return {"client_type": ct, "method": method, "length": length, "state_mode": mode, "state_via": via, "steps": steps}


def rp_histories(ctx, provs, rng, cases, rpcases, hcases, n_random):
    import idpyoidc.client.oauth2.add_on.pkce as cp
    import idpyoidc.client.util as cu
    draws = Draws(rng, cu.BASECHR)
    real_unreserved = cp.unreserved
    cp.unreserved = draws
    try:
        secret = provs[0].server.context.cdb["client_1"]["client_secret"]
        ents = {ct: make_rp_ct(secret, ct) for ct in ("oauth2", "oidc")}
        seq = 0

        def pick(method):
            eff = method or "S256"
            good = [p for p in provs if eff in p.methods]
            return rng.choice(good) if good and rng.random() < 0.85 else rng.choice(provs)
        for ct in ("oauth2", "oidc"):
            for method in ("S256", "S384", "S512", None):
                for n in (1, 2, 3):
                    for j in range(1, n + 1):
                        for inter in (False, True):
                            seq += 1
                            spec = history_spec(rng, ct, method, rng.choice([None, 43, 64, 128]), n, j, inter,
                                                mode=rng.choice(["fixed", "fixed", "created"]), via=rng.choice(["args", "kwargs"]))
                            run_history(ctx, pick(method), ents[ct], spec, str(seq), draws, cases, rpcases, hcases)
        for _ in range(n_random):
            seq += 1
            ct = rng.choice(["oauth2", "oidc"])
            method = rng.choice(["S256", "S256", "S384", "S512", None, None, "plain", "S1"])
            n = rng.choice([1, 2, 2, 3, 3])
            spec = history_spec(rng, ct, method, rng.choice([None, 1, 42, 43, 64, 128, 129]), n, rng.randint(0, n), rng.random() < 0.5,
                                mode=rng.choice(["fixed", "created"]), via=rng.choice(["args", "kwargs"]))
            run_history(ctx, pick(method), ents[ct], spec, str(seq), draws, cases, rpcases, hcases)
    finally:
        cp.unreserved = real_unreserved


def downgrade_pairs(ctx, provs, rng, cases):
    """same flow with and without a token-request method: outcomes must be equal (oracle, property text:
    'under the method recorded at authorization time')."""
    for prov in provs:
        for m in ALL:
            v = rstr(rng, 43)
            c = ref_tr(m, v)
            for cv in (v, c, v + "x"):
                base = run_flow(ctx, prov, None, c, m, cv, None, "pair-base", cases)
                for t in ("plain", "S256", "S512", "zzz"):
                    o = run_flow(ctx, prov, None, c, m, cv, t, "pair-variant", cases)
                    if o != base:
                        ctx.violation("token-method-honoured",
                                      "outcome changes from %r to %r when the token request adds code_challenge_method=%r"
                                      % (base, o, t), {"provider": prov.methods, "m": m, "cv": cv, "c": c})


def browser_session_flows(ctx, provs, rng, cases):
    """several authorizations from one browser session (the session cookie of the first response is presented again,
    new state, new challenge): every code is bound to the challenge of ITS OWN authorization request"""
    for prov in provs:
        prov.set_client_flag(None)
        for m in [x for x in ALL if x in prov.methods][:3]:
            vs = [rstr(rng, 43) for _ in range(4)]
            cs = [ref_tr(m, v) for v in vs]
            a0 = prov.authz(cs[0], m, state="S0")
            ck = getattr(prov, "last_cookie", None)
            if a0[0] != "code" or not ck:
                ctx.notes.append("browser session flow: no cookie / code on %r (%r)" % (prov.methods, a0))
                continue
            ctx.count("browser-session:" + m)
            # later requests of the same browser; the verifier of an EARLIER request must not redeem a later code
            for i, (own, other) in enumerate([(1, 0), (2, 1), (3, 0)]):
                a = prov.authz(cs[own], m, state="S%d" % own, cookie=ck)
                ck = getattr(prov, "last_cookie", None) or ck
                if a[0] != "code":
                    record_flow(ctx, prov, None, cs[own], m, vs[own], None, "browser-later-refused", cases, a)
                    continue
                out = prov.token(a[1], vs[other], None)
                record_flow(ctx, prov, None, cs[own], m, vs[other], None, "browser-earlier-verifier", cases, out,
                            note="code of request %d, verifier of request %d, same browser session" % (own, other))
                if out[0] != "Tokens":
                    out2 = prov.token(a[1], vs[own], None)
                    record_flow(ctx, prov, None, cs[own], m, vs[own], None, "browser-own-verifier", cases, out2,
                                note="code of request %d with its own verifier (after a refused attempt)" % own)
            # a later request WITHOUT a challenge from the same browser must not inherit the first one's binding
            if not prov.essential:
                a = prov.authz(None, None, state="S9", cookie=ck)
                if a[0] == "code":
                    out = prov.token(a[1], None, None)
                    record_flow(ctx, prov, None, None, None, None, None, "browser-no-pkce-after-pkce", cases, out)


# ---------------------------------------------------------------- transport generators
TRANSPORTS = ("value", "uri", "par", "par_obj")


def mk_delivery(rng, prov, t, prot, front, body=None):
    d = {"t": t, "front": list(front), "alg": rng.choice(["RS256", "ES256"])}
    if t in ("value", "uri"):
        d["obj"] = list(prot)
    elif t == "par":
        d["body"] = list(prot)
    else:
        d["obj"] = list(prot)
        d["body"] = list(body if body is not None else front)
    if t in ("par", "par_obj"):
        d["push_auth"] = rng.choice(["basic", "post"])
        d["redeem"] = "min" if (not prov.oidc and rng.random() < 0.5) else "full"
    return d


def transport_matrix(ctx, provs, rng, dcases):
    """protected pair x front-channel pair x verifier, every transport, every provider"""
    for prov in provs:
        for t in TRANSPORTS:
            m = rng.choice(prov.methods)
            others = [x for x in ALL if x != m]
            m2 = rng.choice(others)
            vA, vB = rstr(rng, rng.choice([43, 64, 128])), rstr(rng, rng.choice([43, 64, 128]))
            A, B, B2 = ref_tr(m, vA), ref_tr(m, vB), ref_tr(m2, vB)
            N = (None, None)
            combos = [
                # name, protected pair, front-channel pair, verifiers
                ("protected-only", (A, m), N, [vA, vB, None]),
                ("front-repeats", (A, m), (A, m), [vA, vB]),
                ("front-other-challenge", (A, m), (B, m), [vA, vB, None]),
                ("front-other-challenge-and-method", (A, m), (B2, m2), [vA, vB]),
                ("front-method-only", (A, m), (None, m2), [vA, vB]),
                ("front-same-challenge-plain", (A, m), (A, "plain"), [vA, A]),
                ("front-unsupported-method", (A, m), (B, "S1"), [vA, vB]),
                ("front-challenge-only", (A, m), (B, None), [vA, vB]),
                ("protected-no-method", (vA, None), (B, m), [vA, vB]),
                ("protected-no-method-front-method", (A, None), (None, m), [vA, A]),
                ("protected-none", N, (B, m), [vB, None]),
                ("protected-method-only", (None, m), (B, None), [vB, None]),
                ("protected-empty-challenge", ("", m), (B, m), [vB, None]),
                ("protected-unsupported-front-supported", (ref_tr("S256", vA), "S1"), (B, m), [vA, vB]),
                ("none-anywhere", N, N, [None]),
            ]
            for name, prot, front, vs in combos:
                for cv in vs:
                    ce = rng.choice([None, None, True, False])
                    d = mk_delivery(rng, prov, t, prot, front)
                    run_dflow(ctx, prov, ce, d, cv, None, "transport:" + name, dcases)
            if t == "par_obj":
                # three places: object A, next to it in the pushed body B, front channel a third challenge C
                vC = rstr(rng, 43)
                for body, front in (((B, m), (ref_tr(m, vC), m)), ((B, m), N), (N, (B, m))):
                    for cv in (vA, vB, vC):
                        d = mk_delivery(rng, prov, t, (A, m), front, body=body)
                        run_dflow(ctx, prov, None, d, cv, None, "transport:three-places", dcases)
                for cv in (vB, None):
                    d = mk_delivery(rng, prov, t, N, N, body=(B, m))
                    run_dflow(ctx, prov, rng.choice([None, True, False]), d, cv, None, "transport:body-next-to-object-only", dcases)


def transport_random(ctx, provs, rng, dcases, n):
    pool_m = ALL + ["S1", ""]
    for _ in range(n):
        prov = rng.choice(provs)
        t = rng.choice(TRANSPORTS + ("front",))
        vs = [rstr(rng, rng.choice([43, 44, 64])) for _ in range(3)]

        def pair(i):
            m = rng.choice(pool_m) if rng.random() < 0.3 else rng.choice(prov.methods)
            c = ref_tr(m, vs[i]) if m in ALL else vs[i]
            return (rng.choice([c, c, c, None, "", vs[i]]), rng.choice([m, m, m, None, rng.choice(pool_m)]))
        prot, front, body = pair(0), rng.choice([pair(1), pair(1), (None, None), pair(0)]), rng.choice([pair(2), (None, None)])
        d = mk_delivery(rng, prov, t, prot, front, body=body) if t != "front" else {"t": "front", "front": list(front)}
        src = vs + [prot[0], front[0]]
        cv = rng.choice([vs[0], vs[0], vs[1], vs[1], vs[2], None, "", rng.choice(src)])
        run_dflow(ctx, prov, rng.choice([None, None, True, False]), d, cv, rng.choice([None, None, "plain"]),
                  "transport-random", dcases)


def rp_transport_cases(ctx, provs, rng, dcases):
    """the pair produced by the library's RP add-on, sent through every transport while somebody else's challenge
    travels on the front channel: the RP's own token request must be accepted, the other verifier refused"""
    from idpyoidc.message.oauth2 import AuthorizationResponse
    ent = make_rp(provs[0].server.context.cdb["client_1"]["client_secret"])
    rctx = ent.get_context()
    azs, tks = ent.get_service("authorization"), ent.get_service("accesstoken")
    seq = 0
    for method in ("S256", "S384", "S512"):
        rctx.add_on["pkce"] = {"code_challenge_method": method, "code_challenge_length": rng.choice([43, 64, 128])}
        for prov in provs:
            for t in TRANSPORTS:
                seq += 1
                state = "rptstate%d" % seq
                areq = azs.construct_request({"state": state, "response_type": "code"}).to_dict()
                v = rctx.cstate.get_set(state, claim=["code_verifier"]).get("code_verifier", "")
                cc, ccm = areq.get("code_challenge"), areq.get("code_challenge_method")
                vB = rstr(rng, 43)
                mB = rng.choice(prov.methods)
                d = mk_delivery(rng, prov, t, (cc, ccm), (ref_tr(mB, vB), mB))
                # the RP's own token request (its add-on supplies the verifier)
                rctx.cstate.update(state, AuthorizationResponse(code="placeholder", state=state))
                treq = tks.construct_request(state=state).to_dict()
                sent_v = treq.get("code_verifier")
                out = run_dflow(ctx, prov, None, d, sent_v, None, "rp-transport", dcases, token_req=treq,
                                note="pair of the library's RP (%s), foreign challenge on the front channel" % method)
                if ccm in prov.methods and out[0] != "Tokens" and v != "":
                    ctx.violation("rp-op-disagree",
                                  "pair produced by the library's RP (method %r) and delivered by %s refused by the library's "
                                  "provider (configured %r) when another challenge travels on the front channel: %r"
                                  % (ccm, t, prov.methods, out), {"delivery": d, "provider": prov.methods, "rp_method": method})
                # ... and the verifier of the front-channel challenge
                run_dflow(ctx, prov, None, d, vB, None, "rp-transport-foreign-verifier", dcases)


# ---------------------------------------------------------------- interactive generators
SPECIALS = ["a b+c/d=e&f%41g", "X&code_challenge_method=plain", "%26amp;&#38;<\"q\">'", "käse-λ-€&=+ %", "+++===&&&%%%   "]


def near_miss1(rng, v):
    i = rng.randrange(len(v))
    return v[:i] + rng.choice([x for x in UNRES if x != v[i]]) + v[i + 1:]


def idelivery(rng, prov, t, prot, front=(None, None)):
    if t == "front":
        return {"t": "front", "front": list(prot)}
    return mk_delivery(rng, prov, t, prot, front)


def interactive_matrix(ctx, iprovs, rng, icases, dcases):
    """transport x method x pair shape x verifier, every interactive provider; the histories rotate over the flows"""
    N = (None, None)
    k = 0
    for prov in iprovs:
        for t in ("front",) + TRANSPORTS:
            for m in prov.methods:
                vA = rstr(rng, rng.choice([43, 64, 128]))
                A = ref_tr(m, vA)
                for cv in (vA, near_miss1(rng, vA), None):
                    k += 1
                    run_iflow(ctx, prov, rng.choice([None, None, True, False]), idelivery(rng, prov, t, (A, m)),
                              HOWS[k % len(HOWS)], cv, None, "interactive:pair", icases, dcases)
            m = rng.choice(prov.methods)
            vA, vB = rstr(rng, 43), rstr(rng, 43)
            A, B = ref_tr(m, vA), ref_tr(m, vB)
            sp = rng.choice(SPECIALS) + rstr(rng, 6)
            spm = "plain" if "plain" in prov.methods else m
            combos = [
                ("no-method", (vA, None), N, [(vA, None), (None, None)]),
                ("no-challenge", N, N, [(None, None)]),
                ("method-only", (None, m), N, [(None, None)]),
                ("unsupported-method", (A, "S1"), N, [(vA, None)]),
                ("special-characters", (sp, spm), N, [(sp, None), (None, None), (sp.split("&")[0], None)]),
                ("downgrade-plain", (A, m), N, [(A, "plain")]),
            ]
            if t != "front":
                combos += [
                    ("front-other-challenge", (A, m), (B, m), [(vA, None), (vB, None)]),
                    ("front-same-challenge-plain", (A, m), (A, "plain"), [(A, None)]),
                    ("protected-none", N, (B, m), [(vB, None), (None, None)]),
                ]
            for name, prot, front, toks in combos:
                for cv, tccm in toks:
                    k += 1
                    run_iflow(ctx, prov, rng.choice([None, None, True, False]), idelivery(rng, prov, t, prot, front),
                              HOWS[k % len(HOWS)], cv, tccm, "interactive:" + name, icases, dcases,
                              state=("S &=%%+t%d" % k) if name == "special-characters" else None)


def interactive_histories(ctx, iprovs, rng, icases, dcases):
    """every history on every provider, with the verifier that belongs to the OTHER request of that history"""
    for prov in iprovs:
        m = prov.methods[0]          # the method of the earlier / other request of the history as well
        for how in HOWS + ("sso",):
            for t in ("front", rng.choice(TRANSPORTS)):
                vA = rstr(rng, 43)
                A = ref_tr(m, vA)
                other = SWAP_V if how == "swap" else EARLIER_V if how in ("relogin", "maxage", "sso") else rstr(rng, 43)
                for cv in (vA, other, None):
                    run_iflow(ctx, prov, None, idelivery(rng, prov, t, (A, m)), how, cv, None,
                              "interactive-history:" + how, icases, dcases)
            # this request carries no challenge: nothing of the other request of the history may stick to its code
            if how in ("relogin", "maxage", "swap", "sso") and not prov.essential:
                for cv in (None, EARLIER_V if how != "swap" else SWAP_V):
                    run_iflow(ctx, prov, None, {"t": "front", "front": [None, None]}, how, cv, None,
                              "interactive-history-no-pkce:" + how, icases, dcases)


def rp_interactive_cases(ctx, iprovs, rng, icases, dcases):
    """the pair of the library's RP add-on through the log-in page: the RP's own token request must be accepted"""
    from idpyoidc.message.oauth2 import AuthorizationResponse
    ent = make_rp(iprovs[0].server.context.cdb["client_1"]["client_secret"])
    rctx = ent.get_context()
    azs, tks = ent.get_service("authorization"), ent.get_service("accesstoken")
    seq = 0
    for method in ("S256", "S384", "S512"):
        rctx.add_on["pkce"] = {"code_challenge_method": method, "code_challenge_length": rng.choice([43, 64, 128])}
        for prov in iprovs:
            for t in ("front", rng.choice(TRANSPORTS)):
                seq += 1
                state = "rpistate%d" % seq
                areq = azs.construct_request({"state": state, "response_type": "code"}).to_dict()
                v = rctx.cstate.get_set(state, claim=["code_verifier"]).get("code_verifier", "")
                cc, ccm = areq.get("code_challenge"), areq.get("code_challenge_method")
                d = idelivery(rng, prov, t, (cc, ccm))
                rctx.cstate.update(state, AuthorizationResponse(code="placeholder", state=state))
                treq = tks.construct_request(state=state).to_dict()
                how = rng.choice(HOWS)
                out = run_iflow(ctx, prov, None, d, how, treq.get("code_verifier"), None, "rp-interactive", icases, dcases,
                                token_req=treq, note="pair of the library's RP (%s) through the log-in page" % method)
                if ccm in prov.methods and out is not None and out[0] != "Tokens" and v != "":
                    ctx.violation("rp-op-disagree",
                                  "pair produced by the library's RP (method %r), delivered by %s, log-in page (%s): refused by "
                                  "the library's provider (configured %r): %r" % (ccm, t, how, prov.methods, out),
                                  {"delivery": d, "provider": prov.describe(), "rp_method": method, "interactive": {"how": how}})


def interactive_random(ctx, iprovs, rng, icases, dcases, n):
    pool_m = ALL + ["S1", ""]
    for _ in range(n):
        prov = rng.choice(iprovs)
        t = rng.choice(TRANSPORTS + ("front", "front"))
        vs = [rstr(rng, rng.choice([43, 44, 64]), rng.choice([UNRES, UNRES, UNRES + "å &=+%"])) for _ in range(2)]

        def pair(i):
            m = rng.choice(pool_m) if rng.random() < 0.25 else rng.choice(prov.methods)
            c = ref_tr(m, vs[i]) if m in ALL else vs[i]
            if c is None:
                c = rstr(rng, 43)
            return (rng.choice([c, c, c, None, "", vs[i]]), rng.choice([m, m, m, None, rng.choice(pool_m)]))
        prot, front = pair(0), rng.choice([pair(1), (None, None), (None, None)])
        d = idelivery(rng, prov, t, prot, front)
        cv = rng.choice([vs[0], vs[0], vs[0], vs[1], None, "", prot[0], EARLIER_V, SWAP_V])
        run_iflow(ctx, prov, rng.choice([None, None, True, False]), d, rng.choice(HOWS + ("sso",)), cv,
                  rng.choice([None, None, "plain"]), "interactive-random", icases, dcases)


ISPECS = [(None, True, True, "jinja"), (None, False, True, "form"), (["S256"], True, True, "form"),
          (["S256"], False, True, "jinja"), (["plain", "S256"], True, True, "jinja"), (["S256", "S512"], False, True, "form"),
          (None, True, False, "jinja"), (["plain", "S256"], False, False, "form")]


def interactive_section(ctx, rng, icases, dcases, specs=None, xicases=None):
    """providers with a log-in page, under a controlled clock (the page answered late, max_age)"""
    import srv
    import warnings
    from idpyoidc.server.exception import OnlyForTestingWarning
    warnings.filterwarnings("ignore", category=OnlyForTestingWarning)     # UserPassJinja2 says so on every page
    clock = srv.Clock(start=int(time.time())).install()
    try:
        iprovs = []
        for methods, essential, oidc, login in (specs or ISPECS):
            p = IProv(srv, methods, essential, oidc, login)
            p.clock = clock
            if p.declares_pkce:
                ctx.notes.append("the request class of a provider now DECLARES %r" % p.declares_pkce)
            iprovs.append(p)
        if specs is not None:
            return iprovs, clock
        interactive_matrix(ctx, iprovs, rng, icases, dcases)
        interactive_histories(ctx, iprovs, rng, icases, dcases)
        rp_interactive_cases(ctx, iprovs, rng, icases, dcases)
        interactive_random(ctx, iprovs, rng, icases, dcases, 150 if ctx.quick else 8000)
        if xicases is not None:
            extras_interactive(ctx, iprovs, rng, xicases, dcases, 60 if ctx.quick else 4000)
    finally:
        if specs is None:
            clock.uninstall()


# ---------------------------------------------------------------- extension parameters next to the genuine ones
# The PKCE verdict of a request is a function of its PKCE parameters and the recorded pair only.  The add-on is two
# post-parse hooks; whether they RUN must not depend on anything else the request carries.  Names: members the endpoint
# machinery itself gives a meaning to somewhere (error messages, results of process_request, marks parse_request /
# client authentication / request-object verification leave on a request, keyword arguments of the hooks, keys of the
# add-on's configuration and results), and plain unknown ones.
XVALUES = {
    "error": ["x", "none", "invalid_request", "access_denied"],
    "error_description": ["Missing required code_challenge", "PKCE check failed", "x y", "Missing code_verifier"],
    "error_uri": ["https://client_1.example.com/err"],
    "return_uri": ["https://client_1.example.com/cb", "https://elsewhere.example.org/cb"],
    "response_args": ["{}", "{\"code\": \"x\"}"],
    "authenticated": ["true", "True", "1"],
    "client_authn_method": ["none", "public", "client_secret_post"],
    "__verified_request": ["1", "x"],
    "__verified_client_assertion": ["x"],
    "__verified_id_token_hint": ["x"],
    "http_response": ["x"],
    "fragment_enc": ["true"],
    "response_placement": ["body", "url"],
    "redirect_location": ["https://elsewhere.example.org/"],
    "cookie": ["a=b"],
    "session_id": ["diana;;client_1;;x"],
    "essential": ["false", "0"],
    "pkce_essential": ["false", "0"],
    "code_challenge_methods": ["plain"],
    "auth_info": ["x"],
    "http_info": ["x"],
    "context": ["x"],
    "verify": ["false"],
    "grant": ["x"],
    "token": ["x"],
    "code_challenges": ["x"],
    "code_verifiers": ["x"],
    "Error": ["x"],
    "zz_ext": ["a b&c=d", "1"],
}
XNAMES = sorted(XVALUES)
# only where they mean nothing to the endpoint itself: a verifier next to an authorization request
X_AZ_ONLY = {"code_verifier": ["not-a-verifier-of-anything-0123456789-abcdefghij"]}
# a token request: members of authorization / error messages
X_TK_ONLY = {"code_challenge": ["zzz"], "state": ["ST"], "request": ["x"], "request_uri": ["urn:uuid:none"],
             "response_type": ["code"], "nonce": ["n"], "prompt": ["none"]}


def xpick(rng, names, pool=None):
    pool = pool or XVALUES
    return {k: rng.choice(pool[k]) for k in names}


def coq_rparams(pairs):
    rows = []
    for k, v in pairs:
        val = "(PvL %s)" % coq_list([coq_str(x) for x in v], "pystr") if isinstance(v, list) else "(PvS %s)" % coq_str(v)
        rows.append("(%s, %s)" % (coq_str(k), val))
    return coq_list(rows, "(pystr * pval)")


def x_members(d):
    """the extension parameters the authorization request of d carried, front channel first"""
    xf, xp = d.get("x_front") or {}, d.get("x_prot") or {}
    return list(xf.items()) + [(k, v) for k, v in xp.items() if k not in xf]


def strip_x(d):
    return {k: v for k, v in d.items() if k not in ("x_front", "x_prot")}


def run_xflow(ctx, prov, ce, d, tx, cv, tccm, kind, xcases, note=None):
    """One flow whose authorization request carries the extension parameters of d (x_front / x_prot) and whose token
    request carries tx, and its TWIN: the same flow without them.  Ground truth for the flow: the twin's verdict, and
    (oracle / oracle_transport) the verdict recomputed from the PKCE parameters alone with hashlib."""
    prov.set_client_flag(ce)
    prov.xflag = True
    try:
        a = prov.deliver(d, state="XT%d" % prov.n)
        obs = None
        if a[0] == "code":
            obs = prov.recorded(a[1])
            out = prov.token(a[1], cv, tccm, extra=tx)
        else:
            out = a
    finally:
        prov.xflag = False
    a0 = prov.deliver(strip_x(d), state="XT%d" % prov.n)
    obs0 = None
    if a0[0] == "code":
        obs0 = prov.recorded(a0[1])
        out0 = prov.token(a0[1], cv, tccm)
    else:
        out0 = a0
    if tuple(out) == ("AzRefused", 97) and tuple(out0) != ("AzRefused", 97):
        # the PUSH itself failed because of an extension parameter in the pushed body (unchanged library: a plain body with
        # `__verified_request` makes Authorization._post_parse_request raise AttributeError): no authorization request ever
        # reached the PKCE hook, nothing was issued.  Whether a push is accepted is not C15's subject; counted, not modelled.
        ctx.case_seen({"kind": kind, "delivery": d, "outcome": list(out)}, nontrivial=False)
        ctx.count("extras:push-failed-for-another-reason")
        for k, _ in x_members(d):
            ctx.count("extras:push-failed:" + k)
        return out
    return record_xflow(ctx, prov, ce, d, tx, cv, tccm, kind, xcases, out, obs, out0, obs0, note)


def record_xflow(ctx, prov, ce, d, tx, cv, tccm, kind, xcases, out, obs, out0, obs0, note=None):
    rec = {"kind": kind, "provider": prov.describe(), "pkce_essential": ce, "delivery": d, "token_extras": tx,
           "code_verifier": cv, "token_code_challenge_method": tccm,
           "recorded_in_grant": list(obs) if obs is not None else None, "outcome": list(out),
           "twin_without_extras": {"outcome": list(out0), "recorded_in_grant": list(obs0) if obs0 is not None else None}}
    if note:
        rec["note"] = note
    eff = ref_request_pair(d)
    prot = ref_protected(d)
    essential = ce if ce is not None else prov.essential
    ctx.case_seen(rec, nontrivial=True)
    ctx.count("kind:" + kind)
    ctx.count("extras-transport:" + d["t"])
    for k, _ in x_members(d):
        ctx.count("extras-az:" + k)
    for k in tx:
        ctx.count("extras-tk:" + k)
    ctx.count("extras-out:" + out[0] + (str(out[1]) if len(out) > 1 else ""))
    # the property text on the PKCE parameters alone (hashlib), exactly as for a flow without extension parameters
    oracle(ctx, prov, dict(rec, code_challenge=eff[0], code_challenge_method=eff[1]), out, eff[0] is not None, essential)
    oracle_transport(ctx, prov, rec, d, prot, eff, cv, out, obs)
    # ... and the rule itself: forall extras, flow (rq + extras) = flow rq
    if tuple(out) != tuple(out0):
        ctx.violation("extras-change-verdict",
                      "the flow ends in %r, the same flow without the extension parameters %r (authorization request) / %r "
                      "(token request) in %r: the PKCE verdict depends on parameters that are none of its business"
                      % (out, dict(x_members(d)), tx, out0), rec)
    norm_obs = lambda o: None if o is None else (nz(o[0]), o[1])
    if norm_obs(obs) != norm_obs(obs0):
        ctx.violation("extras-change-recorded-pair",
                      "the grant of the code records %r, for the same request without the extension parameters %r: %r"
                      % (obs, dict(x_members(d)), obs0), rec)
    if obs is not None and obs[1] is not None:
        obs_t = "(Some (%s, %s))" % (s_opt(nz(obs[0])), coq_str(obs[1]))
    else:
        obs_t = "(@None (option pystr * pystr))"
    term = "(%s, %s, %s, %s, %s, %s, %s, %s, %s, %s, %s)" % (
        coq_list([coq_str(m) for m in prov.methods], "pystr"), coq_bool(prov.essential), b_opt(ce),
        coq_delivery(d), coq_rparams(x_members(d)), coq_rparams(list(tx.items())), s_opt(cv), s_opt(tccm),
        hb_table([cv]), coq_outcome(out), obs_t)
    xcases.append((term, rec))
    return out


def x_delivery(rng, prov, t, prot, front, xs, where):
    d = {"t": "front", "front": list(prot)} if t == "front" else mk_delivery(rng, prov, t, prot, front)
    if t == "front" or where in ("front", "both"):
        d["x_front"] = dict(xs)
    if t != "front" and where in ("prot", "both"):
        d["x_prot"] = dict(xs)
    return d


def x_situations(rng, prov):
    """(name, protected pair, [(verifier, token-request method)]) - both legs, each with its three PKCE verdicts"""
    m = rng.choice(prov.methods)
    vA = rstr(rng, rng.choice([43, 64, 128]))
    A = ref_tr(m, vA)
    return [("no-challenge", (None, None), [(None, None), (vA, None)]),
            ("method-only", (None, m), [(None, None)]),
            ("unknown-method", (A, "S1"), [(vA, None)]),
            ("no-method", (vA, None), [(vA, None), (None, None)]),
            ("pair", (A, m), [(None, None), (near_miss1(rng, vA), None), (vA, None), (A, "plain")])]


def extras_matrix(ctx, provs, rng, xcases):
    """every name alone, on each leg, in every PKCE situation; the names rotate over providers x transports so that
    every (provider, transport, situation, verifier) cell is visited with some name and every name with every situation"""
    N = (None, None)
    k = 0
    for prov in provs:
        for t in ("front",) + TRANSPORTS:
            for sname, prot, toks in x_situations(rng, prov):
                for cv, tccm in toks:
                    for where in (("front",) if t == "front" else ("front", "prot")):
                        k += 1
                        name = XNAMES[k % len(XNAMES)]
                        xs = xpick(rng, [name])
                        leg = ("az", "tk", "both")[k % 3]
                        d = x_delivery(rng, prov, t, prot, N, xs if leg != "tk" else {}, where)
                        run_xflow(ctx, prov, rng.choice([None, None, True, False]), d, xs if leg != "az" else {}, cv, tccm,
                                  "extras:%s:%s" % (sname, leg), xcases)
    # every name, alone, against the refusals that matter most (essential provider, front channel and one transport)
    ess = [p for p in provs if p.essential]
    for i, name in enumerate(XNAMES + sorted(X_AZ_ONLY) + sorted(X_TK_ONLY)):
        prov = ess[i % len(ess)]
        pool = XVALUES if name in XVALUES else X_AZ_ONLY if name in X_AZ_ONLY else X_TK_ONLY
        m = rng.choice(prov.methods)
        vA = rstr(rng, 43)
        A = ref_tr(m, vA)
        for val in pool[name]:
            xs = {name: val}
            for t in ("front", TRANSPORTS[i % len(TRANSPORTS)]):
                if name not in X_TK_ONLY:
                    for where in ("front", "prot"):
                        run_xflow(ctx, prov, None, x_delivery(rng, prov, t, N, N, xs, where), {}, None, None,
                                  "extras-each:no-challenge", xcases)
                        run_xflow(ctx, prov, None, x_delivery(rng, prov, t, (A, "S1"), N, xs, where), {}, vA, None,
                                  "extras-each:unknown-method", xcases)
                if name not in X_AZ_ONLY:
                    d = x_delivery(rng, prov, t, (A, m), N, {}, "front")
                    for cv in (None, near_miss1(rng, vA), vA):
                        run_xflow(ctx, prov, None, d, xs, cv, None, "extras-each:token", xcases)
    # list-valued members (a parameter given twice on the wire) of the token request
    for prov in provs[:3]:
        m = rng.choice(prov.methods)
        vA = rstr(rng, 43)
        for name in ("error", "zz_ext", "error_description"):
            d = {"t": "front", "front": [ref_tr(m, vA), m]}
            for cv in (None, vA + "x", vA):
                run_xflow(ctx, prov, None, d, {name: ["x", "y"]}, cv, None, "extras:twice", xcases)


def extras_random(ctx, provs, rng, xcases, n):
    pool_m = ALL + ["S1", ""]
    for _ in range(n):
        prov = rng.choice(provs)
        t = rng.choice(TRANSPORTS + ("front", "front"))
        vs = [rstr(rng, rng.choice([43, 44, 64])) for _ in range(2)]

        def pair(i):
            m = rng.choice(pool_m) if rng.random() < 0.3 else rng.choice(prov.methods)
            c = ref_tr(m, vs[i]) if m in ALL else vs[i]
            return (rng.choice([c, c, c, None, "", vs[i]]), rng.choice([m, m, m, None, rng.choice(pool_m)]))
        prot, front = pair(0), rng.choice([pair(1), (None, None), (None, None)])
        ax = xpick(rng, rng.sample(XNAMES, rng.choice([0, 1, 1, 2, 4])))
        tx = xpick(rng, rng.sample(XNAMES, rng.choice([0, 1, 1, 2, 4])))
        if rng.random() < 0.2:
            ax.update(xpick(rng, ["code_verifier"], X_AZ_ONLY))
        if rng.random() < 0.2:
            tx.update(xpick(rng, rng.sample(sorted(X_TK_ONLY), 2), X_TK_ONLY))
        if not ax and not tx:
            ax = xpick(rng, ["error"])
        d = x_delivery(rng, prov, t, prot, front, ax, rng.choice(["front", "prot", "both"]))
        cv = rng.choice([vs[0], vs[0], vs[0], vs[1], None, "", prot[0]])
        run_xflow(ctx, prov, rng.choice([None, None, True, False]), d, tx, cv, rng.choice([None, None, "plain"]),
                  "extras-random", xcases)


# a plain pushed body with this member makes the PUSH fail on the unchanged library (see run_xflow); run_xflow tells such a
# flow apart by its twin, the interactive flows (no twin) do not push it
PUSH_BREAKERS = ("__verified_request",)


def run_xiflow(ctx, prov, ce, d, tx, how, cv, tccm, kind, xicases, dcases, note=None):
    """an interactive flow with extension parameters: those of the authorization request travel through the page's query
    (they are rendered among the `others` of the model case), tx are added to the token request"""
    if d["t"] == "par" and d.get("x_prot"):
        d = dict(d, x_prot={k: v for k, v in d["x_prot"].items() if k not in PUSH_BREAKERS})
    secret = prov.server.context.cdb["client_1"]["client_secret"]
    treq = {"grant_type": "authorization_code", "redirect_uri": "https://client_1.example.com/cb",
            "client_id": "client_1", "client_secret": secret}
    if cv is not None:
        treq["code_verifier"] = cv
    if tccm is not None:
        treq["code_challenge_method"] = tccm
    treq.update(tx)
    ic, dc = [], []
    prov.xflag, prov.xtx = True, tx
    try:
        out = run_iflow(ctx, prov, ce, d, how, cv, tccm, kind, ic, dc, note=note, token_req=treq)
    finally:
        prov.xflag, prov.xtx = False, None
    for term, rec in ic:
        for k, _ in x_members(d):
            ctx.count("extras-interactive-az:" + k)
        for k in tx:
            ctx.count("extras-interactive-tk:" + k)
        xicases.append(("(%s, %s)" % (coq_rparams(list(tx.items())), term), rec))
    for term, rec in dc:
        dcases.append((term, rec))
    return out


def extras_interactive(ctx, iprovs, rng, xicases, dcases, n):
    N = (None, None)
    k = 0
    for prov in iprovs:
        for t in ("front", rng.choice(TRANSPORTS)):
            for sname, prot, toks in x_situations(rng, prov):
                for cv, tccm in toks:
                    k += 1
                    names = [XNAMES[k % len(XNAMES)], XNAMES[(7 * k + 3) % len(XNAMES)]]
                    xs = xpick(rng, names)
                    d = x_delivery(rng, prov, t, prot, N, xs, ("front", "prot", "both")[k % 3])
                    run_xiflow(ctx, prov, rng.choice([None, None, True, False]), d, xpick(rng, names[:1 + k % 2]),
                               HOWS[k % len(HOWS)], cv, tccm, "extras-interactive:" + sname, xicases, dcases)
    for _ in range(n):
        prov = rng.choice(iprovs)
        t = rng.choice(TRANSPORTS + ("front", "front"))
        m = rng.choice(prov.methods + ["S1"])
        v = rstr(rng, 43)
        c = ref_tr(m, v) if m in ALL else v
        prot = (rng.choice([c, c, None, v]), rng.choice([m, m, None]))
        d = x_delivery(rng, prov, t, prot, N, xpick(rng, rng.sample(XNAMES, rng.choice([1, 2, 3]))),
                       rng.choice(["front", "prot", "both"]))
        run_xiflow(ctx, prov, rng.choice([None, None, True, False]), d, xpick(rng, rng.sample(XNAMES, rng.choice([0, 1, 2]))),
                   rng.choice(HOWS + ("sso",)), rng.choice([v, v, None, v + "x", c]), None,
                   "extras-interactive-random", xicases, dcases)


# ---------------------------------------------------------------- case files with shared string literals
_LIT = re.compile(r'\(PS "[^"]*"\)|\[\d+(?:;\d+)*\]%N')


def share_literals(texts):
    """Elaborating string literals dominates coqc time and the same strings (parameter names, methods, a challenge in
    the delivery / the page / the grant) recur: every distinct literal becomes one Definition of the file."""
    names = {}

    def sub(m):
        lit = m.group(0)
        if lit not in names:
            names[lit] = "cs_%d" % len(names)
        return names[lit]
    out = [_LIT.sub(sub, t) for t in texts]
    prelude = "".join("Definition %s : pystr := %s.\n" % (n, lit) for lit, n in names.items())
    return prelude, out


def check_cases_shared(ctx, imports, case_type, checker, cases, shard=400, label="cases", diag=None):
    """engine.Ctx.coq_check_cases with the literals of every shard shared (same verdicts, same bookkeeping)"""
    from concurrent.futures import ThreadPoolExecutor
    jobs = []
    for i in range(0, len(cases), shard):
        part = cases[i:i + shard]
        ctx.shard_seq += 1
        name = "%s_%s_%03d" % (ctx.prop, label, ctx.shard_seq)
        prelude, terms = share_literals([t for t, _ in part])
        body = "%sDefinition cases : list (%s) := [\n%s\n].\nEval vm_compute in (bad_indices (%s) cases).\n" % (
            prelude, case_type, ";\n".join(terms), checker)
        jobs.append((name, body, part))

    def run(job):
        return job, ctx.coq_eval(job[0], imports, job[1])
    with ThreadPoolExecutor(max_workers=min(E.NCPU, max(1, len(jobs)))) as ex:
        results = list(ex.map(run, jobs))
    bad = []
    for (name, body, part), (rc, out, vals) in results:
        if rc != 0 or not vals:
            ctx.broken.append("correspondence shard %s does not evaluate: %s" % (name, out.strip()[-600:]))
            continue
        try:
            idx = E.parse_nat_list(vals[-1])
        except ValueError as e:
            ctx.broken.append("correspondence shard %s: %s" % (name, e))
            continue
        ctx.traces += len(part)
        dvals = {}
        if idx and diag:
            dbody = "".join("Eval vm_compute in (%s (%s)).\n" % (diag, part[k][0]) for k in idx[:5])
            drc, dout, dv = ctx.coq_eval(name + "_diag", imports, dbody)
            dvals = dict(zip(idx[:5], dv))
        for k in idx:
            rec = part[k][1]
            bad.append(rec)
            ctx.mismatch("model and implementation disagree (%s, %s[%d])" % (label, name, k), rec,
                         model=dvals.get(k, part[k][0][:2000]))
    return bad


def build_providers():
    import srv
    provs = []
    for methods in (None, ["S256"], ["plain", "S256"], ["S256", "S512"]):
        for essential in (True, False):
            provs.append(Prov(srv, methods, essential, True))
    provs.append(Prov(srv, None, True, False))      # plain OAuth2 authorization server
    return provs


def run(ctx):
    import logging
    logging.getLogger("idpyoidc").setLevel(logging.CRITICAL)
    rng = ctx.rng
    provs = build_providers()
    cases, rpcases, unres, dcases, icases, xcases, xicases, hcases = [], [], [], [], [], [], [], []
    single_faults(ctx, provs, rng, cases)
    presence_table(ctx, provs, rng, cases)
    lengths_and_alphabets(ctx, provs, rng, cases)
    downgrade_pairs(ctx, provs, rng, cases)
    browser_session_flows(ctx, provs, rng, cases)
    rp_cases(ctx, provs, rng, cases, rpcases, unres)
    random_flows(ctx, provs, rng, cases, 600 if ctx.quick else 30000)
    transport_matrix(ctx, provs, rng, dcases)
    rp_transport_cases(ctx, provs, rng, dcases)
    transport_random(ctx, provs, rng, dcases, 400 if ctx.quick else 20000)
    interactive_section(ctx, rng, icases, dcases, xicases=xicases)
    extras_matrix(ctx, provs, rng, xcases)
    extras_random(ctx, provs, rng, xcases, 300 if ctx.quick else 20000)
    rp_histories(ctx, provs, rng, cases, rpcases, hcases, 60 if ctx.quick else 4000)
    imp = ["Lib.Base", "Lib.PyStr", "Lib.PkceTy", "Gen.PkceTables", "Model.Pkce"]
    check_cases_shared(ctx, imp, "flow_case", "chk_flow", cases, shard=400, label="flow", diag="flow_model")
    check_cases_shared(ctx, imp, "dflow_case", "chk_dflow", dcases, shard=400, label="dflow", diag="dflow_model")
    check_cases_shared(ctx, imp, "iflow_case", "chk_iflow", icases, shard=200, label="iflow", diag="iflow_model")
    check_cases_shared(ctx, imp, "xflow_case", "chk_xflow", xcases, shard=400, label="xflow", diag="xflow_model")
    check_cases_shared(ctx, imp, "xiflow_case", "chk_xiflow", xicases, shard=200, label="xiflow", diag="xiflow_model")
    ctx.coq_check_cases(imp, "rp_case", "chk_rp", rpcases, shard=200, label="rp", diag="rp_model")
    ctx.coq_check_cases(imp, "pystr * bool", "chk_unreserved", unres, shard=200, label="unres")
    check_cases_shared(ctx, HIST_IMP, "hist_case", "chk_hist", hcases, shard=100, label="hist", diag="hist_model")


def replay(ctx, rp):
    """Re-run the recorded flow (or, for a broken obligation, the generator with the recorded seed)."""
    case = rp.get("case") or {}
    imp = ["Lib.Base", "Lib.PyStr", "Lib.PkceTy", "Gen.PkceTables", "Model.Pkce"]
    if "rp_history" in case and "provider" in case:
        import logging
        import srv
        logging.getLogger("idpyoidc").setLevel(logging.CRITICAL)
        import idpyoidc.client.oauth2.add_on.pkce as cp
        import idpyoidc.client.util as cu
        p, spec = case["provider"], case["rp_history"]
        prov = Prov(srv, p["methods"], p["essential"], p.get("oidc", True))
        draws = Draws(ctx.rng, cu.BASECHR, feed=case.get("drawn"))
        real_unreserved = cp.unreserved
        cp.unreserved = draws
        try:
            ent = make_rp_ct(prov.server.context.cdb["client_1"]["client_secret"], spec["client_type"])
            fc, rc, hc = [], [], []
            run_history(ctx, prov, ent, spec, "replay", draws, fc, rc, hc)
        finally:
            cp.unreserved = real_unreserved
        for _, r in hc:
            ctx.notes.append("replayed history (%s RP, method %r): request %d of %d under state %r redeemed; verifier of the latest "
                             "request %r, code_verifier of the token request %r, challenge of the redeemed request %r, outcome %r"
                             % (spec["client_type"], spec.get("method"), r["redeemed_request"], r["requests_under_state"],
                                r["state"], r["latest_verifier"], r["token_code_verifier"], r["code_challenge"], r["outcome"]))
        ctx.notes.append("recorded run: code_verifier of the token request %r, outcome %r; steps %r"
                         % (case.get("token_code_verifier"), case.get("outcome"), spec["steps"]))
        check_cases_shared(ctx, HIST_IMP, "hist_case", "chk_hist", hc, label="replay", diag="hist_model")
        ctx.coq_check_cases(imp, "flow_case", "chk_flow", fc, label="replay", diag="flow_model")
        ctx.coq_check_cases(imp, "rp_case", "chk_rp", rc, label="replay", diag="rp_model")
        return
    if "token_extras" in case and "delivery" in case and "provider" in case:
        p = case["provider"]
        if "interactive" in case:
            iprovs, clock = interactive_section(ctx, ctx.rng, [], [], specs=[(p["methods"], p["essential"], p.get("oidc", True),
                                                                             p.get("login", "jinja"))])
            try:
                xic, dc = [], []
                out = run_xiflow(ctx, iprovs[0], case.get("pkce_essential"), case["delivery"], case["token_extras"],
                                 case["interactive"]["how"], case.get("code_verifier"), case.get("token_code_challenge_method"),
                                 "replay", xic, dc)
            finally:
                clock.uninstall()
            ctx.notes.append("replayed interactive flow with extension parameters %r / %r: outcome %r (recorded run: %r)"
                             % (dict(x_members(case["delivery"])), case["token_extras"], out, case.get("outcome")))
            check_cases_shared(ctx, imp, "xiflow_case", "chk_xiflow", xic, label="replay", diag="xiflow_model")
            ctx.coq_check_cases(imp, "dflow_case", "chk_dflow", dc, label="replay", diag="dflow_model")
            return
        import srv
        prov = Prov(srv, p["methods"], p["essential"], p.get("oidc", True))
        xc = []
        out = run_xflow(ctx, prov, case.get("pkce_essential"), case["delivery"], case["token_extras"], case.get("code_verifier"),
                        case.get("token_code_challenge_method"), "replay", xc)
        r = xc[0][1]
        ctx.notes.append("replayed flow with extension parameters %r (authorization request) / %r (token request): outcome %r, "
                         "recorded in grant %r; the same flow without them: %r (recorded run: %r)"
                         % (dict(x_members(case["delivery"])), case["token_extras"], out, r.get("recorded_in_grant"),
                            r["twin_without_extras"], case.get("outcome")))
        check_cases_shared(ctx, imp, "xflow_case", "chk_xflow", xc, label="replay", diag="xflow_model")
        return
    if "interactive" in case and "delivery" in case and "provider" in case:
        p = case["provider"]
        iprovs, clock = interactive_section(ctx, ctx.rng, [], [], specs=[(p["methods"], p["essential"], p.get("oidc", True),
                                                                         p.get("login", "jinja"))])
        try:
            icases, dcases = [], []
            out = run_iflow(ctx, iprovs[0], case.get("pkce_essential"), case["delivery"], case["interactive"]["how"],
                            case.get("code_verifier"), case.get("token_code_challenge_method"), "replay", icases, dcases)
        finally:
            clock.uninstall()
        for _, r in icases + dcases:
            ctx.notes.append("replayed interactive flow (%s, post %s): outcome %r, query of the page %r, recorded in grant %r"
                             % (r["interactive"]["how"], r["interactive"]["post"], r["outcome"], r.get("query_of_login_page"),
                                r.get("recorded_in_grant")))
        ctx.notes.append("recorded run: outcome %r, recorded in grant %r" % (case.get("outcome"), case.get("recorded_in_grant")))
        imp = ["Lib.Base", "Lib.PyStr", "Lib.PkceTy", "Gen.PkceTables", "Model.Pkce"]
        ctx.coq_check_cases(imp, "iflow_case", "chk_iflow", icases, label="replay", diag="iflow_model")
        ctx.coq_check_cases(imp, "dflow_case", "chk_dflow", dcases, label="replay", diag="dflow_model")
        return
    if "delivery" in case and "provider" in case:
        import srv
        p = case["provider"]
        prov = Prov(srv, p["methods"], p["essential"], p.get("oidc", True))
        dcases = []
        out = run_dflow(ctx, prov, case.get("pkce_essential"), case["delivery"], case.get("code_verifier"),
                        case.get("token_code_challenge_method"), "replay", dcases)
        ctx.notes.append("replayed transport flow outcome: %r, recorded in grant %r (recorded run: %r, %r)"
                         % (out, dcases[0][1].get("recorded_in_grant"), case.get("outcome"), case.get("recorded_in_grant")))
        imp = ["Lib.Base", "Lib.PyStr", "Lib.PkceTy", "Gen.PkceTables", "Model.Pkce"]
        ctx.coq_check_cases(imp, "dflow_case", "chk_dflow", dcases, label="replay", diag="dflow_model")
        return
    if "code_challenge" in case and "provider" in case and case.get("kind") != "rp":
        import srv
        p = case["provider"]
        prov = Prov(srv, p["methods"], p["essential"], p.get("oidc", True))
        cases = []
        out = run_flow(ctx, prov, case.get("pkce_essential"), case.get("code_challenge"), case.get("code_challenge_method"),
                       case.get("code_verifier"), case.get("token_code_challenge_method"), "replay", cases)
        ctx.notes.append("replayed flow outcome: %r (recorded %r)" % (out, case.get("outcome")))
        imp = ["Lib.Base", "Lib.PyStr", "Lib.PkceTy", "Gen.PkceTables", "Model.Pkce"]
        ctx.coq_check_cases(imp, "flow_case", "chk_flow", cases, label="replay", diag="flow_model")
        return
    ctx.notes.append("replay re-runs the generator with the recorded seed")
    ctx.rng.seed(rp.get("seed", ctx.seed))
    run(ctx)
